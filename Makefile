# setup: build the libTooling extractor from files on disk only (offline)
LLVM_CXXFLAGS := $(shell llvm-config-14 --cxxflags)
all: build/gx build/gm
build/gx: tools/gx/gx.cc
	mkdir -p build
	clang++ $(LLVM_CXXFLAGS) -fno-rtti -O1 tools/gx/gx.cc -o build/gx /usr/lib/llvm-14/lib/libclang-cpp.so.14 /usr/lib/llvm-14/lib/libLLVM-14.so
clean:
	rm -rf build
build/gm: tools/gm/gm.cc
	mkdir -p build
	clang++ $(LLVM_CXXFLAGS) -fno-rtti -O1 tools/gm/gm.cc -o build/gm /usr/lib/llvm-14/lib/libclang-cpp.so.14 /usr/lib/llvm-14/lib/libLLVM-14.so
