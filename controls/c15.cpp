// Positive controls for C15 rules (analysed on every run; never linked).
namespace controls {

// R-CLAMP.chain: the second upper bound is skipped when the first one fires.
double ctl_clamp_chain(double len, double a, double b) {
    double max_len = len;
    if (max_len > 0.5 * a) {
        max_len = 0.5 * a;
    } else if (max_len > 0.5 * b) {
        max_len = 0.5 * b;
    }
    return max_len;
}

double ctl_clamp_chain_ok(double len, double a, double b) {
    double max_len = len;
    if (max_len > 0.5 * a) {
        max_len = 0.5 * a;
    }
    if (max_len > 0.5 * b) {
        max_len = 0.5 * b;
    }
    return max_len;
}

// opposite directions may be chained: at most one of them can fire
double ctl_clamp_range_ok(double u, double n) {
    if (u > n)
        u = n;
    else if (u < 0)
        u = 0;
    return u;
}

}  // namespace controls
