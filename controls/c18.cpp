// Positive controls for the C18 path rules: each function seeds exactly one violation;
// the *_ok twin is the repaired form and must be silent. Never compiled into anything.
#include <cstdio>
#include <cstdint>
#include <cstring>
#include <cstdlib>
namespace controls {

struct Box { uint8_t bytes[16]; };
struct Vec { uint64_t count; char** items; };

unsigned char* maybe_null(FILE* f) {
    if (feof(f)) return NULL;
    return (unsigned char*)malloc(4);
}

int ctl_leak_on_exit(const char* name, int mode) {
    FILE* in = fopen(name, "rb");
    if (in == NULL) return -1;
    if (mode == 1) {
        return 1;  // leak
    }
    fclose(in);
    return 0;
}
int ctl_leak_on_exit_ok(const char* name, int mode) {
    FILE* in = fopen(name, "rb");
    if (in == NULL) return -1;
    if (mode == 1) {
        fclose(in);
        return 1;
    }
    fclose(in);
    return 0;
}

void ctl_loop_no_progress(Vec* v) {
    for (uint64_t i = 0; i < v->count;) {
        free(v->items[i]);
    }
}
void ctl_loop_no_progress_ok(Vec* v) {
    for (uint64_t i = 0; i < v->count; i++) {
        free(v->items[i]);
    }
}

int ctl_null_to_memcmp(FILE* f) {
    unsigned char* s = maybe_null(f);
    if (memcmp(s, "1.0", 3) != 0) return 1;
    free(s);
    return 0;
}
int ctl_null_to_memcmp_ok(FILE* f) {
    unsigned char* s = maybe_null(f);
    if (s == NULL) return 2;
    if (memcmp(s, "1.0", 3) != 0) return 1;
    free(s);
    return 0;
}

void ctl_unbounded_copy(const uint8_t* buffer, uint64_t record_length) {
    Box b;
    memcpy(&b, buffer + 4, record_length);
    (void)b;
}
void ctl_unbounded_copy_ok(const uint8_t* buffer, uint64_t record_length) {
    Box b;
    if (record_length > sizeof(Box)) return;
    memcpy(&b, buffer + 4, record_length);
    (void)b;
}

uint8_t* ctl_dangling(FILE* in, uint64_t count) {
    uint8_t* bytes = (uint8_t*)malloc(count + 1);
    if (fread(bytes, 1, count, in) < count) {
        free(bytes);
    } else {
        bytes[count] = 0;
    }
    return bytes;
}
uint8_t* ctl_dangling_ok(FILE* in, uint64_t count) {
    uint8_t* bytes = (uint8_t*)malloc(count + 1);
    if (fread(bytes, 1, count, in) < count) {
        free(bytes);
        bytes = NULL;
    } else {
        bytes[count] = 0;
    }
    return bytes;
}

}  // namespace controls
