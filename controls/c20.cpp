// Positive control for the C20 check-then-use contradiction rule.
#include <cstdlib>
#include <cstring>
namespace controls {
struct Node { char* name; Node* next; };

unsigned ctl_list_head_removal(Node*& head, const char* name) {
    unsigned removed = 0;
    if (head == NULL) return removed;
    while (strcmp(head->name, name) == 0) {   // head may have become NULL
        Node* next = head->next;
        free(head);
        head = next;
        removed++;
    }
    return removed;
}
unsigned ctl_list_head_removal_ok(Node*& head, const char* name) {
    unsigned removed = 0;
    if (head == NULL) return removed;
    while (head && strcmp(head->name, name) == 0) {
        Node* next = head->next;
        free(head);
        head = next;
        removed++;
    }
    return removed;
}
}  // namespace controls
