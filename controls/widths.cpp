// Positive controls for the R-WIDTH rules (sa/widths.py): each *_bad function must be reported, each *_ok twin must not.
#include <cstdint>
#include <cstring>
namespace controls {
struct PropertyValue { uint64_t unsigned_integer; uint64_t count; uint8_t* bytes; PropertyValue* next; };

bool ctl_key_narrowed_bad(const PropertyValue* v, uint16_t attribute) { return (uint16_t)v->unsigned_integer == attribute; }
bool ctl_key_narrowed_ok(const PropertyValue* v, uint16_t attribute) { return v->unsigned_integer == attribute; }

bool ctl_binary_equal_bad(const PropertyValue* a, const PropertyValue* b) {
    return a->count == b->count && strncmp((const char*)a->bytes, (const char*)b->bytes, a->count) == 0;
}
bool ctl_binary_equal_ok(const PropertyValue* a, const PropertyValue* b) {
    return a->count == b->count && memcmp(a->bytes, b->bytes, a->count) == 0;
}
}  // namespace controls
