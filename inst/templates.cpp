// Explicit instantiation of the header-only container templates so that EVERY member function
// (including ones no library unit happens to use, e.g. Map<T>::del) is parsed and analysed.
// Only parsed by gx; never compiled into anything.
#include <gdstk/gdstk.hpp>
namespace gdstk {
template struct Map<void*>;
template struct Set<uint64_t>;
template struct Array<void*>;
template struct Array<uint64_t>;
}  // namespace gdstk
