// F10 (C15): Curve::bezier(relative=true) remembers its last control point in RELATIVE coordinates;
// a following smooth section (which reflects last_ctrl about the current end point) goes wrong.
#include <gdstk/gdstk.hpp>
using namespace gdstk;
static void build(Curve& c, bool relative) {
    c.tolerance = 0.001; c.append(Vec2{10, 10});
    Vec2 rel[3] = {{1, 0}, {2, 1}, {3, 0}}, abs_[3] = {{11, 10}, {12, 11}, {13, 10}};
    Array<Vec2> pts = {}; pts.items = relative ? rel : abs_; pts.count = 3;
    c.bezier(pts, relative);
    Vec2 nxt[2] = {{15, 12}, {16, 10}};
    Array<Vec2> p2 = {}; p2.items = nxt; p2.count = 2;
    c.cubic_smooth(p2, false);
}
int main() {
    Curve a = {}, b = {}; build(a, false); build(b, true);
    double worst = 0;
    if (a.point_array.count != b.point_array.count) { printf("different vertex counts %lu vs %lu\n", (unsigned long)a.point_array.count, (unsigned long)b.point_array.count); return 1; }
    for (uint64_t i = 0; i < a.point_array.count; i++) { double d = (a.point_array[i] - b.point_array[i]).length(); if (d > worst) worst = d; }
    printf("last_ctrl absolute build (%g,%g), relative build (%g,%g); max vertex deviation %g\n", a.last_ctrl.x, a.last_ctrl.y, b.last_ctrl.x, b.last_ctrl.y, worst);
    return worst < 1e-9 ? 0 : 1;
}
