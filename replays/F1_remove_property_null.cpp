// F1 (C20): remove_property(..., all_occurences=true) dereferences NULL when every entry matches.
#include <gdstk/gdstk.hpp>
using namespace gdstk;
int main() {
    Property* props = NULL;
    set_property(props, "A", "x", true);
    set_property(props, "A", "y", true);
    uint64_t n = remove_property(props, "A", true);   // SIGSEGV on the defective tree
    printf("removed %lu, list now %p\n", (unsigned long)n, (void*)props);
    return (n == 2 && props == NULL) ? 0 : 1;
}
