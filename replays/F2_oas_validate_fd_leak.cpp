// F2 (C18): oas_validate leaks one descriptor per call on its post-checksum exits.
#include <gdstk/gdstk.hpp>
#include <dirent.h>
using namespace gdstk;
static int nfds() { int n = 0; DIR* d = opendir("/proc/self/fd"); while (readdir(d)) n++; closedir(d); return n; }
int main() {
    Library lib = {}; lib.init("L", 1e-6, 1e-9);
    Cell c = {}; c.name = copy_string("A", NULL); lib.cell_array.append(&c);
    Polygon p = rectangle(Vec2{0, 0}, Vec2{1, 1}, make_tag(1, 0)); c.polygon_array.append(&p);
    lib.write_oas("f2.oas", 0, 6, OASIS_CONFIG_INCLUDE_CRC32);
    int before = nfds();
    for (int i = 0; i < 10; i++) { uint32_t sig; ErrorCode e = ErrorCode::NoError; oas_validate("f2.oas", &sig, &e); }
    int after = nfds();
    printf("open descriptors before=%d after 10 calls=%d\n", before, after);
    return after == before ? 0 : 1;
}
