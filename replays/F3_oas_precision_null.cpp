// F3 (C18): oas_precision passes oasis_read_string's NULL to memcmp on a file cut after the magic;
// and leaks the handle on a version mismatch.
#include <gdstk/gdstk.hpp>
#include <dirent.h>
using namespace gdstk;
static int nfds() { int n = 0; DIR* d = opendir("/proc/self/fd"); while (readdir(d)) n++; closedir(d); return n; }
int main() {
    int rc = 0;
    FILE* f = fopen("f3b.oas", "wb"); fwrite("%SEMI-OASIS\r\n\x01\x03" "2.0", 1, 18, f); fclose(f);
    int before = nfds(); double p = 0;
    for (int i = 0; i < 5; i++) oas_precision("f3b.oas", p);
    int after = nfds(); printf("version mismatch: descriptors before=%d after=%d\n", before, after);
    if (after != before) rc = 1;
    f = fopen("f3.oas", "wb"); fwrite("%SEMI-OASIS\r\n\x01", 1, 14, f); fclose(f);
    ErrorCode e = oas_precision("f3.oas", p);   // crashes (NULL -> memcmp) on the defective tree
    printf("truncated after magic: returned %d\n", (int)e);
    return rc;
}
