// F4 (C18): read_rawcells' error path never advances its cleanup loop (double free / hang) on a
// truncated file in which a cell references another.
#include <gdstk/gdstk.hpp>
using namespace gdstk;
int main() {
    Library lib = {}; lib.init("L", 1e-6, 1e-9);
    Cell a = {}, b = {}; a.name = copy_string("A", NULL); b.name = copy_string("B", NULL);
    Polygon p = rectangle(Vec2{0, 0}, Vec2{1, 1}, make_tag(1, 0)); a.polygon_array.append(&p);
    Reference r = {}; r.init(&a); r.magnification = 1; b.reference_array.append(&r);
    lib.cell_array.append(&a); lib.cell_array.append(&b);
    lib.write_gds("f4.gds", 0, NULL);
    FILE* f = fopen("f4.gds", "rb"); fseek(f, 0, SEEK_END); long n = ftell(f); fclose(f);
    truncate("f4.gds", n - 4);   // cut ENDLIB
    ErrorCode e = ErrorCode::NoError;
    Map<RawCell*> m = read_rawcells("f4.gds", &e);
    printf("returned, error=%d count=%lu\n", (int)e, (unsigned long)m.count);
    return (e != ErrorCode::NoError && m.count == 0) ? 0 : 1;
}
