// F5 (C02/C08): RobustPath::to_oas writes the full width into the OASIS PATH half-width field.
#include <gdstk/gdstk.hpp>
using namespace gdstk;
int main() {
    Library lib = {}; lib.init("L", 1e-6, 1e-9);
    Cell a = {}; a.name = copy_string("A", NULL); lib.cell_array.append(&a);
    RobustPath rp = {}; rp.num_elements = 1; rp.elements = (RobustPathElement*)allocate_clear(sizeof(RobustPathElement));
    rp.init(Vec2{0, 0}, 2.0, 0.0, 0.01, 1000, make_tag(1, 0)); rp.simple_path = true;
    rp.segment(Vec2{10, 0}, NULL, NULL, false);
    a.robustpath_array.append(&rp);
    lib.write_oas("f5.oas", 0, 0, 0);
    ErrorCode e = ErrorCode::NoError;
    Library l2 = read_oas("f5.oas", 0, 1e-2, &e);
    FlexPath* p = l2.cell_array[0]->flexpath_array[0];
    double w = 2 * p->elements[0].half_width_and_offset[0].u;
    printf("saved width 2, reloaded width %g\n", w);
    return fabs(w - 2) < 1e-9 ? 0 : 1;
}
