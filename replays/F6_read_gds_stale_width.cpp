// F6 (C03): read_gds keeps the WIDTH of the previous PATH when a PATH element has no WIDTH record
// (the format's default width is 0).
#include <gdstk/gdstk.hpp>
using namespace gdstk;
static void rec(FILE* f, uint8_t type, uint8_t dt, const void* data, uint16_t n) {
    uint16_t len = 4 + n; uint8_t h[4] = {(uint8_t)(len >> 8), (uint8_t)len, type, dt}; fwrite(h, 1, 4, f); if (n) fwrite(data, 1, n, f);
}
static void i16(FILE* f, uint8_t type, int16_t v) { uint8_t b[2] = {(uint8_t)(v >> 8), (uint8_t)v}; rec(f, type, 2, b, 2); }
static void i32s(FILE* f, uint8_t type, const int32_t* v, int n) { uint8_t b[64]; for (int i = 0; i < n; i++) { b[4*i] = v[i] >> 24; b[4*i+1] = v[i] >> 16; b[4*i+2] = v[i] >> 8; b[4*i+3] = v[i]; } rec(f, type, 3, b, 4 * n); }
int main() {
    FILE* f = fopen("f6.gds", "wb");
    i16(f, 0x00, 600); uint8_t ts[24] = {0}; rec(f, 0x01, 2, ts, 24); rec(f, 0x02, 6, "LIB\0", 4);
    uint64_t u[2] = {gdsii_real_from_double(1e-3), gdsii_real_from_double(1e-9)}; big_endian_swap64(u, 2); rec(f, 0x03, 5, u, 16);
    rec(f, 0x05, 2, ts, 24); rec(f, 0x06, 6, "TOP\0", 4);
    int32_t xy[4] = {0, 0, 10000, 0};
    rec(f, 0x09, 0, NULL, 0); i16(f, 0x0D, 1); i16(f, 0x0E, 0); int32_t w = 500; i32s(f, 0x0F, &w, 1); i32s(f, 0x10, xy, 4); rec(f, 0x11, 0, NULL, 0);
    rec(f, 0x09, 0, NULL, 0); i16(f, 0x0D, 2); i16(f, 0x0E, 0); i32s(f, 0x10, xy, 4); rec(f, 0x11, 0, NULL, 0);   // no WIDTH: default 0
    rec(f, 0x07, 0, NULL, 0); rec(f, 0x04, 0, NULL, 0); fclose(f);
    ErrorCode e = ErrorCode::NoError;
    Library lib = read_gds("f6.gds", 0, 1e-2, NULL, &e);
    Cell* c = lib.cell_array[0];
    double w1 = 2 * c->flexpath_array[0]->elements[0].half_width_and_offset[0].u, w2 = 2 * c->flexpath_array[1]->elements[0].half_width_and_offset[0].u;
    printf("path 1 width %g, path 2 (no WIDTH record) width %g\n", w1, w2);
    return w2 == 0 ? 0 : 1;
}
