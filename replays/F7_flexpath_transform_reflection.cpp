// F7 (C10): FlexPath::transform(.., x_reflection=true, ..) does not flip the side of the offsets
// (and a negative magnification flips them although a point reflection preserves handedness).
#include <gdstk/gdstk.hpp>
using namespace gdstk;
static void outline_box(FlexPath& fp, Vec2& mn, Vec2& mx) {
    Array<Polygon*> out = {}; fp.to_polygons(false, 0, out);
    out[0]->bounding_box(mn, mx);
}
int main() {
    int rc = 0;
    for (int variant = 0; variant < 2; variant++) {
        FlexPath fp = {}; fp.num_elements = 1; fp.elements = (FlexPathElement*)allocate_clear(sizeof(FlexPathElement));
        fp.init(Vec2{0, 0}, 1.0, 2.0, 0.01, make_tag(1, 0));   // width 1, offset +2
        fp.segment(Vec2{10, 0}, NULL, NULL, false);
        Vec2 a0, a1; outline_box(fp, a0, a1);
        // reference: transform the OUTLINE
        Array<Polygon*> out = {}; fp.to_polygons(false, 0, out);
        if (variant == 0) out[0]->transform(1, true, 0, Vec2{0, 0}); else out[0]->transform(-1, false, 0, Vec2{0, 0});
        Vec2 e0, e1; out[0]->bounding_box(e0, e1);
        if (variant == 0) fp.transform(1, true, 0, Vec2{0, 0}); else fp.transform(-1, false, 0, Vec2{0, 0});
        Vec2 g0, g1; outline_box(fp, g0, g1);
        printf("%s: outline-then-transform y in [%g,%g]; transform-then-outline y in [%g,%g]\n", variant == 0 ? "x_reflection" : "magnification -1", e0.y, e1.y, g0.y, g1.y);
        if (fabs(e0.y - g0.y) > 1e-9 || fabs(e1.y - g1.y) > 1e-9) rc = 1;
    }
    return rc;
}
