// F8 (C18/C03): read_gds copies record_length (= 4 + sizeof(PXXData)) bytes into a PXXData local.
#include <gdstk/gdstk.hpp>
using namespace gdstk;
int main() {
    Library lib = {}; lib.init("L", 1e-6, 1e-9);
    Cell a = {}; a.name = copy_string("A", NULL); lib.cell_array.append(&a);
    FlexPath fp = {}; fp.init(Vec2{0, 0}, 1, 0.5, 0, 0.01, make_tag(1, 0)); fp.simple_path = true;
    fp.segment(Vec2{10, 0}, NULL, NULL, false);
    fp.raith_data.base_cell_name = copy_string("BASE", NULL);
    a.flexpath_array.append(&fp);
    lib.write_gds("f8.gds", 0, NULL);
    ErrorCode e = ErrorCode::NoError;
    Library l2 = read_gds("f8.gds", 0, 1e-2, NULL, &e);   // ASan: stack-buffer-overflow on the defective tree
    printf("loaded, error=%d cells=%lu\n", (int)e, (unsigned long)l2.cell_array.count);
    return 0;
}
