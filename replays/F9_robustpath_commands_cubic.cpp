// F9 (C08): RobustPath::commands 'C' reads slot 4 twice and never slot 5.
#include <gdstk/gdstk.hpp>
using namespace gdstk;
int main() {
    RobustPath rp = {}; rp.num_elements = 1; rp.elements = (RobustPathElement*)allocate_clear(sizeof(RobustPathElement));
    rp.init(Vec2{0, 0}, 1.0, 0.0, 0.01, 1000, make_tag(1, 0));
    CurveInstruction ins[7]; ins[0].command = 'C';
    double v[6] = {1, 2, 3, 4, 5, 6}; for (int i = 0; i < 6; i++) ins[i + 1].number = v[i];
    rp.commands(ins, 7);
    printf("C 1 2 3 4 5 6 ends at (%g, %g)\n", rp.end_point.x, rp.end_point.y);
    return (rp.end_point.x == 5 && rp.end_point.y == 6) ? 0 : 1;
}
