// K10 (C02): is_circle compares |d^2 - r^2| (an area) with the tolerance (a length). For radii
// below 0.5 the accepted radial deviation is tolerance/(2 r) > tolerance: an ellipse with
// semi-axes 0.08 x 0.02 is written as a CIRCLE of radius ~0.05 under circle_tolerance = 0.01 and
// re-loads as a disc whose boundary is 0.03 away from the original (3 x the tolerance).
#include <gdstk/gdstk.hpp>
using namespace gdstk;
int main() {
    const double tol = 0.01;
    Library lib = {}; lib.init("L", 1e-6, 1e-9);
    Cell c = {}; c.name = copy_string("C", NULL);
    Polygon p = ellipse(Vec2{0, 0}, 0.08, 0.02, 0, 0, 0, 0, 1e-5, make_tag(1, 0));
    c.polygon_array.append(&p); lib.cell_array.append(&c);
    lib.write_oas("k10.oas", tol, 0, 0);
    ErrorCode e = ErrorCode::NoError;
    Library l2 = read_oas("k10.oas", 0, 1e-3, &e);
    Polygon* q = l2.cell_array[0]->polygon_array[0];
    // largest distance from a re-loaded vertex to the original ellipse boundary (radial measure)
    double worst = 0;
    for (uint64_t i = 0; i < q->point_array.count; i++) {
        Vec2 v = q->point_array[i];
        double t = atan2(v.y / 0.02, v.x / 0.08);
        Vec2 on = {0.08 * cos(t), 0.02 * sin(t)};
        double d = (v - on).length();
        if (d > worst) worst = d;
    }
    printf("original: ellipse 0.08 x 0.02 (%lu points, area %g); re-loaded: %lu points, area %g; largest deviation %g (tolerance %g)\n",
           p.point_array.count, p.area(), q->point_array.count, q->area(), worst, tol);
    return worst <= 2 * tol ? 0 : 1;
}
