// K11 (C18): in builds without NDEBUG (the default CMake configuration, the one the pinned suite
// uses) DEBUG_PRINT writes to error_logger without the NULL test every other log site has. With
// logging disabled (set_error_logger(NULL)) a truncated GDSII file crashes the reader instead of
// being reported. Build this replay with REPLAY_DEFS="" (no -DNDEBUG).
#include <gdstk/gdstk.hpp>
using namespace gdstk;
int main() {
    Library lib = {}; lib.init("L", 1e-6, 1e-9);
    Cell c = {}; c.name = copy_string("C", NULL);
    Polygon p = rectangle(Vec2{0, 0}, Vec2{1, 2}, make_tag(1, 0));
    c.polygon_array.append(&p); lib.cell_array.append(&c);
    lib.write_gds("k11.gds", 0, NULL);
    FILE* f = fopen("k11.gds", "rb"); uint8_t buf[4096]; size_t n = fread(buf, 1, sizeof buf, f); fclose(f);
    f = fopen("k11_cut.gds", "wb"); fwrite(buf, 1, n - 7, f); fclose(f);   // cut inside the last records
    set_error_logger(NULL);
    ErrorCode e = ErrorCode::NoError;
    Library l2 = read_gds("k11_cut.gds", 0, 1e-2, NULL, &e);
    printf("truncated file reported error %d\n", (int)e);
    return e == ErrorCode::NoError ? 1 : 0;
}
