// K13 (C10): FlexPath::scale / FlexPath::transform scale the spine, widths and offsets but
//  (a) leave every element's bend_radius unchanged, so a path with circular bends is not the scaled
//      image of itself: outline(scale(path)) != scale(outline(path));
//  (b) multiply end_extensions by the SIGNED factor, so under a negative factor (a point reflection)
//      extended end caps turn into negative extensions.
#include <gdstk/gdstk.hpp>
#include <initializer_list>
using namespace gdstk;
static double total_area(Array<Polygon*>& a) { double s = 0; for (uint64_t i = 0; i < a.count; i++) s += a[i]->area(); return s; }
static FlexPath make(bool bend, bool ext) {
    FlexPath fp = {};
    double w = 1, off = 0;
    fp.init(Vec2{0, 0}, 1, 1.0, 0.0, 0.01, make_tag(0, 0));
    fp.scale_width = true;
    fp.elements[0].end_type = ext ? EndType::Extended : EndType::Flush;
    fp.elements[0].end_extensions = Vec2{2, 3};
    if (bend) { fp.elements[0].bend_type = BendType::Circular; fp.elements[0].bend_radius = 3; }
    Vec2 pts[] = {{20, 0}, {20, 20}};
    Array<Vec2> arr = {0, 2, pts};
    fp.segment(arr, NULL, NULL, false);
    return fp;
}
int main() {
    int bad = 0;
    struct { const char* name; bool bend, ext; double factor; } cases[] = {
        {"circular bend, scale 2", true, false, 2}, {"extended ends, scale -1", false, true, -1}, {"plain, scale 2 (control)", false, false, 2}};
    for (auto& c : cases) {
        FlexPath a = make(c.bend, c.ext), b = make(c.bend, c.ext);
        Array<Polygon*> pa = {}, pb = {};
        a.to_polygons(false, 0, pa);
        double expect = total_area(pa) * c.factor * c.factor;
        b.scale(c.factor, Vec2{0, 0});
        b.to_polygons(false, 0, pb);
        double got = total_area(pb);
        bool ok = fabs(got - expect) < 1e-3 * expect;
        printf("%-28s area of outline(scale(path)) = %.4f, scale(outline(path)) = %.4f  %s\n", c.name, got, expect, ok ? "ok" : "DIFFERENT");
        if (!ok) bad = 1;
    }
    // RobustPath: extended ends under a negative factor
    {
        RobustPath a = {}, b = {};
        for (RobustPath* r : {&a, &b}) {
            r->init(Vec2{0, 0}, 1, 1.0, 0.0, 0.01, 1000, make_tag(0, 0));
            r->scale_width = true;
            r->elements[0].end_type = EndType::Extended;
            r->elements[0].end_extensions = Vec2{2, 3};
            r->segment(Vec2{20, 0}, NULL, NULL, false);
        }
        Array<Polygon*> pa = {}, pb = {};
        a.to_polygons(false, 0, pa);
        b.scale(-1, Vec2{0, 0});
        b.to_polygons(false, 0, pb);
        double expect = total_area(pa), got = total_area(pb);
        bool ok = fabs(got - expect) < 1e-3 * expect;
        printf("%-28s area of outline(scale(path)) = %.4f, scale(outline(path)) = %.4f  %s\n", "robust, extended, scale -1", got, expect, ok ? "ok" : "DIFFERENT");
        if (!ok) bad = 1;
    }
    return bad;
}
