// K14 (C04): Library::write_oas computes S_PATH_MAX_VERTICES from a scratch array that is emptied once
// per path, while element_center APPENDS one centre line per element: for a simple path with two
// elements the standard property states twice the true maximum number of PATH vertices.
#include <gdstk/gdstk.hpp>
using namespace gdstk;
int main() {
    Library lib = {}; lib.init("L", 1e-6, 1e-9);
    Cell c = {}; c.name = copy_string("C", NULL);
    FlexPath fp = {};
    fp.init(Vec2{0, 0}, 2, 1.0, 3.0, 0.01, make_tag(1, 0));     // two parallel elements
    fp.simple_path = true;
    Vec2 pts[] = {{10, 0}, {10, 10}};
    Array<Vec2> arr = {0, 2, pts};
    fp.segment(arr, NULL, NULL, false);                          // 3 spine points -> every PATH record has 3 vertices
    c.flexpath_array.append(&fp); lib.cell_array.append(&c);
    lib.write_oas("k14.oas", 0, 0, OASIS_CONFIG_PROPERTY_MAX_COUNTS);
    ErrorCode e = ErrorCode::NoError;
    Library l2 = read_oas("k14.oas", 0, 1e-2, &e);
    uint64_t stated = 0;
    for (Property* p = l2.properties; p; p = p->next)
        if (strcmp(p->name, "S_PATH_MAX_VERTICES") == 0 && p->value) stated = p->value->unsigned_integer;
    uint64_t truth = 0;
    for (uint64_t i = 0; i < l2.cell_array[0]->flexpath_array.count; i++) {
        uint64_t n = l2.cell_array[0]->flexpath_array[i]->spine.point_array.count;
        if (n > truth) truth = n;
    }
    printf("S_PATH_MAX_VERTICES states %lu, the PATH records of the file have at most %lu vertices\n", stated, truth);
    return stated == truth ? 0 : 1;
}
