// K15 (C09): gdstk::convex_hull falls back, when qhull reports singular (collinear) input, to the two
// points (min.x, min.y) and (max.x, max.y). For points on a DESCENDING line these are the ends of the other
// diagonal - not geometry points, and the hull does not contain the geometry; for a vertical line nothing is returned.
#include <gdstk/gdstk.hpp>
using namespace gdstk;
static int check(const char* name, Array<Vec2>& pts) {
    Array<Vec2> hull = {};
    convex_hull(pts, hull);
    int bad = 0;
    printf("%s: hull =", name);
    for (uint64_t i = 0; i < hull.count; i++) {
        bool is_geom = false;
        for (uint64_t j = 0; j < pts.count; j++) if (hull[i].x == pts[j].x && hull[i].y == pts[j].y) is_geom = true;
        printf(" (%g, %g)%s", hull[i].x, hull[i].y, is_geom ? "" : "[not a geometry point]");
        if (!is_geom) bad = 1;
    }
    if (hull.count == 0) { printf(" <empty>"); bad = 1; }
    printf("\n");
    return bad;
}
int main() {
    int bad = 0;
    { Vec2 p[] = {{0, 10}, {2, 8}, {5, 5}, {7, 3}, {10, 0}}; Array<Vec2> a = {0, 5, p}; bad |= check("descending line", a); }
    { Vec2 p[] = {{3, 0}, {3, 2}, {3, 4}, {3, 7}, {3, 9}}; Array<Vec2> a = {0, 5, p}; bad |= check("vertical line", a); }
    { Vec2 p[] = {{0, 0}, {2, 2}, {5, 5}, {7, 7}, {10, 10}}; Array<Vec2> a = {0, 5, p}; bad |= check("ascending line (control)", a); }
    // through the public cell API: three labels on a descending line
    Cell c = {}; c.name = copy_string("C", NULL);
    Label l[5] = {};
    double xs[] = {0, 2, 5, 7, 10}, ys[] = {10, 8, 5, 3, 0};
    for (int i = 0; i < 5; i++) { l[i].text = copy_string("t", NULL); l[i].origin = Vec2{xs[i], ys[i]}; l[i].magnification = 1; c.label_array.append(&l[i]); }
    Array<Vec2> hull = {};
    c.convex_hull(hull);
    printf("cell with 5 labels on a descending line: hull =");
    for (uint64_t i = 0; i < hull.count; i++) printf(" (%g, %g)", hull[i].x, hull[i].y);
    printf("\n");
    for (uint64_t i = 0; i < hull.count; i++) { bool g = false; for (int j = 0; j < 5; j++) if (hull[i].x == xs[j] && hull[i].y == ys[j]) g = true; if (!g) bad = 1; }
    return bad;
}
