// K16 (C11): a Rectangular/Regular repetition with 0 columns or rows enumerates no offsets (get_count() == 0, get_offsets
// appends nothing). apply_repetition then evaluates `offsets.count - 1` in unsigned arithmetic: ensure_slots(2^64 - 1) and a loop
// of 2^64 - 1 iterations -> allocation failure / crash. Expected: no copies, repetition cleared, normal return.
#include <cstdio>
#include <gdstk/gdstk.hpp>
using namespace gdstk;
template <class T> static int probe(T& el, const char* what) {
    el.repetition.type = RepetitionType::Rectangular;
    el.repetition.columns = 0;
    el.repetition.rows = 3;
    el.repetition.spacing = Vec2{2, 2};
    Array<T*> result = {};
    el.apply_repetition(result);
    printf("%s: copies=%llu repetition.type=%d\n", what, (unsigned long long)result.count, (int)el.repetition.type);
    return (result.count == 0 && el.repetition.type == RepetitionType::None) ? 0 : 1;
}
int main() {
    int bad = 0;
    Polygon p = rectangle(Vec2{0, 0}, Vec2{1, 1}, make_tag(0, 0));
    bad += probe(p, "polygon");
    Label l = {};
    l.text = copy_string("x", NULL);
    bad += probe(l, "label");
    Reference r = {};
    r.type = ReferenceType::Name;
    r.name = copy_string("c", NULL);
    r.magnification = 1;
    bad += probe(r, "reference");
    FlexPath fp = {};
    fp.init(Vec2{0, 0}, 1, 0.1, 0, 0.01, make_tag(0, 0));
    fp.segment(Vec2{1, 0}, NULL, NULL, false);
    bad += probe(fp, "flexpath");
    RobustPath rp = {};
    rp.init(Vec2{0, 0}, 1, 0.1, 0, 0.01, 1000, make_tag(0, 0));
    rp.segment(Vec2{1, 0}, NULL, NULL, false);
    bad += probe(rp, "robustpath");
    printf(bad ? "FAIL\n" : "OK\n");
    return bad ? 1 : 0;
}
