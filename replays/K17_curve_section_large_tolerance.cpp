// K17 (C15): Curve::append_cubic / append_quad / append_bezier compute the sampling step from `2 * acos(1 - curvature * tolerance)`.
// When the tolerance exceeds twice the local radius of curvature (a tolerance "larger than the feature", inside C15's quantifier)
// the argument is below -1, acos returns NaN, the step is NaN, a NaN vertex is appended and the section does not end at the
// requested end point.
#include <cmath>
#include <cstdio>
#include <initializer_list>
#include <gdstk/gdstk.hpp>
using namespace gdstk;
static int finite_and_ends(const Curve& c, Vec2 end, const char* what, double tol) {
    int nan = 0;
    for (uint64_t i = 0; i < c.point_array.count; i++)
        if (!std::isfinite(c.point_array[i].x) || !std::isfinite(c.point_array[i].y)) nan++;
    Vec2 e = c.point_array[c.point_array.count - 1];
    printf("%s tol=%g: %llu points, end (%g, %g), non-finite %d\n", what, tol, (unsigned long long)c.point_array.count, e.x, e.y, nan);
    return (nan || e.x != end.x || e.y != end.y) ? 1 : 0;
}
int main() {
    int bad = 0;
    for (double tol : {0.01, 1.0, 10.0}) {
        {
            Curve c = {}; c.tolerance = tol; c.append(Vec2{0, 0});
            Vec2 pts[] = {{1, 0}, {1, 1}, {0, 1}};
            Array<Vec2> a = {}; a.items = pts; a.count = 3; a.capacity = 3;
            c.cubic(a, false);
            bad += finite_and_ends(c, Vec2{0, 1}, "cubic    ", tol);
            c.clear();
        }
        {
            Curve c = {}; c.tolerance = tol; c.append(Vec2{0, 0});
            Vec2 pts[] = {{1, 0}, {1, 1}};
            Array<Vec2> a = {}; a.items = pts; a.count = 2; a.capacity = 2;
            c.quadratic(a, false);
            bad += finite_and_ends(c, Vec2{1, 1}, "quadratic", tol);
            c.clear();
        }
        {
            Curve c = {}; c.tolerance = tol; c.append(Vec2{0, 0});
            Vec2 pts[] = {{1, 0}, {2, 1}, {1, 2}, {0, 1}};
            Array<Vec2> a = {}; a.items = pts; a.count = 4; a.capacity = 4;
            c.bezier(a, false);
            bad += finite_and_ends(c, Vec2{0, 1}, "bezier   ", tol);
            c.clear();
        }
    }
    printf(bad ? "FAIL\n" : "OK\n");
    return bad ? 1 : 0;
}
