// K1 (C06): Reference::get_polygons(apply_repetitions=false) leaves the element's attached
// repetition untransformed: expanding it afterwards gives different shapes than apply_repetitions=true.
#include <gdstk/gdstk.hpp>
using namespace gdstk;
static void bbox(Array<Polygon*>& a, Vec2& mn, Vec2& mx) {
    mn = Vec2{1e300, 1e300}; mx = Vec2{-1e300, -1e300};
    for (uint64_t i = 0; i < a.count; i++) { Vec2 a0, a1; a[i]->bounding_box(a0, a1);
        if (a0.x < mn.x) mn.x = a0.x; if (a0.y < mn.y) mn.y = a0.y; if (a1.x > mx.x) mx.x = a1.x; if (a1.y > mx.y) mx.y = a1.y; }
}
int main() {
    Cell a = {}; a.name = copy_string("A", NULL);
    Polygon p = rectangle(Vec2{0, 0}, Vec2{1, 1}, make_tag(1, 0));
    p.repetition.type = RepetitionType::Rectangular; p.repetition.columns = 3; p.repetition.rows = 1; p.repetition.spacing = Vec2{10, 5};
    a.polygon_array.append(&p);
    Cell b = {}; b.name = copy_string("B", NULL);
    Reference r = {}; r.init(&a); r.magnification = 1; r.rotation = M_PI / 2; b.reference_array.append(&r);
    Array<Polygon*> applied = {}, attached = {};
    b.get_polygons(true, false, -1, false, 0, applied);
    b.get_polygons(false, false, -1, false, 0, attached);
    uint64_t n = attached.count;
    for (uint64_t i = 0; i < n; i++) attached[i]->apply_repetition(attached);
    Vec2 m0, m1, n0, n1; bbox(applied, m0, m1); bbox(attached, n0, n1);
    printf("applied:  %lu polygons, box (%g,%g)-(%g,%g)\n", (unsigned long)applied.count, m0.x, m0.y, m1.x, m1.y);
    printf("attached: %lu polygons, box (%g,%g)-(%g,%g)\n", (unsigned long)attached.count, n0.x, n0.y, n1.x, n1.y);
    bool same = fabs(m0.x - n0.x) < 1e-9 && fabs(m0.y - n0.y) < 1e-9 && fabs(m1.x - n1.x) < 1e-9 && fabs(m1.y - n1.y) < 1e-9;
    return same ? 0 : 1;
}
