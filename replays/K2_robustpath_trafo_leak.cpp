// K2 (C08): smooth continuations / turn / parametric read the *transformed* tangent or end point
// (through `trafo`) while sections are stored in the untransformed frame: after rotating the path,
// a turn no longer continues tangentially.
#include <gdstk/gdstk.hpp>
using namespace gdstk;
int main() {
    RobustPath rp = {}; rp.num_elements = 1; rp.elements = (RobustPathElement*)allocate_clear(sizeof(RobustPathElement));
    rp.init(Vec2{0, 0}, 1.0, 0.0, 0.01, 1000, make_tag(1, 0));
    rp.segment(Vec2{10, 0}, NULL, NULL, false);
    rp.rotate(M_PI / 2, Vec2{0, 0});
    rp.turn(5, M_PI / 2, NULL, NULL);
    Vec2 g0 = rp.gradient(1, true);    // end of the segment
    Vec2 g1 = rp.gradient(1, false);   // start of the turn
    double cross = g0.x * g1.y - g0.y * g1.x, dot = g0.x * g1.x + g0.y * g1.y;
    printf("tangent before joint (%g,%g), after joint (%g,%g)\n", g0.x, g0.y, g1.x, g1.y);
    return (fabs(cross) < 1e-9 * (fabs(dot) + 1) && dot > 0) ? 0 : 1;
}
