// K3 (C02): oasis_write_repetition writes the first (smallest) coordinate of an ExplicitX/ExplicitY
// repetition through the *unsigned* integer codec; a negative coordinate is cast to uint64 and
// re-loads as ~1.8e19 grid steps.
#include <gdstk/gdstk.hpp>
#include <algorithm>
using namespace gdstk;
int main() {
    int bad = 0;
    for (int axis = 0; axis < 2; axis++) {
        Library lib = {}; lib.init("L", 1e-6, 1e-9);
        Cell c = {}; c.name = copy_string("C", NULL);
        Polygon p = rectangle(Vec2{0, 0}, Vec2{1, 2}, make_tag(1, 0));
        p.repetition.type = axis ? RepetitionType::ExplicitY : RepetitionType::ExplicitX;
        p.repetition.coords.append(-5); p.repetition.coords.append(7); p.repetition.coords.append(-1.5);
        c.polygon_array.append(&p); lib.cell_array.append(&c);
        lib.write_oas("k3.oas", 0, 0, 0);
        ErrorCode e = ErrorCode::NoError;
        Library l2 = read_oas("k3.oas", 0, 1e-2, &e);
        Array<Vec2> off = {}; l2.cell_array[0]->polygon_array[0]->repetition.get_offsets(off);
        Array<Vec2> ref = {}; p.repetition.get_offsets(ref);
        auto key = [](const Vec2& a, const Vec2& b) { return a.x < b.x || (a.x == b.x && a.y < b.y); };
        std::sort(off.items, off.items + off.count, key); std::sort(ref.items, ref.items + ref.count, key);
        printf("%s: wrote %lu offsets, re-loaded %lu:", axis ? "ExplicitY" : "ExplicitX", ref.count, off.count);
        bool ok = off.count == ref.count;
        for (uint64_t i = 0; i < off.count; i++) {
            printf(" (%g, %g)", off[i].x, off[i].y);
            if (ok && (fabs(off[i].x - ref[i].x) > 1e-6 || fabs(off[i].y - ref[i].y) > 1e-6)) ok = false;
        }
        printf(" -> %s\n", ok ? "same" : "DIFFERENT");
        if (!ok) bad = 1;
    }
    return bad;
}
