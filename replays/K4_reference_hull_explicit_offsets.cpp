// K4 (C09): Reference::convex_hull builds the hull from per-axis extreme offsets of an Explicit
// repetition: copies strictly inside the offsets' box but outside the 4-extreme hull are missed,
// and a rotated parent then reports a bounding box that is too small.
#include <gdstk/gdstk.hpp>
using namespace gdstk;
int main() {
    Cell leaf = {}; leaf.name = copy_string("LEAF", NULL);
    Polygon p = rectangle(Vec2{0, 0}, Vec2{1, 1}, make_tag(1, 0)); leaf.polygon_array.append(&p);
    Cell mid = {}; mid.name = copy_string("MID", NULL);
    Reference r = {}; r.init(&leaf); r.magnification = 1;
    r.repetition.type = RepetitionType::Explicit;
    r.repetition.offsets.append(Vec2{10, 0}); r.repetition.offsets.append(Vec2{0, 10}); r.repetition.offsets.append(Vec2{9, 9});
    mid.reference_array.append(&r);
    Cell top = {}; top.name = copy_string("TOP", NULL);
    Reference r2 = {}; r2.init(&mid); r2.magnification = 1; r2.rotation = M_PI / 4; top.reference_array.append(&r2);
    Vec2 mn, mx; top.bounding_box(mn, mx);
    Array<Polygon*> flat = {}; top.get_polygons(true, true, -1, false, 0, flat);
    Vec2 fmn = {1e300, 1e300}, fmx = {-1e300, -1e300};
    for (uint64_t i = 0; i < flat.count; i++) { Vec2 a, b; flat[i]->bounding_box(a, b);
        if (a.x < fmn.x) fmn.x = a.x; if (a.y < fmn.y) fmn.y = a.y; if (b.x > fmx.x) fmx.x = b.x; if (b.y > fmx.y) fmx.y = b.y; }
    printf("reported box (%g,%g)-(%g,%g); flattened geometry box (%g,%g)-(%g,%g)\n", mn.x, mn.y, mx.x, mx.y, fmn.x, fmn.y, fmx.x, fmx.y);
    return (fabs(mx.y - fmx.y) < 1e-9 && fabs(mn.x - fmn.x) < 1e-9 && fabs(mx.x - fmx.x) < 1e-9 && fabs(mn.y - fmn.y) < 1e-9) ? 0 : 1;
}
