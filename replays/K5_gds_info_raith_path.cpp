// K5 (C17): gds_info does not count a path written as RAITHMBMSPATH (read_gds loads it as a path).
#include <gdstk/gdstk.hpp>
using namespace gdstk;
int main() {
    Library lib = {}; lib.init("L", 1e-6, 1e-9);
    Cell a = {}; a.name = copy_string("A", NULL); lib.cell_array.append(&a);
    FlexPath fp = {}; fp.num_elements = 1; fp.elements = (FlexPathElement*)allocate_clear(sizeof(FlexPathElement));
    fp.init(Vec2{0, 0}, 1.0, 0.0, 0.01, make_tag(3, 4)); fp.simple_path = true;
    fp.segment(Vec2{10, 0}, NULL, NULL, false);
    fp.raith_data.base_cell_name = copy_string("BASE", NULL);
    a.flexpath_array.append(&fp);
    lib.write_gds("k5.gds", 0, NULL);
    ErrorCode e = ErrorCode::NoError;
    Library l2 = read_gds("k5.gds", 0, 1e-2, NULL, &e);
    LibraryInfo info = {};
    gds_info("k5.gds", info);
    uint64_t full = l2.cell_array[0]->flexpath_array.count;
    printf("full load: %lu paths; summary: %lu paths, %lu shape tags\n", (unsigned long)full, (unsigned long)info.num_paths, (unsigned long)info.shape_tags.count);
    return (full == info.num_paths && info.shape_tags.count == 1) ? 0 : 1;
}
