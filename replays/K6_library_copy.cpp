// K6 (C16/C06): Library::copy_from drops `properties`; the deep copy's references keep pointing at
// the SOURCE library's cells.
#include <gdstk/gdstk.hpp>
using namespace gdstk;
int main() {
    Library lib = {}; lib.init("L", 1e-6, 1e-9);
    set_property(lib.properties, "P", "v", false);
    Cell a = {}, b = {}; a.name = copy_string("A", NULL); b.name = copy_string("B", NULL);
    Reference r = {}; r.init(&a); r.magnification = 1; b.reference_array.append(&r);
    lib.cell_array.append(&a); lib.cell_array.append(&b);
    Library cp = {}; cp.copy_from(lib, true);
    int rc = 0;
    printf("copy has properties: %s\n", cp.properties ? "yes" : "NO");
    if (!cp.properties) rc |= 1;
    Cell* cb = cp.cell_array[1]; Cell* ca = cp.cell_array[0];
    bool into_copy = cb->reference_array[0]->cell == ca;
    printf("copied B references %s A\n", into_copy ? "the copied" : "the SOURCE library's");
    if (!into_copy) rc |= 2;
    return rc;
}
