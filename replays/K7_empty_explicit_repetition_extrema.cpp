// K7 (C11/C09): an explicit repetition with an empty list denotes {0} (get_count 1, get_offsets [0])
// but get_extrema returns nothing; Reference::bounding_box then multiplies its point count by 0
// after reserving (0 - 1) * n slots.
#include <gdstk/gdstk.hpp>
using namespace gdstk;
int main() {
    Repetition rep = {}; rep.type = RepetitionType::ExplicitX;
    Array<Vec2> off = {}, ext = {};
    rep.get_offsets(off); rep.get_extrema(ext);
    printf("count=%lu offsets=%lu extrema=%lu\n", (unsigned long)rep.get_count(), (unsigned long)off.count, (unsigned long)ext.count);
    if (ext.count == 0) return 1;
    Cell leaf = {}; leaf.name = copy_string("LEAF", NULL);
    Polygon p = rectangle(Vec2{0, 0}, Vec2{1, 1}, make_tag(1, 0)); leaf.polygon_array.append(&p);
    Reference r = {}; r.init(&leaf); r.magnification = 1; r.repetition.type = RepetitionType::Explicit;
    Vec2 mn, mx; r.bounding_box(mn, mx);
    printf("reference box (%g,%g)-(%g,%g)\n", mn.x, mn.y, mx.x, mx.y);
    return (mn.x == 0 && mx.x == 1) ? 0 : 1;
}
