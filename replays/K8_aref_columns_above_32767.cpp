// K8 (C01): Reference::to_gds accepts up to 65535 columns/rows for an AREF, but read_gds decodes
// COLROW through a signed 16-bit accessor: 40000 columns re-load as 2^64 - 25536.
#include <gdstk/gdstk.hpp>
using namespace gdstk;
int main() {
    Library lib = {}; lib.init("L", 1e-6, 1e-9);
    Cell a = {}, b = {}; a.name = copy_string("A", NULL); b.name = copy_string("B", NULL);
    Polygon p = rectangle(Vec2{0, 0}, Vec2{1, 1}, make_tag(1, 0)); a.polygon_array.append(&p);
    Reference r = {}; r.init(&a); r.magnification = 1;
    r.repetition.type = RepetitionType::Rectangular; r.repetition.columns = 40000; r.repetition.rows = 2; r.repetition.spacing = Vec2{2, 2};
    b.reference_array.append(&r); lib.cell_array.append(&a); lib.cell_array.append(&b);
    ErrorCode w = lib.write_gds("k8.gds", 0, NULL);
    ErrorCode e = ErrorCode::NoError;
    Library l2 = read_gds("k8.gds", 0, 1e-2, NULL, &e);
    Reference* r2 = l2.cell_array[1]->reference_array[0];
    printf("write error=%d; columns written 40000, re-loaded %llu (rows %llu)\n", (int)w, (unsigned long long)r2->repetition.columns, (unsigned long long)r2->repetition.rows);
    return r2->repetition.columns == 40000 ? 0 : 1;
}
