// K9 (C02): write_oas writes `ref->name` for a reference whose target is not in the library even
// when the reference holds a Cell* (the bytes of the Cell struct are written as the name).
#include <gdstk/gdstk.hpp>
using namespace gdstk;
int main() {
    Library lib = {}; lib.init("L", 1e-6, 1e-9);
    Cell ext = {}, b = {}; ext.name = copy_string("EXTERNAL", NULL); b.name = copy_string("B", NULL);
    Reference r = {}; r.init(&ext); r.magnification = 1; b.reference_array.append(&r);
    lib.cell_array.append(&b);   // `ext` is deliberately not part of the library
    lib.write_oas("k9.oas", 0, 0, 0);
    ErrorCode e = ErrorCode::NoError;
    Library l2 = read_oas("k9.oas", 0, 1e-2, &e);
    Reference* r2 = l2.cell_array[0]->reference_array[0];
    const char* nm = r2->type == ReferenceType::Name ? r2->name : (r2->type == ReferenceType::Cell ? r2->cell->name : "?");
    printf("re-loaded reference designates '%s'\n", nm);
    return strcmp(nm, "EXTERNAL") == 0 ? 0 : 1;
}
