#!/bin/sh
# Builds a replay program against the CURRENT /repo sources with ASan (library objects compiled here,
# in a scratch dir outside /repo and /verif, removed afterwards).  Usage: common.sh <replay.cpp> [args]
# Replays are demonstrations of findings; they are NOT part of any registered check.
set -e
SRC=$(readlink -f "$1"); shift
REPO=${GDSTK_REPO:-/repo}
D=$(mktemp -d /tmp/gdstk-replay.XXXXXX)
trap 'rm -rf "$D"' EXIT
ls $REPO/src/*.cpp $REPO/external/clipper/clipper.cpp | xargs -P16 -I{} sh -c 'clang++ -std=c++17 -g -O1 -fsanitize=address -fno-omit-frame-pointer ${REPLAY_DEFS--DNDEBUG} -I'$REPO'/include -I'$REPO'/external -w -c {} -o '$D'/$(basename {}).o'
clang++ -std=c++17 -g -O1 -fsanitize=address ${REPLAY_DEFS--DNDEBUG} -I$REPO/include -I$REPO/external -w "$SRC" $D/*.o -lz -lqhull_r -o $D/replay
cd $D
ASAN_OPTIONS=detect_leaks=0 timeout 60 ./replay "$@"
