"""CFG utilities over the clang CFG exported by gx: dominators, post-dominators, reachability,
forward dataflow with edge refinement, path witnesses."""
from .facts import Block, AnalysisBroken


class CFG:
    def __init__(self, fn):
        j = fn.j.get('cfg')
        if not j:
            raise AnalysisBroken('no CFG for %s' % fn.qn)
        self.fn = fn
        self.blocks = {b['id']: Block(b) for b in j['blocks']}
        self.entry = j['entry']
        self.exit = j['exit']
        for b in self.blocks.values():
            for s, u in zip(b.s, b.u):
                if s is not None and not u:
                    self.blocks[s].preds.append(b.id)
        self._dom = None
        self._pdom = None
        self._where = None

    # ---- element lookup -------------------------------------------------------------------
    def where(self, node_id):
        """(block id, index) of the CFG element for an AST node id; None if not an element."""
        if self._where is None:
            self._where = {}
            for b in self.blocks.values():
                for i, e in enumerate(b.e):
                    self._where.setdefault(e, (b.id, i))
        return self._where.get(node_id)

    def where_node(self, node):
        """Location of a node or of its nearest ancestor that is a CFG element."""
        n = node
        while n is not None:
            w = self.where(n.j.get('cfgat', n.id) if hasattr(n, 'j') else n.id)
            if w is not None:
                return w
            n = n.parent
        return None

    def succs(self, bid, include_unreachable=False):
        b = self.blocks[bid]
        return [s for s, u in zip(b.s, b.u) if s is not None and (include_unreachable or not u)]

    def reachable_blocks(self):
        seen = {self.entry}
        st = [self.entry]
        while st:
            x = st.pop()
            for s in self.succs(x):
                if s not in seen:
                    seen.add(s)
                    st.append(s)
        return seen

    # ---- dominators (iterative, sets; functions are small) -------------------------------------
    def _domcalc(self, root, nexts, prevs):
        nodes = []
        seen = {root}
        st = [root]
        while st:
            x = st.pop()
            nodes.append(x)
            for s in nexts(x):
                if s not in seen:
                    seen.add(s)
                    st.append(s)
        allset = set(nodes)
        dom = {n: set(allset) for n in nodes}
        dom[root] = {root}
        changed = True
        while changed:
            changed = False
            for n in nodes:
                if n == root:
                    continue
                ps = [p for p in prevs(n) if p in allset]
                if ps:
                    new = set.intersection(*(dom[p] for p in ps)) | {n}
                else:
                    new = {n}
                if new != dom[n]:
                    dom[n] = new
                    changed = True
        return dom

    @property
    def dom(self):
        if self._dom is None:
            self._dom = self._domcalc(self.entry, self.succs, lambda n: self.blocks[n].preds)
        return self._dom

    @property
    def pdom(self):
        if self._pdom is None:
            self._pdom = self._domcalc(self.exit, lambda n: self.blocks[n].preds, self.succs)
        return self._pdom

    def dominates(self, a, b):
        """element/node position a=(block,idx) dominates position b."""
        (ba, ia), (bb, ib) = a, b
        if ba == bb:
            return ia <= ib
        return bb in self.dom and ba in self.dom[bb]

    def postdominates(self, a, b):
        (ba, ia), (bb, ib) = a, b
        if ba == bb:
            return ia >= ib
        return bb in self.pdom and ba in self.pdom[bb]

    def node_dominates(self, na, nb):
        wa, wb = self.where_node(na), self.where_node(nb)
        if wa is None or wb is None:
            return False
        return self.dominates(wa, wb)

    # ---- reachability avoiding a set of positions ----------------------------------------------
    def path_avoiding(self, start, goal_pred, avoid_pred):
        """Search element positions from `start` (block, idx) forward. Returns a list of
        (block, idx) forming a path to the first position satisfying goal_pred(block, idx, node_id)
        that does not pass through a position satisfying avoid_pred; goal may also be the
        pseudo-position (exit, -1). None when no such path."""
        from collections import deque
        b0, i0 = start
        q = deque()
        q.append((b0, i0, None))
        seen = set()
        parent = {}
        while q:
            b, i, par = q.popleft()
            if (b, i) in seen:
                continue
            seen.add((b, i))
            parent[(b, i)] = par
            blk = self.blocks[b]
            j = i
            hit = None
            blocked = False
            while j < len(blk.e):
                nid = blk.e[j]
                if (b, j) != start or True:
                    if avoid_pred(b, j, nid) and (b, j) != start:
                        blocked = True
                        break
                    if goal_pred(b, j, nid) and (b, j) != start:
                        hit = (b, j)
                        break
                j += 1
            if hit:
                path = [hit]
                cur = (b, i)
                while cur is not None:
                    path.append(cur)
                    cur = parent[cur]
                return list(reversed(path))
            if blocked:
                continue
            if b == self.exit:
                if goal_pred(b, -1, None):
                    path = [(b, -1)]
                    cur = (b, i)
                    while cur is not None:
                        path.append(cur)
                        cur = parent[cur]
                    return list(reversed(path))
                continue
            for s in self.succs(b):
                if (s, 0) not in seen:
                    q.append((s, 0, (b, i)))
        return None

    def describe_path(self, path):
        out = []
        last = None
        for b, i in path:
            blk = self.blocks[b]
            if i < 0 or i >= len(blk.e):
                if b == self.exit:
                    out.append('exit')
                continue
            n = self.fn.nodes.get(blk.e[i])
            if n is not None and n.l != last:
                out.append('%s' % n.loc())
                last = n.l
        return out

    # ---- forward dataflow ----------------------------------------------------------------------
    def forward(self, init, transfer, refine=None, join=None, max_iter=100000):
        """Generic forward may-analysis. States must be hashable/comparable (e.g. frozenset).
        transfer(node, state) -> state for each CFG element in order;
        refine(block, succ_index, succ_id, state) -> state or None (edge infeasible);
        join(a, b) -> state (default: set union).
        Returns (in_states, out_edge_states) where out_edge_states[(b, k)] is the state on the
        k-th successor edge."""
        if join is None:
            join = lambda a, b: a | b
        ins = {self.entry: init}
        edge = {}
        work = [self.entry]
        it = 0
        while work:
            it += 1
            if it > max_iter:
                raise AnalysisBroken('dataflow did not converge in %s' % self.fn.qn)
            b = work.pop()
            st = ins[b]
            blk = self.blocks[b]
            for n in self.elements(blk):
                st = transfer(n, st)
            for k, (s, u) in enumerate(zip(blk.s, blk.u)):
                if s is None or u:
                    continue
                es = st if refine is None else refine(blk, k, s, st)
                if es is None:
                    continue
                edge[(b, k)] = es
                if s not in ins:
                    ins[s] = es
                    work.append(s)
                else:
                    new = join(ins[s], es)
                    if new != ins[s]:
                        ins[s] = new
                        work.append(s)
        return ins, edge

    def elements(self, blk):
        """AST nodes of a block in evaluation order; a DeclStmt is followed by its VarDecls (the
        declared variable becomes defined once its initialiser elements have been evaluated)."""
        for nid in blk.e:
            n = self.fn.nodes.get(nid)
            if n is None:
                continue
            yield n
            if n.k == 'DeclStmt':
                for c in n.c:
                    if c is not None and c.k == 'VarDecl':
                        yield c

    def branch_cond(self, blk):
        """For a two-way block: the AST node whose truth selects successor 0 (true) / 1 (false)."""
        if not blk.tc:
            return None
        n = self.fn.nodes.get(blk.tc)
        # for `a && b` / `a || b` the operand evaluated last in this block decides the edge
        while n is not None and n.k == 'BinaryOperator' and n.op in ('&&', '||'):
            n = n.child('rhs')
        return n


def loops(fn):
    """All loop statements of a function (AST), outermost first."""
    return [n for n in fn.walk() if n.k in ('ForStmt', 'WhileStmt', 'DoStmt')]


def enclosing(node, kinds):
    for a in node.ancestors():
        if a.k in kinds:
            return a
    return None
