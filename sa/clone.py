"""Clone-family comparison (R-CLONE): α-rename locals by first occurrence, apply the family's
substitution (callee/field/type renames, abstraction hooks), print a canonical tree; all members
must print identically. Reports the first differing line with both locations."""
import re
from .facts import stmt_tree_text, expr_text


class Renamer:
    def __init__(self, fn=None, params_positional=True, params_by_name=False):
        self.map = {}
        if fn is not None and params_by_name:
            for i, p in enumerate(fn.params):
                self.map[p['d']] = '$' + p['n']
        elif fn is not None and params_positional:
            for i, p in enumerate(fn.params):
                self.map[p['d']] = 'p%d' % i

    def __call__(self, n):
        d = n.d
        if d not in self.map:
            self.map[d] = 'v%d' % (len([x for x in self.map.values() if x.startswith('v')]))
        return self.map[d]


def canon(node, fn=None, subst=(), hook=None, drop=None, ren=None, strip_types=False):
    ren = ren or Renamer(fn)
    txt = stmt_tree_text(node, ren, 0, hook, drop)
    for pat, rep in subst:
        txt = re.sub(pat, rep, txt)
    return txt


def first_diff(a, b):
    la, lb = a.splitlines(), b.splitlines()
    for i, (x, y) in enumerate(zip(la, lb)):
        if x != y:
            return i, x.strip(), y.strip()
    if len(la) != len(lb):
        i = min(len(la), len(lb))
        return i, (la[i].strip() if i < len(la) else '<end>'), (lb[i].strip() if i < len(lb) else '<end>')
    return None


def check_family(ctx, rule, family, members, min_members=None):
    """members: list of (label, loc, canonical_text). All texts must be equal (to the first)."""
    if min_members is not None:
        ctx.require('%s %s members' % (rule, family), len(members), min_members)
    if not members:
        return
    ref = members[0]
    for lab, loc, txt in members[1:]:
        d = first_diff(ref[2], txt)
        ctx.check(d is None, rule, '%s/%s~%s' % (family, ref[0], lab), loc,
                  'clone members agree after normalisation (%d lines)' % len(txt.splitlines()),
                  None if d is None else 'clone family `%s`: %s (%s) differs from %s (%s) at canonical line %d: `%s`  vs  `%s`' % (family, lab, loc, ref[0], ref[1], d[0], d[2][:110], d[1][:110]))


def temps(fn, stmts, ren=None, pointers=False):
    """Normalisation for named temporaries: a local declared `const` inside `stmts` whose initialiser is free of
    calls and side effects is printed as its initialiser wherever it is used, and its declaration is omitted.
    Returns (hook, drop) for canon()/stmt_tree_text(). Hoisting a repeated pure sub-expression into such a
    temporary (or inlining one) therefore leaves the canonical text unchanged."""
    cand = {}
    for s_ in stmts:
        for v in s_.walk():
            if v.k != 'VarDecl' or v.child('init') is None or not (v.t or '').startswith('const ') or ('*' in (v.t or '') and not pointers) or '[' in (v.t or ''):
                continue
            init = v.child('init')
            if any(x.k in ('CallExpr', 'CXXMemberCallExpr', 'CXXOperatorCallExpr', 'CXXConstructExpr', 'CompoundAssignOperator') or (x.k == 'UnaryOperator' and x.op in ('++', '--', 'post++', 'post--'))
                   or (x.k == 'BinaryOperator' and x.op == '=') for x in init.walk()):
                continue
            cand[v.d] = init

    def hook(n):
        if n.k == 'DeclRefExpr' and n.d in cand:
            return expr_text(cand[n.d], ren, hook)
        return None

    def drop(st):
        return st.k == 'DeclStmt' and all(v is None or (v.k == 'VarDecl' and v.d in cand) for v in st.c) and any(v is not None for v in st.c)
    return hook, drop
