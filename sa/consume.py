"""R-CONSUME — argument consumption in the command interpreters (Curve::commands,
RobustPath::commands): per arm, guard constant == advance constant == number of operand slots read,
and the slots read are exactly {0..N-1}; the `relative` flag tests the arm's own lower-case letter."""
from . import tables
from .flow import lvalue_key, is_assign, _strip_casts


def slots_of(stmt, item_key, state=None):
    """operand slots of `item` read by a statement: item->number, (item+k)->number, item[k].number,
    *(double*)item, *(Vec2*)item, points.items = (Vec2*)item with points.count = m."""
    slots = set()
    vec_items = False
    vec_count = None
    for x in stmt.walk():
        if x.k == 'MemberExpr' and x.n == 'number':
            b = _strip_casts(x.child('base'))
            arrow = x.arrow
            while b is not None and b.k == 'MemberExpr' and not b.n:
                arrow = b.arrow
                b = _strip_casts(b.child('base'))
            if b is None:
                continue
            if arrow:
                if lvalue_key(b) == item_key:
                    slots.add(0)
                elif b.k == 'BinaryOperator' and b.op == '+' and lvalue_key(b.child('lhs')) == item_key and b.child('rhs').cv is not None:
                    slots.add(b.child('rhs').cv)
            else:
                if b.k == 'ArraySubscriptExpr' and lvalue_key(b.child('base')) == item_key and b.child('idx').cv is not None:
                    slots.add(b.child('idx').cv)
        if x.k == 'UnaryOperator' and x.op == '*':
            s = x.child('sub')
            if s is not None and s.k == 'CStyleCastExpr' and lvalue_key(s.child('sub')) == item_key:
                t = (s.t or '')
                if 'Vec2' in t:
                    slots |= {0, 1}
                elif 'double' in t:
                    slots.add(0)
        if is_assign(x) and x.child('lhs').text().endswith('.items'):
            r = x.child('rhs')
            if r.k == 'CStyleCastExpr' and 'Vec2' in (r.t or '') and lvalue_key(r.child('sub')) == item_key:
                vec_items = True
        if is_assign(x) and x.child('lhs').text().endswith('.count') and x.child('rhs').cv is not None:
            vec_count = x.child('rhs').cv
    if state is not None:
        state['items'] = state.get('items', False) or vec_items
        if vec_count is not None:
            state['count'] = vec_count
        vec_items, vec_count = state['items'], state.get('count')
    if vec_items and vec_count is not None:
        slots |= set(range(2 * vec_count))
    return slots


def check_commands(ctx, fn, rule='R-CONSUME'):
    sw = next((s for s in fn.walk() if s.k == 'SwitchStmt'), None)
    item = next((v for v in fn.walk() if v.k == 'VarDecl' and v.n == 'item'), None)
    if sw is None or item is None:
        from .facts import AnalysisBroken
        raise AnalysisBroken('%s: command switch / item iterator not found' % fn.qn)
    ikey = 'v%d:%s' % (item.d, item.n)
    table = {}
    n = 0
    for labels, stmts, top in tables.switch_arms(sw):
        if 'default' in labels:
            continue
        n += 1
        letters = ''.join(chr(l) for l in labels)
        key = '%s/arm:%s' % (fn.qn.replace('gdstk::', ''), letters)
        guard = None
        adv = None
        slots = set()
        vstate = {}
        call = None
        rel = None
        for s in stmts:
            if s.k == 'IfStmt' and guard is None:
                c = _strip_casts(s.child('cond'))
                if c.k == 'BinaryOperator' and c.op == '<' and c.child('rhs').cv is not None and 'end' in c.child('lhs').text():
                    guard = c.child('rhs').cv
                    continue
                # the same test written the other way round: `if (end - item >= N) go on; else leave`, `if (end - item > N - 1)`
                if c.k == 'BinaryOperator' and c.op in ('>=', '>') and c.child('rhs').cv is not None and 'end' in c.child('lhs').text() and s.child('else') is not None:
                    guard = c.child('rhs').cv + (1 if c.op == '>' else 0)
                    continue
            if s.k == 'CompoundAssignOperator' and s.op == '+=' and lvalue_key(s.child('lhs')) == ikey:
                adv = s.child('rhs').cv
                continue
            slots |= slots_of(s, ikey, vstate)
            if s.k == 'CXXMemberCallExpr':
                call = (s.callee or '').split('::')[-1]
                for a in s.args:
                    a = _strip_casts(a)
                    if a.k == 'BinaryOperator' and a.op == '==' and a.child('rhs') is not None:
                        r = _strip_casts(a.child('rhs'))
                        if r.k == 'CharacterLiteral':
                            rel = chr(r.v)
        table[letters] = call
        ok = guard is not None and guard == adv and slots == set(range(guard))
        ctx.check(ok, rule, key, top.loc(), 'guard %s = advance %s = operands read %s' % (guard, adv, sorted(slots)),
                  "command '%s': guard constant %s, advance %s, operand slots read %s — they must agree and cover exactly 0..N-1" % (letters, guard, adv, sorted(slots)))
        if len(letters) == 2:
            ctx.check(rel == letters.lower()[0] and letters[0].lower() == letters[1].lower(), rule, key + '/relative', top.loc(), "relative coordinates are selected by the arm's own lower-case letter '%s'" % letters.lower()[0],
                      "relative flag compares the instruction with '%s' in arm '%s'" % (rel, letters))
    return n, table
