"""Positive controls: tiny C++ files with one seeded violation each (and a repaired twin),
analysed on every run with the same extractor and rules (DESIGN.md §1 'No vacuous passes')."""
import os
from . import facts

CONTROLS = os.path.join(facts.VERIF, 'controls')
_cache = {}


def load_controls():
    if 'db' in _cache:
        return _cache['db']
    units = sorted(os.path.join(CONTROLS, f) for f in os.listdir(CONTROLS) if f.endswith('.cpp'))
    if not units:
        raise facts.AnalysisBroken('no control units under %s' % CONTROLS)
    key = facts.tree_key(units)
    out = os.path.join(facts.FACTS, 'controls-' + key)
    if not os.path.exists(os.path.join(out, '.complete')):
        facts.run_gx(units, [CONTROLS], out, ['-std=c++17', '-I%s/include' % facts.REPO, '-I%s/external' % facts.REPO, '-Wno-everything'])
        open(os.path.join(out, '.complete'), 'w').write('ok')
    db = facts.DB()
    for u in units:
        db.add_unit(os.path.join(out, os.path.basename(u) + '.json'))
    db.cached = True
    _cache['db'] = db
    return db
