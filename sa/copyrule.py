"""R-COPY — copy completeness and depth for `T::copy_from(const T&)` and hand-rolled field copies."""
import re
from .facts import flat_fields, AnalysisBroken
from .flow import lvalue_key, is_assign, _strip_casts

COPIERS = ('gdstk::copy_string', 'gdstk::properties_copy', 'gdstk::property_values_copy', 'gdstk::allocate', 'gdstk::allocate_clear', 'gdstk::reallocate')


def owns_heap(db, t, depth=0):
    """Does a value of this type own heap storage (so that plain assignment would alias it)?"""
    t = (t or '').strip()
    if '(*)' in t or t.endswith(')'):
        return False
    if t in ('void *', 'const void *'):
        return False
    if '*' in t:
        return True
    if depth > 4:
        return False
    r = db.records.get(t) or db.records.get('gdstk::' + t)
    if r is None:
        m = re.match(r'^(?:gdstk::)?Array<', t)
        return bool(m)
    return any(owns_heap(db, ft, depth + 1) for _, ft, _ in flat_fields(r))


def field_writes(stmt, dst_key, src_key, canon_name=None):
    """Fields of `dst` definitely written by this statement tree, with how:
    {field: set(['assign'|'copier'|'call'|'memcpy'])}; conditionals intersect, compounds union."""
    def merge(a, b):
        for k, v in b.items():
            a.setdefault(k, set()).update(v)
        return a

    def fld(key):
        # 'dst->f', 'dst->f.x', 'dst.f' -> f
        for sep in ('->', '.'):
            pre = dst_key + sep
            if key and key.startswith(pre):
                rest = key[len(pre):]
                f = re.split(r'->|\.|\[', rest)[0]
                return canon_name.get(f, f) if canon_name else f
        return None

    def simple(n):
        out = {}
        for x in n.walk():
            if is_assign(x):
                f = fld(lvalue_key(x.child('lhs')))
                if f:
                    r = _strip_casts(x.child('rhs'))
                    how = 'assign'
                    if r is not None and r.k in ('CallExpr',) and r.callee in COPIERS:
                        how = 'copier'
                    out.setdefault(f, set()).add(how)
            elif x.k == 'UnaryOperator' and x.op in ('++', 'post++', '--', 'post--'):
                f = fld(lvalue_key(x.child('sub')))
                if f:
                    out.setdefault(f, set()).add('assign')
            elif x.k == 'CXXMemberCallExpr' and (x.callee or '').endswith('::copy_from'):
                f = fld(lvalue_key(x.child('obj')))
                if f:
                    out.setdefault(f, set()).add('copier')
            elif x.k == 'CallExpr' and x.callee in ('memcpy',):
                f = fld(lvalue_key(_strip_casts(x.args[0])))
                if f:
                    out.setdefault(f, set()).add('memcpy')
        return out

    def go(s):
        if s is None:
            return {}
        if s.k == 'CompoundStmt':
            out = {}
            for c in s.c:
                merge(out, go(c))
            return out
        if s.k == 'IfStmt':
            a = go(s.child('then'))
            b = go(s.child('else')) if s.child('else') is not None else {}
            out = {}
            for k in set(a) & set(b):
                out[k] = a[k] | b[k]
            return out
        if s.k in ('ForStmt', 'WhileStmt', 'DoStmt'):
            return go(s.child('body'))
        if s.k == 'SwitchStmt':
            return {}
        return simple(s)
    return go(stmt)


def aliasing_assignments(stmt, dst_key, src_key):
    """Assignments `dst.f = src.f` (plain read of the same field of the source): shallow copies."""
    out = {}
    if src_key is None:
        return out
    for x in stmt.walk() if hasattr(stmt, 'walk') else []:
        if is_assign(x) and x.op == '=':
            lk = lvalue_key(x.child('lhs'))
            rk = lvalue_key(_strip_casts(x.child('rhs')))
            if not lk or not rk:
                continue
            for sep in ('->', '.'):
                if lk.startswith(dst_key + sep):
                    f = lk[len(dst_key + sep):]
                    for sep2 in ('->', '.'):
                        if rk == src_key + sep2 + f:
                            out[re.split(r'->|\.|\[', f)[0]] = x
    return out


def cross_assignments(stmt, dst_key, src_key):
    """Assignments `dst.F... = src.G...` whose right-hand side is a plain read of a DIFFERENT field path of the source."""
    out = []
    if src_key is None:
        return out
    for x in stmt.walk() if hasattr(stmt, 'walk') else []:
        if is_assign(x) and x.op == '=':
            lk = lvalue_key(x.child('lhs'))
            rk = lvalue_key(_strip_casts(x.child('rhs')))
            if not lk or not rk:
                continue
            fl = next((lk[len(dst_key + sep):] for sep in ('->', '.') if lk.startswith(dst_key + sep)), None)
            fr = next((rk[len(src_key + sep):] for sep in ('->', '.') if rk.startswith(src_key + sep)), None)
            if fl is not None and fr is not None and fl != fr:
                out.append((fl, fr, x))
    return out


def check_copy(ctx, db, rule, label, loc, rec_t, stmt, dst_key, src_key, exempt=(), shallow_ok=()):
    rec = db.record(rec_t)
    canon_name = {}
    groups = {}
    for name, t, grp in flat_fields(rec):
        if grp:
            groups.setdefault(grp[1], []).append((name, t))
            canon_name[name] = grp[1][0]
        else:
            groups[(name,)] = [(name, t)]
    w = field_writes(stmt, dst_key, src_key, canon_name)
    alias = aliasing_assignments(stmt, dst_key, src_key)
    n = 0
    for fl, fr, x in cross_assignments(stmt, dst_key, src_key):
        ctx.violation(rule, '%s/cross:%s<-%s' % (label, fl, fr), x.loc(), 'field `%s` of the copy is filled from field `%s` of the source' % (fl, fr))
    for names, members in groups.items():
        if any(m in exempt for m in names):
            continue
        n += 1
        key = '%s/field:%s' % (label, '|'.join(names))
        if names[0] not in w:
            ctx.violation(rule, key, loc, 'field `%s` of %s is not copied on every path' % ('|'.join(names), rec_t))
            continue
        bad = None
        for name, t in members:
            if name in alias and name not in shallow_ok:
                lhs = alias[name].child('lhs')
                if owns_heap(db, lhs.ct or lhs.t):
                    bad = name
        ctx.check(bad is None, rule, key, loc, 'field `%s` copied%s' % ('|'.join(names), ' through its copier' if any(owns_heap(db, t) for _, t in members) else ''),
                  'owning field `%s` is copied by plain assignment from the source (aliases the source storage)' % bad)
    return n


def _scalar_type(t):
    t = t.replace('const ', '').replace('gdstk::', '').strip()
    return t in ('bool', 'int', 'double', 'float', 'uint8_t', 'uint16_t', 'uint32_t', 'uint64_t', 'int16_t', 'int32_t', 'int64_t', 'unsigned long', 'long', 'unsigned int', 'Tag', 'size_t') or \
        t in ('ReferenceType', 'RepetitionType', 'EndType', 'JoinType', 'BendType', 'Anchor', 'PropertyType', 'InterpolationType', 'SubPathType', 'ErrorCode')


def check_destination_reads(ctx, fn, rule='R-COPY.read-before-write', label=None):
    """In a copy_from method the destination's own fields are outputs: a scalar field of `this` that is READ must have been
    written earlier on every path (dominating assignment). Reading e.g. the destination's tag to choose which union member to
    copy uses whatever the destination held before (a zeroed object reads as the first enumerator)."""
    from .flow import lvalue_key, is_assign, _strip_casts
    if fn.body is None:
        return 0
    g = fn.cfg
    writes = {}
    for x in fn.walk():
        if is_assign(x) and x.op == '=':
            lhs = x.args[0] if x.k == 'CXXOperatorCallExpr' else x.child('lhs')
            k = lvalue_key(_strip_casts(lhs))
            if k and k.startswith('this->'):
                writes.setdefault(k.split('.')[0].split('[')[0], []).append(x)
    n = 0
    bad = []
    for m in fn.walk():
        if m.k != 'MemberExpr' or not m.n or m.child('base') is None or _strip_casts(m.child('base')).k != 'CXXThisExpr':
            continue
        p = m.parent
        if p is None:
            continue
        # a read of the field's value: not the target of a store, not a sub-object access, not a method call on it, not its address
        if (is_assign(p) and p.op == '=' and ((p.args[0] if p.k == 'CXXOperatorCallExpr' else p.child('lhs')) is m)) or p.k in ('MemberExpr', 'CXXMemberCallExpr', 'CXXOperatorCallExpr') or \
                (p.k == 'UnaryOperator' and p.op == '&') or (p.k in ('CallExpr',) and '&' in (m.t or '')):
            continue
        t = (m.t or '')
        if not (t.endswith('*') or _scalar_type(t)):
            continue
        if t.endswith('*'):
            # releasing what the destination held before it is overwritten is not a dependence of the copy on it:
            # `if (p) free_allocation(p); p = ...`
            q = m.parent
            while q is not None and q.k in ('ImplicitCastExpr', 'CStyleCastExpr'):
                q = q.parent
            if q is not None and q.k == 'CallExpr' and (q.callee or '').split('::')[-1] in ('free_allocation', 'free'):
                continue
            if q is not None and q.k == 'IfStmt' and q.child('else') is None and all(
                    y.k in ('CallExpr',) and (y.callee or '').split('::')[-1] in ('free_allocation', 'free') or y.k not in ('CallExpr', 'CXXMemberCallExpr', 'BinaryOperator', 'CompoundAssignOperator')
                    for y in q.child('then').walk()):
                continue
        n += 1
        key = 'this->' + m.n
        if not any(w.pos < m.pos and g.node_dominates(w, m) for w in writes.get(key, [])):
            bad.append(m)
    lab = label or fn.qn.replace('gdstk::', '')
    ctx.check(not bad, rule, lab + '/destination-fields', bad[0].loc() if bad else fn.loc(), 'every field of the destination that is read (%d reads) was assigned earlier on every path' % n,
              'field `%s` of the destination is read at %s before it is assigned: the copy depends on what the destination held before (a zeroed destination reads as 0 / the first enumerator)' % (bad[0].n if bad else '', bad[0].loc() if bad else ''))
    return 1
