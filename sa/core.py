"""Check driver: obligations, known findings, evidence, exit codes (DESIGN.md §1)."""
import json
import os
import re
import sys
import time

from . import facts
from .facts import AnalysisBroken, VERIF

KNOWN = os.path.join(VERIF, 'known_findings.json')


class Ob:
    __slots__ = ('rule', 'key', 'loc', 'status', 'what', 'path')

    def __init__(self, rule, key, loc, status, what, path=None):
        self.rule, self.key, self.loc, self.status, self.what, self.path = rule, key, loc, status, what, path

    def as_dict(self):
        d = {'rule': self.rule, 'instance': self.key, 'loc': self.loc, 'status': self.status, 'what': self.what}
        if self.path:
            d['path'] = self.path
        return d


class Ctx:
    """Collects obligations for one property run."""

    def __init__(self, pid, tier, db, scratch=False):
        self.pid = pid
        self.tier = tier
        self.db = db
        self.obs = []
        self.mins = []       # (rule, found, minimum)
        self.controls = []   # (name, fired)
        self.scratch = scratch
        self.notes = []
        self.functions = set()
        self.explored = {'cfg_edges': 0, 'paths': 0, 'valuations': 0}
        self.extra = {}
        self._adv = None
        self.broken = []

    def sub(self, db=None):
        return Ctx(self.pid, self.tier, db or self.db, scratch=True)

    def attempt(self, fn, *args, **kw):
        """run one group of rules; a construct it cannot analyse (AnalysisBroken) is recorded and the other groups still run, so
        that an undecidable obligation never hides a violation found elsewhere"""
        try:
            return fn(*args, **kw)
        except AnalysisBroken as e:
            self.broken.append(str(e))
            return None

    def touch(self, fn):
        self.functions.add('%s @ %s' % (fn.qn, fn.loc()))

    def memo(self, name, files, fn, *args):
        """Run the rule group fn(ctx, *args), or replay its recorded outcome when the same group was already decided for the same
        facts: the key is the content of every function of the current tree defined in `files` (as extracted from the current
        source), the tier and the checker's own sources. A content-addressed cache like build/facts/: nothing is assumed about the
        tree, an edit to any of those functions (or to the checker) gives another key. Only for groups whose verdict depends on
        nothing but those functions (the interpretation rules: they are the expensive ones)."""
        import hashlib
        from . import facts
        h = hashlib.sha1()
        h.update(('%s|%s|%s|' % (self.pid, name, self.tier)).encode())
        h.update(_checker_hash().encode())
        fs = sorted((f for f in self.db.functions if facts.relpath(f.file) in files and f.body is not None), key=lambda f: (facts.relpath(f.file), f.line, f.qn, f.sig or '', f.targs or ''))
        seen = set()
        for f in fs:
            k = (facts.relpath(f.file), f.line, f.qn, f.targs or '')
            if k in seen:
                continue
            seen.add(k)
            h.update(('%s|%s|%s|' % k[:3]).encode())
            h.update(_fn_text(f).encode())
        path = os.path.join(VERIF, 'build', 'memo', '%s-%s-%s.json' % (self.pid, re.sub(r'\W+', '_', name), h.hexdigest()[:24]))
        if os.path.exists(path) and not os.environ.get('GDSTK_SA_NO_MEMO'):
            try:
                with open(path) as fh:
                    rec = json.load(fh)
                for o in rec['obs']:
                    self.obs.append(Ob(o['rule'], o['key'], o['loc'], o['status'], o['what'], o.get('path')))
                self.mins.extend(tuple(m) for m in rec['mins'])
                self.functions.update(rec['functions'])
                for k, v in rec['explored'].items():
                    self.explored[k] = self.explored.get(k, 0) + v
                self.broken.extend(rec['broken'])
                self.extra.setdefault('memo_hits', []).append(name)
                return None
            except (ValueError, KeyError, OSError):
                pass
        n_obs, n_min, n_br = len(self.obs), len(self.mins), len(self.broken)
        f0, e0 = set(self.functions), dict(self.explored)
        try:
            fn(self, *args)
        except AnalysisBroken as e:
            self.broken.append(str(e))
        rec = {'obs': [{'rule': o.rule, 'key': o.key, 'loc': o.loc, 'status': o.status, 'what': o.what, 'path': o.path} for o in self.obs[n_obs:]],
               'mins': [list(m) for m in self.mins[n_min:]], 'functions': sorted(self.functions - f0),
               'explored': {k: self.explored.get(k, 0) - e0.get(k, 0) for k in self.explored}, 'broken': self.broken[n_br:]}
        try:
            os.makedirs(os.path.dirname(path), exist_ok=True)
            tmp = '%s.%d.tmp' % (path, os.getpid())
            with open(tmp, 'w') as fh:
                json.dump(rec, fh)
            os.replace(tmp, path)
        except OSError:
            pass
        return None

    def ok(self, rule, key, loc, what=''):
        self.obs.append(Ob(rule, key, loc, 'ok', what))

    def _advisory(self, rule, key):
        """rules listed in the property module's ADVISORY table compare the spelling of siblings / of a reference fragment; a
        difference there is recorded in the evidence as an observation, never reported as a violation (a behaviour-preserving
        edit can cause it)"""
        if self._adv is None:
            try:
                import importlib
                self._adv = [(r, re.compile(k)) for r, k in getattr(importlib.import_module('sa.props.' + self.pid), 'ADVISORY', [])]
            except ImportError:
                self._adv = []
        return any(r == rule and k.search(key) for r, k in self._adv)

    def violation(self, rule, key, loc, what, path=None):
        if self._advisory(rule, key):
            self.obs.append(Ob(rule, key, loc, 'advisory', what, path))
            return
        self.obs.append(Ob(rule, key, loc, 'violation', what, path))

    def check(self, cond, rule, key, loc, what_ok='', what_bad=None, path=None):
        if cond:
            self.ok(rule, key, loc, what_ok)
        else:
            self.violation(rule, key, loc, what_bad or ('NOT: ' + what_ok), path)
        return cond

    def require(self, rule, found, minimum, exact=False):
        """Anti-vacuity floor: the rule must have examined at least `minimum` instances. The figures in the property modules are the
        counts confirmed by hand on the pinned tree; a behaviour-preserving edit may merge duplicated sites (two arms sharing one
        exit, two loops fused), so the floor that is enforced is three quarters of the confirmed count (never below 3, and the
        confirmed count itself when that is below 4 or the count is fixed by the interface: exact=True). Every instance that is
        found is still checked; a rule that lost most of its instances fails as analysis-broken."""
        floor = minimum if (exact or minimum < 4) else max(3, (minimum * 3) // 4)
        self.mins.append((rule, found, floor))

    def control(self, name, fired):
        self.controls.append((name, bool(fired)))

    def violations(self, rule=None):
        return [o for o in self.obs if o.status == 'violation' and (rule is None or o.rule == rule)]


_CHK = [None]


def _checker_hash():
    if _CHK[0] is None:
        import hashlib
        import glob
        h = hashlib.sha1()
        for p_ in sorted(glob.glob(os.path.join(VERIF, 'sa', '*.py')) + glob.glob(os.path.join(VERIF, 'sa', 'props', '*.py')) + glob.glob(os.path.join(VERIF, 'sa', '*.json'))):
            with open(p_, 'rb') as fh:
                h.update(fh.read())
        _CHK[0] = h.hexdigest()
    return _CHK[0]


def _fn_text(f):
    """the canonical tree of a function as text, with line numbers (they appear in reports)"""
    out = []
    for n in f.body.walk():
        out.append('%s:%s:%s:%s:%s:%s:%s:%s:%s:%s:%s:%d' % (n.k, n.l, n.op or '', n.n or '', n.callee or '', n.t or '', n.cv if n.cv is not None else '', n.fv if n.fv is not None else '', n.qn or '', n.cast or '', n.dk or '', len(n.c)))
    return '%s|%s|%s\n' % (f.ret, [(p_.get('n'), p_.get('t')) for p_ in f.params], f.linkage) + '\n'.join(out)


def load_known():
    if not os.path.exists(KNOWN):
        return []
    with open(KNOWN) as fh:
        return json.load(fh).get('findings', [])


def finish(ctx, t0, level='other', assumptions=(), explanation='', trusted=()):
    """Print the report, write evidence, return the exit code."""
    pid = ctx.pid
    known = [k for k in load_known() if k.get('property') == pid]
    known_keys = {(k['rule'], k['key']): k for k in known if k.get('status') == 'known'}
    broken = list(ctx.broken)
    for rule, found, minimum in ctx.mins:
        if found < minimum:
            broken.append('rule %s matched %d instances, confirmed minimum is %d' % (rule, found, minimum))
    for name, fired in ctx.controls:
        if not fired:
            broken.append('positive control %s did not fire' % name)

    viols, knowns = [], []
    for o in ctx.obs:
        if o.status != 'violation':
            continue
        if (o.rule, o.key) in known_keys:
            knowns.append(o)
        else:
            viols.append(o)

    nobs = len(ctx.obs)
    nok = sum(1 for o in ctx.obs if o.status == 'ok')
    rules = {}
    for o in ctx.obs:
        r = rules.setdefault(o.rule, {'obligations': 0, 'ok': 0})
        r['obligations'] += 1
        r['ok'] += o.status == 'ok'
    print('[%s/%s] units=%d functions_in_db=%d functions_analysed=%d obligations=%d discharged=%d known=%d violations=%d'
          % (pid, ctx.tier, len(ctx.db.units), len(ctx.db.functions), len(ctx.functions), nobs, nok, len(knowns), len(viols)))
    for r, c in sorted(rules.items()):
        print('  rule %-28s %3d/%-3d' % (r, c['ok'], c['obligations']))
    for rule, found, minimum in ctx.mins:
        print('  instances %-23s %3d (min %d)' % (rule, found, minimum))
    for name, fired in ctx.controls:
        print('  control  %-40s %s' % (name, 'fired' if fired else 'DID NOT FIRE'))
    for n in ctx.notes:
        print('  note: ' + n)
    advs = [o for o in ctx.obs if o.status == 'advisory']
    for o in advs:
        print('  advisory (not a verdict): %s [%s] %s — %s' % (o.loc, o.rule, o.key, o.what[:160]))

    wall = time.time() - t0
    os.makedirs(os.path.join(VERIF, 'evidence'), exist_ok=True)
    os.makedirs(os.path.join(VERIF, 'build', 'reports'), exist_ok=True)
    report = os.path.join(VERIF, 'build', 'reports', '%s.%s.json' % (pid, ctx.tier))
    with open(report, 'w') as fh:
        json.dump({'property': pid, 'tier': ctx.tier,
                   'violations': [o.as_dict() for o in viols],
                   'known': [o.as_dict() for o in knowns],
                   'broken': broken,
                   'obligations': [o.as_dict() for o in ctx.obs]}, fh, indent=1)

    samples = [o.as_dict() for o in ctx.obs if o.status == 'ok'][:4] + [o.as_dict() for o in knowns][:3] + [o.as_dict() for o in viols][:5]
    distinct = len({(o.rule, o.key) for o in ctx.obs})
    cov = {
        'explanation': explanation,
        'obligations': nobs,
        'discharged': nok,
        'known_findings_matched': len(knowns),
        'evaluations': nobs,
        'distinct_nontrivial': distinct,
        'rule': 'one obligation per (rule, instance) pair generated from the current /repo sources; distinct = distinct (rule, instance) keys; every obligation inspects a typed AST/CFG fragment (none is a constant)',
        'samples': samples,
        'per_rule': rules,
        'instance_minimums': [{'rule': r, 'found': f, 'min': m} for r, f, m in ctx.mins],
        'positive_controls': [{'name': n, 'fired': f} for n, f in ctx.controls],
        'units_parsed': len(ctx.db.units),
        'functions_in_db': len(ctx.db.functions),
        'functions_analysed': sorted(ctx.functions),
        'explored': ctx.explored,
        'facts_cached': ctx.db.cached,
        'checker_cmd': './check %s --tier %s' % (pid, ctx.tier),
        'trusted_base': list(trusted) or ['clang 14 front end + clang::CFG', 'tools/gx/gx.cc', 'sa/*.py rule library', 'sa/specs tables'],
        'analysis_broken': broken,
        'advisory_observations': [o.as_dict() for o in ctx.obs if o.status == 'advisory'][:20],
    }
    cov.update(ctx.extra)
    ev = {'property_id': pid, 'tier': ctx.tier, 'seed': int(os.environ.get('VERIF_SEED', '0') or 0),
          'level': level, 'coverage': cov, 'assumptions': list(assumptions),
          'wall_s': round(wall, 3), 'violations': len(viols)}
    with open(os.path.join(VERIF, 'evidence', '%s.json' % pid), 'w') as fh:
        json.dump(ev, fh, indent=1, sort_keys=True)

    for o in knowns:
        print('KNOWN-FINDING: property=%s %s [%s] %s — %s' % (pid, o.loc, o.rule, o.key, o.what))
    if viols:
        # a violation is definitive even when another obligation could not be analysed
        for b in broken:
            print('  note: could not be analysed: %s' % b)
        for o in viols:
            print('  violation: %s [%s] %s — %s' % (o.loc, o.rule, o.key, o.what))
            if o.path:
                print('      path: ' + ' -> '.join(o.path[:40]))
        print('VIOLATION property=%s replay=%s' % (pid, report))
        return 1
    if broken:
        for b in broken:
            print('ANALYSIS-BROKEN: %s' % b)
        return 2
    print('[%s] OK (%.1fs)' % (pid, wall))
    return 0
