"""Value-flow sources of an expression with coordinate components (R-DEP, form independent).

sources(e) answers: which stored arrays / members can the value of e come from, through any chain of locals,
temporaries, references, Vec2 operators and pure arithmetic - and for each such source, WHICH coordinate (x or y) of
it, and under which operators it travelled ('+' additive, 'scale' multiplied by a coordinate-free factor, 'product'
multiplied with another coordinate, 'call:f' passed through an opaque function).  The x / y component of a
`double*` cursor walking a Vec2 array (type punning used by the GDSII writers: `*p++` twice per point) is the parity
of its affine address within the enclosing counting loop (sa/loops.py).

The result is independent of how the code spells the computation: `lround((origin.x + offset_p->x) * scaling)` and
`Vec2 position = origin + offsets[i]; ... lround(position.x * scaling)` have the same sources."""
from .flow import lvalue_key, is_assign, _strip_casts
from . import loops

COMP = {'x': 'x', 'y': 'y', 'u': 'x', 'v': 'y', 'X': 'x', 'Y': 'y'}
WRAP = ('ParenExpr', 'MaterializeTemporaryExpr', 'CXXBindTemporaryExpr', 'ExprWithCleanups', 'CXXFunctionalCastExpr', 'CompoundLiteralExpr',
        'ImplicitCastExpr', 'CStyleCastExpr', 'CXXStaticCastExpr', 'CXXReinterpretCastExpr')


class Deps:
    def __init__(self, fn):
        self.fn = fn
        self._loops = {}
        self._defs = None
        self._busy = set()

    # ---- definitions of locals ---------------------------------------------------------------------
    def defs(self, key):
        if self._defs is None:
            d = {}
            for n in self.fn.walk():
                if n.k == 'VarDecl' and n.child('init') is not None:
                    d.setdefault('v%d:%s' % (n.d, n.n), []).append((n, n.child('init'), '='))
                elif is_assign(n) or n.k == 'CompoundAssignOperator':
                    lhs = n.args[0] if n.k == 'CXXOperatorCallExpr' else n.child('lhs')
                    rhs = n.args[1] if n.k == 'CXXOperatorCallExpr' else n.child('rhs')
                    l0 = _strip_casts(lhs)
                    comp = None
                    if l0 is not None and l0.k == 'MemberExpr' and l0.n in COMP:
                        b = l0.child('base')
                        while b is not None and _strip_casts(b).k == 'MemberExpr' and not _strip_casts(b).n:
                            b = _strip_casts(b).child('base')
                        b = _strip_casts(b)
                        if b is not None and b.k == 'DeclRefExpr' and b.dk == 'local':
                            d.setdefault(lvalue_key(b), []).append((n, rhs, n.op, COMP[l0.n]))
                            continue
                    k = lvalue_key(l0)
                    if k is not None:
                        d.setdefault(k, []).append((n, rhs, n.op))
            self._defs = d
        return self._defs.get(key, [])

    def loop_for(self, node, key):
        """innermost loop around node in which `key` is an induction variable"""
        x = node.parent
        while x is not None:
            if x.k in ('ForStmt', 'WhileStmt'):
                if x.id not in self._loops:
                    self._loops[x.id] = loops.Loop(self.fn, x)
                if key in self._loops[x.id].ivs:
                    return self._loops[x.id]
            x = x.parent
        return None

    # ---- pointers ----------------------------------------------------------------------------------
    def root_of_ptr(self, e, depth=0):
        """(root key, element type text) of the array a pointer expression points into, or None"""
        r = self._root_of_ptr(e, depth)
        if r is not None:
            k = r[0]
            for suf in ('.items', '->items'):
                if k.endswith(suf):
                    k = k[:-len(suf)]
            return (k, r[1])
        return None

    def _root_of_ptr(self, e, depth=0):
        e = _strip_casts(e)
        if e is None or depth > 12:
            return None
        if e.k == 'ParenExpr':
            return self.root_of_ptr(e.c[0], depth + 1)
        if e.k == 'BinaryOperator' and e.op in ('+', '-'):
            return self.root_of_ptr(e.child('lhs'), depth + 1) or self.root_of_ptr(e.child('rhs'), depth + 1)
        if e.k == 'UnaryOperator' and e.op in ('post++', 'post--', '++', '--'):
            return self.root_of_ptr(e.child('sub'), depth + 1)
        if e.k == 'UnaryOperator' and e.op == '&':
            s = _strip_casts(e.child('sub'))
            if s is not None and s.k in ('ArraySubscriptExpr',):
                return self.root_of_ptr(s.child('base') or s.c[0], depth + 1)
            if s is not None and s.k == 'CXXOperatorCallExpr' and s.op == '[]':
                k = lvalue_key(_strip_casts(s.args[0]))
                return (k, s.t or '') if k else None
            k = lvalue_key(s)
            return (k, s.t or '') if k else None
        if e.k == 'ConditionalOperator':
            return self.root_of_ptr(e.child('then'), depth + 1) or self.root_of_ptr(e.child('else'), depth + 1)
        if e.k == 'MemberExpr' and e.n in ('items', 'elements') or (e.k == 'MemberExpr' and '*' in (e.t or '')):
            k = lvalue_key(e)
            if k is None:
                return None
            return (k, (e.t or '').replace('*', '').replace('const', '').strip())
        if e.k == 'DeclRefExpr' and e.dk in ('local', 'static'):
            key = lvalue_key(e)
            for d in self.defs(key):
                if d[2] == '=':
                    r = self.root_of_ptr(d[1], depth + 1)
                    if r is not None:
                        return r
            return None
        if e.k == 'DeclRefExpr' and e.dk == 'param':
            return (lvalue_key(e), (e.t or '').replace('*', '').replace('const', '').strip())
        return None

    # ---- sources -----------------------------------------------------------------------------------
    def sources(self, e, depth=0):
        """{(root, comp): frozenset(tags)}; comp in 'x' | 'y' | None (whole value / scalar)"""
        e = _strip_casts(e)
        if e is None or depth > 40:
            return {}
        k = e.k
        if k in WRAP or (k == 'CXXConstructExpr' and len([c for c in e.c if c is not None]) == 1):
            cs = [c for c in e.c if c is not None]
            return self.sources(cs[0], depth + 1) if cs else {}
        if k in ('IntegerLiteral', 'FloatingLiteral', 'CXXBoolLiteralExpr') or (e.cv is not None and k != 'DeclRefExpr') or (e.fv is not None and k != 'DeclRefExpr'):
            return {}
        if k in ('InitListExpr', 'CXXConstructExpr', 'CXXTemporaryObjectExpr'):
            cs = [c for c in e.c if c is not None]
            if len(cs) == 2 and 'Vec2' in (e.t or ''):
                out = {}
                for comp, c in zip(('x', 'y'), cs):
                    for (r, cc), tg in self.sources(c, depth + 1).items():
                        out[(r, cc if cc is not None else None, comp)] = tg        # built component-wise: remember the slot
                return out
            return self._union([self.sources(c, depth + 1) for c in cs])
        if k == 'ConditionalOperator':
            return self._union([self.sources(e.child('then'), depth + 1), self.sources(e.child('else'), depth + 1)])
        if k == 'UnaryOperator':
            if e.op in ('-', '+'):
                return self.sources(e.child('sub'), depth + 1)
            if e.op == '*':
                return self._deref(e.child('sub'), e, depth)
            if e.op in ('post++', 'post--', '++', '--', '!', '~'):
                return self.sources(e.child('sub'), depth + 1)
            if e.op == '&':
                return self.sources(e.child('sub'), depth + 1)
            return {}
        if k == 'ArraySubscriptExpr':
            base = e.child('base') or e.c[0]
            return self._deref(base, e, depth, idx=e.child('idx') or e.c[1])
        if k in ('BinaryOperator', 'CXXOperatorCallExpr', 'CompoundAssignOperator'):
            if k == 'CXXOperatorCallExpr':
                if e.op == '[]' and len(e.args) == 2:
                    rk = lvalue_key(_strip_casts(e.args[0]))
                    return {(rk, None): frozenset()} if rk else {}
                if len(e.args) == 1:
                    return self.sources(e.args[0], depth + 1)
                l, r = (e.args[0], e.args[1]) if len(e.args) == 2 else (None, None)
            else:
                l, r = e.child('lhs'), e.child('rhs')
            if l is None or r is None:
                return {}
            a, b = self.sources(l, depth + 1), self.sources(r, depth + 1)
            if e.op in ('+', '-', '+=', '-='):
                return self._union([self._tag(a, '+'), self._tag(b, '+')])
            if e.op in ('*', '/', '*=', '/='):
                ca = any(self._comp(s) is not None for s in a)
                cb = any(self._comp(s) is not None for s in b)
                ta = 'product' if (ca and cb) else 'scale'
                return self._union([self._tag(a, ta), self._tag(b, ta)])
            if e.op == '=':
                return b
            if e.op == ',':
                return b
            return self._union([a, b])
        if k == 'MemberExpr':
            if not e.n:
                return self.sources(e.child('base'), depth + 1)
            if e.n in COMP:
                b = e.child('base')
                arrow = bool(e.arrow)
                while b is not None and _strip_casts(b).k == 'MemberExpr' and not _strip_casts(b).n:
                    arrow = bool(_strip_casts(b).arrow)
                    b = _strip_casts(b).child('base')
                b0 = _strip_casts(b)
                if b0 is not None and ('Vec2' in (b0.t or '') or 'IntPoint' in (b0.t or '')):
                    if arrow:
                        inner = self._deref(b0, e, depth)
                    else:
                        inner = self.sources(b0, depth + 1)
                    return self._select(inner, COMP[e.n])
            key = lvalue_key(e)
            if e.arrow and e.child('base') is not None and _strip_casts(e.child('base')).k != 'CXXThisExpr':
                r = self.root_of_ptr(e.child('base'))
                if r is not None:
                    return {(r[0] + '[].' + e.n, None): frozenset()}
            return {(key, None): frozenset()} if key else {}
        if k == 'DeclRefExpr':
            if e.dk == 'enum':
                return {}
            key = lvalue_key(e)
            if e.dk == 'local':
                ds = self.defs(key)
                if '&' in (e.t or '') and False:
                    pass
                if not ds:
                    return {(key, None): frozenset()}
                if key in self._busy:
                    return {}
                self._busy.add(key)
                try:
                    parts = []
                    for d in ds:
                        s = self.sources(d[1], depth + 1)
                        if len(d) == 4:      # component store  v.x = rhs
                            s = {(r, c, d[3]) if len((r, c)) == 2 else (r, c): t for (r, c), t in ((self._rc(x), t) for x, t in s.items())}
                        parts.append(s)
                    return self._union(parts)
                finally:
                    self._busy.discard(key)
            return {(key, None): frozenset()}
        if k in ('CallExpr', 'CXXMemberCallExpr'):
            name = (e.callee or '?').split('::')[-1]
            parts = [self.sources(a, depth + 1) for a in e.args]
            if k == 'CXXMemberCallExpr' and e.child('obj') is not None:
                parts.append(self.sources(e.child('obj'), depth + 1))
            u = self._union(parts)
            if name in ('lround', 'llround', 'round', 'floor', 'ceil', 'fabs', 'abs'):
                return u
            return self._tag(u, 'call:' + name)
        return {}

    # ---- helpers
    @staticmethod
    def _rc(s):
        return (s[0], s[1])

    @staticmethod
    def _comp(s):
        return s[1]

    @staticmethod
    def _tag(d, t):
        return {s: (tg | {t}) for s, tg in d.items()}

    @staticmethod
    def _union(parts):
        out = {}
        for p in parts:
            for s, tg in p.items():
                out[s] = out.get(s, frozenset()) | tg
        return out

    @staticmethod
    def _select(d, comp):
        """component `comp` of a Vec2-valued expression with sources d"""
        out = {}
        for s, tg in d.items():
            if len(s) == 3:                    # built component-wise: only the matching slot contributes
                if s[2] == comp:
                    out[(s[0], s[1])] = out.get((s[0], s[1]), frozenset()) | tg
                continue
            r, c = s
            if c is None:
                out[(r, comp)] = out.get((r, comp), frozenset()) | tg
            else:
                out[(r, c)] = out.get((r, c), frozenset()) | tg
        return out

    def _deref(self, ptr, at, depth, idx=None):
        r = self.root_of_ptr(ptr)
        if r is None:
            return {}
        root, elem_t = r
        p0 = _strip_casts(ptr)
        pointee = (p0.t or '').replace('const', '').replace('*', '').strip() if p0 is not None else ''
        if pointee in ('double', 'int32_t', 'int64_t') and 'Vec2' in elem_t or (pointee == 'double' and 'Vec2' in self._root_type(ptr)):
            # a scalar cursor over an array of points: the component is the parity of its affine address
            x = p0
            while x is not None and x.k == 'UnaryOperator' and x.op in ('post++', 'post--', '++', '--'):
                x = _strip_casts(x.child('sub'))
            key = lvalue_key(x) if x is not None else None
            lp = self.loop_for(at, key) if key else None
            lin = None
            if lp is not None:
                lin = lp.addr(at) if at.k in ('ArraySubscriptExpr',) or (at.k == 'UnaryOperator' and at.op == '*') else lp.lin(ptr, at)
            if lin is not None and lin.get(loops.K, 0) % 2 == 0:
                c = lin.get(1, 0)
                rest_even = True
                return {(root, 'x' if c % 2 == 0 else 'y'): frozenset()}
            if idx is not None and _strip_casts(idx).cv is not None:
                return {(root, 'x' if _strip_casts(idx).cv % 2 == 0 else 'y'): frozenset()}
            return {(root, '?'): frozenset()}
        return {(root, None): frozenset()}

    def _root_type(self, ptr):
        e = _strip_casts(ptr)
        seen = 0
        while e is not None and seen < 10:
            seen += 1
            if e.k == 'MemberExpr' and e.n in ('items',):
                return e.t or ''
            if e.k == 'UnaryOperator':
                e = _strip_casts(e.child('sub'))
                continue
            if e.k == 'BinaryOperator':
                e = _strip_casts(e.child('lhs'))
                continue
            if e.k == 'DeclRefExpr' and e.dk == 'local':
                ds = [d for d in self.defs(lvalue_key(e)) if d[2] == '=']
                if not ds:
                    return ''
                # look through the cast at the initialiser
                init = ds[0][1]
                for y in init.walk():
                    if y.k == 'MemberExpr' and y.n == 'items':
                        return y.t or ''
                return ''
            return ''
        return ''
