"""R-DIM — dimensional analysis (powers of length) of floating-point code: every +, -, comparison and
assignment combines quantities of the same power of length. Seeds are given per function (parameter
name -> power); locals are inferred from their initialisers in source order (flow-sensitive for
re-assignments such as `d *= d`). Unknown sub-expressions make the enclosing expression unknown and
are never reported, literal 0 is polymorphic, other literals are dimensionless."""
from fractions import Fraction
from .flow import _strip_casts, is_assign, lvalue_key

ANY = 'any'
CALL_DIMS = {
    'fabs': 'same', 'abs': 'same', 'std::abs': 'same', 'std::fabs': 'same', 'sqrt': 'half', 'std::sqrt': 'half', 'llround': 'same', 'round': 'same', 'floor': 'same', 'ceil': 'same',
    'cos': 0, 'sin': 0, 'tan': 0, 'acos': 0, 'asin': 0, 'atan': 0, 'atan2': 0, 'exp': 0, 'log': 0,
    'gdstk::arc_num_points': 0, 'gdstk::elliptical_angle_transform': 0,
    'hypot': 'same',
}
METHOD_DIMS = {'length': 'obj', 'length_sq': 'obj2', 'inner': 'objarg', 'cross': 'objarg', 'normalize': 'obj', 'angle': 0, 'ortho': 'obj'}


class Dims:
    def __init__(self, fn, seeds, report):
        self.fn = fn
        self.env = {}
        self.report = report
        self.n = 0
        self.depth = 0
        self.returns = []
        self.seeds = dict(seeds)

    def var(self, e):
        k = lvalue_key(e)
        if k in self.env:
            return self.env[k]
        if e.n in self.seeds:
            return self.seeds[e.n]
        return None

    def dim(self, e):
        e = _strip_casts(e)
        if e is None:
            return None
        k = e.k
        if k in ('IntegerLiteral', 'FloatingLiteral') or (e.cv is not None and k != 'DeclRefExpr') or (e.fv is not None and k != 'DeclRefExpr'):
            v = e.cv if e.cv is not None else e.fv
            return ANY if (v == 0 or abs(v) >= 1e300) else Fraction(0)   # 0 and +-DBL_MAX sentinels fit any dimension
        if k == 'DeclRefExpr':
            return self.var(e)
        if k == 'MemberExpr':
            if not e.n:
                return self.dim(e.child('base'))      # anonymous struct/union member: transparent
            if e.n in ('x', 'y', 'u', 'v', 'items'):
                return self.dim(e.child('base'))
            if e.n in ('count', 'capacity'):
                return Fraction(0)
            if lvalue_key(e) in self.env:
                return self.var(e)
            return self.seeds.get(e.n)
        if k in ('ArraySubscriptExpr',):
            return self.dim(e.child('base') or e.c[0])
        if k == 'UnaryOperator':
            if e.op in ('-', '+', '*', 'post++', 'post--', '++', '--', '&'):
                return self.dim(e.child('sub'))
            if e.op == '!':
                self.dim(e.child('sub'))      # the negated comparison is a site like any other; the result is a truth value
            return None
        if k == 'ParenExpr':
            return self.dim(e.c[0])
        if k == 'ConditionalOperator':
            a, b = self.dim(e.child('then')), self.dim(e.child('else'))
            return self.same(a, b, e, 'branches of ?:')
        if k in ('BinaryOperator', 'CXXOperatorCallExpr'):
            op = e.op
            if k == 'CXXOperatorCallExpr':
                aa = e.args
                if len(aa) == 1 and op == '-':
                    return self.dim(aa[0])
                l, r = (aa[0], aa[1]) if len(aa) == 2 else (None, None)
            else:
                l, r = e.child('lhs'), e.child('rhs')
            if l is None or r is None:
                return None
            isp = lambda n_: '*' in (n_.t or '') and not (n_.t or '').rstrip().endswith(')')
            if op in ('+', '-') and (isp(l) or isp(r)):
                lp, rp = isp(l), isp(r)
                return Fraction(0) if (lp and rp) else self.dim(l if lp else r)  # pointer arithmetic
            if op in ('+', '-'):
                return self.same(self.dim(l), self.dim(r), e, 'operands of `%s`' % op)
            if op in ('<', '>', '<=', '>=', '==', '!='):
                self.same(self.dim(l), self.dim(r), e, 'operands of `%s`' % op)
                return Fraction(0)
            if op == '*':
                a, b = self.dim(l), self.dim(r)
                if a is None or b is None:
                    return None
                if a == ANY or b == ANY:
                    return ANY
                return a + b
            if op == '/':
                a, b = self.dim(l), self.dim(r)
                if a is None or b is None or b == ANY:
                    return None
                if a == ANY:
                    return ANY
                return a - b
            if op in ('&&', '||'):
                self.dim(l)
                self.dim(r)
                return Fraction(0)
            if op == '[]':
                return self.dim(l)
            return None
        if k == 'CallExpr':
            spec = CALL_DIMS.get(e.callee)
            ads = [self.dim(a) for a in e.args]
            if spec is None and e.callee and self.depth < 3:
                # a file-local helper: analysed with its parameters carrying the dimensions of the arguments (so a block
                # moved into a helper is still checked, and counted, at every call site)
                db = getattr(self.fn, 'db', None)
                gs = [g for g in (db.by_qn.get(e.callee, []) if db is not None else []) if g.body is not None and g.rec is None and g.file == self.fn.file
                      and g.linkage in ('static', 'inline') and len(g.params) == len(e.args)]
                if len(gs) == 1:
                    sub = Dims(gs[0], {p['n']: d for p, d in zip(gs[0].params, ads) if d not in (None, ANY)}, self.report)
                    sub.depth = self.depth + 1
                    sub.run()
                    self.n += sub.n
                    rs = [d for d in sub.returns if d is not None]
                    return rs[0] if rs and all(r == rs[0] for r in rs) else None
            if spec == 'same':
                return self.dim(e.args[0])
            if spec == 'half':
                d = self.dim(e.args[0])
                return None if d is None else (ANY if d == ANY else d / 2)
            if spec is not None:
                return Fraction(spec)
            return None
        if k == 'CXXMemberCallExpr':
            name = (e.callee or '').split('::')[-1]
            spec = METHOD_DIMS.get(name)
            o = self.dim(e.child('obj'))
            if name == 'normalize':
                ob = _strip_casts(e.child('obj'))
                if ob is not None and ob.k == 'DeclRefExpr':
                    self.env[lvalue_key(ob)] = Fraction(0)   # in-place normalisation: the vector becomes a direction
                return o
            if spec == 'obj':
                return o
            if spec == 'obj2':
                return None if o is None else (ANY if o == ANY else 2 * o)
            if spec == 'objarg':
                a = self.dim(e.args[0]) if e.args else None
                if o is None or a is None:
                    return None
                return ANY if ANY in (o, a) else o + a
            if spec is not None:
                return Fraction(spec)
            return None
        if k in ('CXXConstructExpr', 'InitListExpr', 'CXXFunctionalCastExpr', 'CompoundLiteralExpr', 'MaterializeTemporaryExpr', 'CXXBindTemporaryExpr', 'ImplicitCastExpr', 'CStyleCastExpr'):
            ds = [self.dim(c) for c in e.c if c is not None]
            ds = [d for d in ds if d is not None]
            out = None
            for d in ds:
                out = self.same(out, d, e, 'components') if out is not None else d
            return out
        return None

    def same(self, a, b, e, what):
        if a is None or b is None:
            return a if b is None else b if a is None else None
        if a == ANY:
            return b
        if b == ANY:
            return a
        self.n += 1
        if a != b:
            self.report(e, what, a, b)
            return None
        return a

    def run(self):
        for s in self.fn.walk():
            if s.k == 'VarDecl' and s.child('init') is not None:
                d = self.dim(s.child('init'))
                key = 'v%d:%s' % (s.d, s.n)
                seeded = self.seeds.get(s.n)
                if seeded is not None and d not in (None, ANY) and d != Fraction(seeded):
                    self.report(s, 'initialiser of `%s`' % s.n, Fraction(seeded), d)
                self.env[key] = d if d not in (None, ANY) else (Fraction(seeded) if seeded is not None else None)
            elif is_assign(s) or s.k == 'CompoundAssignOperator':
                l = _strip_casts(s.child('lhs'))
                r = s.child('rhs')
                if l is None or r is None or ('*' in (l.t or '') and not (l.t or '').rstrip().endswith(')')):
                    continue   # pointer arithmetic
                dl, dr = self.dim(l), self.dim(r)
                op = s.op
                key = lvalue_key(l) if l.k == 'DeclRefExpr' else None
                if op == '=':
                    if key is not None and l.dk == 'local':
                        if dr not in (None, ANY):
                            self.env[key] = dr
                    else:
                        self.same(dl, dr, s, 'sides of `=`')
                elif op in ('+=', '-='):
                    self.same(dl, dr, s, 'sides of `%s`' % op)
                elif op in ('*=', '/=') and key is not None:
                    if dl in (None, ANY) or dr in (None, ANY):
                        if dr != Fraction(0):
                            self.env[key] = None
                    else:
                        self.env[key] = dl + dr if op == '*=' else dl - dr
            elif s.k == 'CXXMemberCallExpr' and (s.callee or '').endswith('::normalize') and s.parent is not None and s.parent.k in ('CompoundStmt', 'IfStmt', 'ForStmt', 'WhileStmt'):
                self.dim(s)
            elif s.k in ('IfStmt', 'WhileStmt', 'ForStmt', 'DoStmt') and s.child('cond') is not None:
                self.dim(s.child('cond'))
            elif s.k == 'ReturnStmt' and s.child('value') is not None:
                self.returns.append(self.dim(s.child('value')))
            elif s.k == 'CallExpr' and s.parent is not None and s.parent.k in ('CompoundStmt', 'IfStmt', 'ForStmt', 'WhileStmt', 'DoStmt', 'CaseStmt', 'DefaultStmt'):
                self.dim(s)          # a call statement: a file-local helper is analysed with the arguments' dimensions
        return self.n


def check(ctx, fn, seeds, rule='R-DIM', min_sites=1):
    bad = []

    def report(e, what, a, b):
        bad.append((e, what, a, b))
    d = Dims(fn, {k: Fraction(v) for k, v in seeds.items()}, report)
    n = d.run()
    for e, what, a, b in bad:
        ctx.violation(rule, '%s/%s' % (fn.qn, e.loc()), e.loc(), '%s have different dimensions: length^%s vs length^%s in `%s`' % (what, a, b, e.text()[:120]))
    if not bad:
        ctx.ok(rule, '%s/dimensions' % fn.qn, fn.loc(), '%d additions/comparisons/assignments combine equal powers of length' % n)
    if n < min_sites:
        from .facts import AnalysisBroken
        raise AnalysisBroken('%s: dimensional analysis resolved only %d sites (minimum %d)' % (fn.qn, n, min_sites))
    return n
