"""Loading of gx facts: typed mini-AST + CFG per function, record layouts, enums.

Nothing here executes code from /repo; gx only parses it (clang front end).
"""
import hashlib
import tempfile
import json
import os
import shutil
import subprocess
import sys
import time
from concurrent.futures import ThreadPoolExecutor

VERIF = os.path.dirname(os.path.dirname(os.path.abspath(__file__)))
REPO = os.environ.get('GDSTK_REPO', '/repo')
GX = os.path.join(VERIF, 'build', 'gx')
FACTS = os.path.join(VERIF, 'build', 'facts')


def relpath(f):
    """Path relative to the analysed tree root (works for /repo and for scratch copies)."""
    for marker in ('/src/', '/include/', '/controls/'):
        i = f.rfind(marker)
        if i >= 0:
            return f[i + 1:]
    return f


class AnalysisBroken(Exception):
    """Anchor missing / extractor failed / instance count below the confirmed minimum (exit 2)."""


def flags(repo):
    return ['-std=c++17', '-DNDEBUG', '-UNDEBUG_GX', '-I%s/include' % repo, '-I%s/external' % repo,
            '-Wno-everything']


def source_units(repo):
    d = os.path.join(repo, 'src')
    return sorted(os.path.join(d, f) for f in os.listdir(d) if f.endswith('.cpp'))


def header_files(repo):
    d = os.path.join(repo, 'include', 'gdstk')
    return sorted(os.path.join(d, f) for f in os.listdir(d) if f.endswith('.hpp'))


def tree_key(files, extra=()):
    h = hashlib.sha256()
    for f in list(files) + list(extra):
        h.update(f.encode())
        with open(f, 'rb') as fh:
            h.update(hashlib.sha256(fh.read()).digest())
    with open(GX, 'rb') as fh:
        h.update(hashlib.sha256(fh.read()).digest())
    return h.hexdigest()[:24]


def run_gx(units, roots, outdir, fl):
    os.makedirs(outdir, exist_ok=True)

    def one(u):
        cmd = [GX, '--out', outdir] + sum((['--root', r] for r in roots), []) + [u, '--'] + fl
        p = subprocess.run(cmd, stdout=subprocess.PIPE, stderr=subprocess.PIPE, text=True)
        out = os.path.join(outdir, os.path.basename(u) + '.json')
        ok = p.returncode == 0 and os.path.exists(out)
        return u, ok, p.stderr[-2000:]
    with ThreadPoolExecutor(max_workers=16) as ex:
        res = list(ex.map(one, units))
    bad = [(u, e) for u, ok, e in res if not ok]
    if bad:
        raise AnalysisBroken('extractor failed on: ' + '; '.join('%s: %s' % (u, e.strip()[-400:]) for u, e in bad))


# ------------------------------------------------------------------------------------------------

class Node:
    __slots__ = ('j', 'id', 'k', 'l', 'c', 'rl', 'parent', 'fn', 'role')

    def __init__(self, j, fn, parent=None, role=None):
        self.j = j
        self.id = j['id']
        self.k = j['k']
        self.l = j.get('l', 0)
        self.fn = fn
        self.parent = parent
        self.role = role
        self.rl = j.get('rl', [])
        self.c = []
        for cj, r in zip(j.get('c', []), self.rl):
            self.c.append(Node(cj, fn, self, r) if cj is not None else None)
        fn.nodes[self.id] = self

    def __getattr__(self, name):
        # json attributes: t, ct, cv, fv, d, n, dk, qn, rec, callee, op, cast, v, label, arrow, ctor, argt
        try:
            return self.j[name]
        except KeyError:
            return None

    @property
    def pos(self):
        """position of the node in the canonical tree of its function (pre-order): the order in which code is written. Node ids are
        clang's and say the same for untouched code, but code put back from a helper or a temporary has fresh ids: rules compare
        positions, never ids."""
        fn = self.fn
        od = getattr(fn, '_order', None)
        if od is None or self.id not in od:
            od = {}
            if fn.body is not None:
                for i, n in enumerate(fn.body.walk()):
                    od[n.id] = i
            fn._order = od
        return od.get(self.id, -1)

    def child(self, role):
        if self.k == 'CXXOperatorCallExpr' and role in ('lhs', 'rhs') and self.j.get('op') in ('=', '+=', '-=', '*=', '/='):
            a = [c for c, r in zip(self.c, self.rl) if r == 'arg']
            if len(a) == 2:
                return a[0] if role == 'lhs' else a[1]
        for c, r in zip(self.c, self.rl):
            if r == role:
                return c
        return None

    def children(self, role=None):
        return [c for c, r in zip(self.c, self.rl) if c is not None and (role is None or r == role)]

    def walk(self):
        yield self
        for c in self.c:
            if c is not None:
                yield from c.walk()

    def stmts(self):
        """the statements of a branch / body whether or not it is braced (the canonical tree drops single-statement braces)"""
        if self.k == 'CompoundStmt':
            return [c for c in self.c if c is not None]
        return [self]

    def ancestors(self):
        p = self.parent
        while p is not None:
            yield p
            p = p.parent

    def loc(self):
        return '%s:%d' % (relpath(self.fn.file), self.l)

    @property
    def args(self):
        return self.children('arg')

    def is_null_const(self):
        if self.k in ('GNUNullExpr', 'CXXNullPtrLiteralExpr'):
            return True
        if self.k == 'IntegerLiteral' and self.cv == 0 and self.parent is not None:
            return False
        if self.k in ('CStyleCastExpr', 'ImplicitCastExpr') and self.cast in ('NullToPointer',):
            return True
        return False

    # canonical text (alpha-renaming handled by caller through `ren`)
    def text(self, ren=None, hook=None):
        return expr_text(self, ren, hook)

    def __repr__(self):
        return '<%s#%d %s @%d>' % (self.k, self.id, self.text()[:60], self.l)


def expr_text(n, ren=None, hook=None):
    if n is None:
        return '∅'
    if hook is not None:
        r = hook(n)
        if r is not None:
            return r
    k = n.k
    T = lambda x: expr_text(x, ren, hook)
    if k == 'DeclRefExpr':
        if ren is not None and n.dk in ('local', 'param', 'static'):
            return ren(n)
        return n.qn if n.dk in ('enum', 'global', 'func') and n.qn else (n.n or '?')
    if k == 'MemberExpr':
        b = n.child('base')
        if not n.n:
            return T(b)  # member of an anonymous struct/union: transparent
        arrow = n.arrow
        while b is not None and b.k == 'MemberExpr' and not b.n:
            arrow = b.arrow
            b = b.child('base')
        if b is not None and b.k == 'CXXThisExpr':
            return 'this->' + n.n
        return T(b) + ('->' if arrow else '.') + n.n
    if k == 'CXXThisExpr':
        return 'this'
    if k == 'IntegerLiteral':
        return str(n.cv if n.cv is not None else n.j.get('cvu'))
    if k == 'FloatingLiteral':
        return repr(n.fv)
    if k == 'StringLiteral':
        return json.dumps(n.v)
    if k == 'CXXBoolLiteralExpr':
        return 'true' if n.v else 'false'
    if k == 'CharacterLiteral':
        return "'\\x%02x'" % n.v
    if k in ('GNUNullExpr', 'CXXNullPtrLiteralExpr'):
        return 'NULL'
    if k in ('BinaryOperator', 'CompoundAssignOperator'):
        return '(%s %s %s)' % (T(n.child('lhs')), n.op, T(n.child('rhs')))
    if k == 'UnaryOperator':
        op = n.op
        if op.startswith('post'):
            return '(%s%s)' % (T(n.child('sub')), op[4:])
        return '(%s%s)' % (op, T(n.child('sub')))
    if k == 'CXXOperatorCallExpr':
        a = n.args
        if n.op == '[]' and len(a) == 2:
            return '%s[%s]' % (T(a[0]), T(a[1]))
        if len(a) == 2:
            return '(%s %s %s)' % (T(a[0]), n.op, T(a[1]))
        if len(a) == 1:
            return '(%s%s)' % (n.op, T(a[0]))
    if k == 'CXXMemberCallExpr':
        o = n.child('obj')
        name = (n.callee or '?').split('::')[-1]
        os_ = 'this' if (o is not None and o.k == 'CXXThisExpr') else T(o)
        return '%s%s%s(%s)' % (os_, '->' if (n.arrow or os_ == 'this') else '.', name, ', '.join(T(a) for a in n.args))
    if k == 'CallExpr':
        name = n.callee or T(n.child('fn'))
        return '%s(%s)' % (name, ', '.join(T(a) for a in n.args))
    if k in ('CStyleCastExpr', 'CXXStaticCastExpr', 'CXXReinterpretCastExpr', 'CXXFunctionalCastExpr', 'CXXConstCastExpr'):
        return '(%s)%s' % (n.t, T(n.child('sub')))
    if k == 'ImplicitCastExpr':
        return '<%s:%s>%s' % (n.cast, n.t, T(n.child('sub')))
    if k == 'ConditionalOperator':
        return '(%s ? %s : %s)' % (T(n.child('cond')), T(n.child('then')), T(n.child('else')))
    if k == 'ArraySubscriptExpr':
        return '%s[%s]' % (T(n.child('base')), T(n.child('idx')))
    if k == 'UnaryExprOrTypeTraitExpr':
        return '%s(%s)' % (n.op, n.argt)
    if k in ('CXXConstructExpr', 'CXXTemporaryObjectExpr'):
        return '%s{%s}' % (n.ctor, ', '.join(T(a) for a in n.args))
    if k == 'InitListExpr':
        return '{%s}' % ', '.join(T(a) for a in n.c)
    if k == 'VarDecl':
        i = n.child('init')
        nm = ren(n) if ren is not None else n.n
        return '%s %s%s' % (n.t, nm, (' = ' + T(i)) if i is not None else '')
    if k == 'DeclStmt':
        return '; '.join(T(c) for c in n.c)
    if k == 'ReturnStmt':
        return 'return %s' % (T(n.child('value')) if n.child('value') is not None else '')
    if k in ('ImplicitValueInitExpr', 'CXXScalarValueInitExpr'):
        return '%s{}' % n.t
    if k == 'CaseStmt':
        return 'case %s' % T(n.child('lhs'))
    if k == 'DefaultStmt':
        return 'default'
    if k in ('BreakStmt', 'ContinueStmt', 'NullStmt'):
        return k[:-4].lower()
    if k == 'GotoStmt':
        return 'goto %s' % n.label
    if k == 'LabelStmt':
        return '%s:' % n.label
    if k == 'IfStmt':
        return 'if (%s)' % T(n.child('cond'))
    if k == 'WhileStmt':
        return 'while (%s)' % T(n.child('cond'))
    if k == 'DoStmt':
        return 'do-while (%s)' % T(n.child('cond'))
    if k == 'ForStmt':
        return 'for (%s; %s; %s)' % (T(n.child('init')), T(n.child('cond')), T(n.child('inc')))
    if k == 'SwitchStmt':
        return 'switch (%s)' % T(n.child('cond'))
    if k == 'CompoundStmt':
        return '{...}'
    if k == 'CXXNewExpr':
        return 'new %s' % n.argt
    if k == 'CXXDeleteExpr':
        return 'delete %s' % T(n.child('sub'))
    return '%s(%s)' % (k, ', '.join(T(c) for c in n.c))


def stmt_tree_text(n, ren=None, indent=0, hook=None, drop=None):
    """Canonical multi-line print of a statement tree (for clone comparison / debugging).
    hook(node) -> replacement text or None; drop(stmt) -> True to omit a statement."""
    pad = '  ' * indent
    if n is None:
        return pad + '∅\n'
    if drop is not None and drop(n):
        return ''
    k = n.k
    E = lambda x: expr_text(x, ren, hook)
    R = lambda x, i=indent + 1: stmt_tree_text(x, ren, i, hook, drop)
    if hook is not None and k not in ('CompoundStmt',):
        r = hook(n)
        if r is not None:
            return pad + r + '\n'
    if k == 'CompoundStmt':
        return ''.join(stmt_tree_text(c, ren, indent, hook, drop) for c in n.c)
    if k == 'IfStmt':
        s = pad + 'if (%s)\n' % E(n.child('cond')) + (R(n.child('then')) or (pad + '  ;\n'))
        if n.child('else') is not None:
            s += pad + 'else\n' + (R(n.child('else')) or (pad + '  ;\n'))
        return s
    if k == 'ForStmt':
        return pad + 'for (%s; %s; %s)\n' % (E(n.child('init')), E(n.child('cond')), E(n.child('inc'))) + R(n.child('body'))
    if k == 'WhileStmt':
        return pad + 'while (%s)\n' % E(n.child('cond')) + R(n.child('body'))
    if k == 'DoStmt':
        return pad + 'do\n' + R(n.child('body')) + pad + 'while (%s)\n' % E(n.child('cond'))
    if k == 'SwitchStmt':
        return pad + 'switch (%s)\n' % E(n.child('cond')) + R(n.child('body'))
    if k == 'CaseStmt':
        return pad + 'case %s:\n' % E(n.child('lhs')) + R(n.child('sub'))
    if k == 'DefaultStmt':
        return pad + 'default:\n' + R(n.child('sub'))
    if k == 'LabelStmt':
        return pad + n.label + ':\n' + R(n.child('sub'))
    return pad + E(n) + '\n'


class Block:
    __slots__ = ('id', 'e', 't', 'tk', 'tc', 'lab', 's', 'u', 'noret', 'preds')

    def __init__(self, j):
        self.id = j['id']
        self.e = j.get('e', [])
        self.t = j.get('t')
        self.tk = j.get('tk')
        self.tc = j.get('tc')
        self.lab = j.get('lab')
        self.s = j.get('s', [])
        self.u = j.get('u', [])
        self.noret = j.get('noret', False)
        self.preds = []


class Function:
    def __init__(self, j, unit):
        self.j = j
        self.unit = unit
        self.qn = j['qn']
        self.name = j['name']
        self.file = j['file']
        self.line = j['line']
        self.endline = j['endline']
        self.rec = j.get('rec')
        self.recqn = j.get('recqn')
        self.inst = j.get('inst', False)
        self.targs = j.get('targs')
        self.params = j['params']
        self.ret = j['ret']
        self.sig = j.get('sig')
        self.is_const = j.get('const', False)
        self.linkage = j.get('linkage')
        self.is_lambda = bool(j.get('lambda'))
        if self.is_lambda:
            # the call operator of a local lambda: to the rules a file-local helper like any other (N-LAMBDA)
            self.rec, self.recqn, self.linkage = None, None, 'static'
        self.nodes = {}
        self.body = Node(j['body'], self) if j.get('body') else None
        self._cfg = None
        if self.body is not None:
            from . import normal
            normal.normalise(self)
            normal.rename_to_baseline(self)
            normal.orient_to_baseline(self)

    @property
    def key(self):
        return (self.qn, self.file, self.line, self.rec or '', self.targs or '')

    @property
    def cfg(self):
        if self._cfg is None:
            from . import cfg as _cfg
            self._cfg = _cfg.CFG(self)
        return self._cfg

    def relfile(self):
        return relpath(self.file)

    def loc(self):
        return '%s:%d' % (self.relfile(), self.line)

    def walk(self):
        if self.body is not None:
            yield from self.body.walk()

    def calls(self, callee=None):
        for n in self.walk():
            if n.k in ('CallExpr', 'CXXMemberCallExpr', 'CXXOperatorCallExpr'):
                if callee is None or n.callee == callee or (isinstance(callee, (set, tuple, list, frozenset)) and n.callee in callee):
                    yield n

    def param(self, name):
        for p in self.params:
            if p['n'] == name:
                return p
        return None

    def __repr__(self):
        return '<Function %s %s>' % (self.qn + (('<' + self.targs + '>') if self.targs else ''), self.loc())


class DB:
    def __init__(self):
        self.functions = []
        self.by_qn = {}
        self.records = {}
        self.enums = {}
        self.globals = {}
        self.units = []
        self.extract_s = 0.0
        self.cached = False

    def add_unit(self, path, j=None):
        if j is None:
            with open(path) as fh:
                j = json.load(fh)
        self.units.append(j['unit'])
        seen = {f.key for f in self.functions}
        for fj in j['functions']:
            f = Function.__new__(Function)
            key = (fj['qn'], fj['file'], fj['line'], fj.get('rec') or '', fj.get('targs') or '')
            if key in seen:
                continue
            seen.add(key)
            f.__init__(fj, j['unit'])
            f.db = self
            self.functions.append(f)
            self.by_qn.setdefault(f.qn, []).append(f)
        for r in j['records']:
            self.records.setdefault(r['t'], r)
        for e in j['enums']:
            self.enums.setdefault(e['qn'], e)
        for g in j.get('globals', []):
            self.globals.setdefault(g['qn'], g)

    def fn(self, qn, file_suffix=None, nparams=None, sig_contains=None, rec=None, required=True, all=False):
        """Resolve an anchor function. Raises AnalysisBroken when missing (never a silent pass)."""
        c = list(self.by_qn.get(qn, []))
        if file_suffix:
            c = [f for f in c if f.file.endswith(file_suffix)]
        if nparams is not None:
            c = [f for f in c if len(f.params) == nparams]
        if sig_contains:
            c = [f for f in c if sig_contains in (f.sig or '')]
        if rec:
            c = [f for f in c if f.rec == rec]
        if all:
            if required and not c:
                raise AnalysisBroken('anchor function missing: %s' % qn)
            return c
        if not c:
            if required:
                raise AnalysisBroken('anchor function missing: %s %s' % (qn, sig_contains or ''))
            return None
        if len(c) > 1:
            raise AnalysisBroken('anchor ambiguous: %s (%d candidates: %s)' % (qn, len(c), [f.sig for f in c]))
        return c[0]

    def local_helpers(self, fn):
        """[(callee Function, number of call sites in fn)] for the file-local helpers fn calls: free functions with internal
        linkage (static / anonymous namespace) or inline, defined with a body in the same file. Extracting a block into such
        a helper must not change what a rule sees, so rules that enumerate code follow these calls."""
        out = {}
        for c in fn.calls():
            if c.k != 'CallExpr' or not c.callee:
                continue
            for g in self.by_qn.get(c.callee, []):
                if g.body is not None and g.rec is None and g.file == fn.file and g.linkage in ('static', 'inline') and g is not fn:
                    out.setdefault(g.key, [g, 0])[1] += 1
        return [(g, k) for g, k in out.values()]

    def with_helpers(self, fns):
        """[(Function, weight)]: fns (weight 1) and, transitively, their file-local helpers weighted by the number of call
        paths from fns - so that instance counts are invariant under extraction of a block into a helper"""
        weight = {}
        order = []
        roots = {f.key for f in fns}

        def go(f, w, path):
            if f.key not in weight:
                weight[f.key] = 0
                order.append(f)
            weight[f.key] += w
            for g, k in self.local_helpers(f):
                if g.key in path or g.key in roots:
                    continue
                go(g, w * k, path | {g.key})
        for f in fns:
            go(f, 1, {f.key})
        return [(f, weight[f.key]) for f in order]

    def record(self, t):
        r = self.records.get(t)
        if r is None:
            raise AnalysisBroken('anchor record missing: %s' % t)
        return r

    def enum(self, qn):
        e = self.enums.get(qn)
        if e is None:
            raise AnalysisBroken('anchor enum missing: %s' % qn)
        return e


def flat_fields(rec):
    """Fields of a record with anonymous unions kept as one group: yields (name, type, group)"""
    out = []
    for f in rec['fields']:
        if f.get('anon'):
            names = [g['n'] for g in f['fields']]
            for g in f['fields']:
                out.append((g['n'], g['t'], (f['anon'], tuple(names))))
        else:
            out.append((f['n'], f['t'], None))
    return out


def load_variant(repo, units, variant_flags, min_units=1):
    """Facts for a subset of units under another preprocessor configuration (e.g. -UNDEBUG: the
    default CMake build has no NDEBUG). Same cache discipline as load()."""
    repo = repo or REPO
    units = list(units)
    if len(units) < min_units:
        raise AnalysisBroken('variant extraction: expected >= %d units, got %d' % (min_units, len(units)))
    key = 'var-' + tree_key(units + header_files(repo)) + '-' + hashlib.sha256(' '.join(variant_flags).encode()).hexdigest()[:8]
    out = os.path.join(FACTS, key)
    db = DB()
    if not os.path.exists(os.path.join(out, '.complete')):
        if os.path.isdir(out):
            shutil.rmtree(out)
        fl = [f for f in flags(repo) if f != '-DNDEBUG'] + list(variant_flags)
        tmp = out + '.tmp%d' % os.getpid()
        run_gx(units, [os.path.join(repo, 'src'), os.path.join(repo, 'include')], tmp, fl)
        open(os.path.join(tmp, '.complete'), 'w').write('ok')
        try:
            os.rename(tmp, out)
        except OSError:
            shutil.rmtree(tmp, ignore_errors=True)
    for u in units:
        db.add_unit(os.path.join(out, os.path.basename(u) + '.json'))
    db.repo = repo
    return db


ROOT_TOKEN = '@GDSTK_TREE_ROOT@'


def unit_key(unit, repo, headers_digest, fl):
    h = hashlib.sha256()
    h.update(relpath(unit).encode())
    with open(unit, 'rb') as fh:
        h.update(hashlib.sha256(fh.read()).digest())
    h.update(headers_digest)
    h.update(' '.join(f.replace(repo, ROOT_TOKEN) for f in fl).encode())
    return h.hexdigest()[:32]


def headers_digest(repo, extra_roots=()):
    """Digest of every header a unit can include from the analysed tree (relative name + content) and of the extractor."""
    h = hashlib.sha256()
    files = header_files(repo)
    for sub in ('external/clipper',):
        d = os.path.join(repo, sub)
        if os.path.isdir(d):
            files += sorted(os.path.join(d, f) for f in os.listdir(d) if f.endswith(('.hpp', '.h')))
    for r in extra_roots:
        files += sorted(os.path.join(r, f) for f in os.listdir(r) if f.endswith(('.hpp', '.h')))
    for f in files:
        h.update(f.replace(repo, ROOT_TOKEN).encode())
        with open(f, 'rb') as fh:
            h.update(hashlib.sha256(fh.read()).digest())
    with open(GX, 'rb') as fh:
        h.update(hashlib.sha256(fh.read()).digest())
    return h.digest()


def _evict_units(udir, cap=360, min_age_s=1800):
    try:
        ents = [os.path.join(udir, f) for f in os.listdir(udir)]
        if len(ents) <= cap:
            return
        now = time.time()
        ents.sort(key=os.path.getmtime)
        for f in ents[:len(ents) - cap]:
            if now - os.path.getmtime(f) > min_age_s:
                try:
                    os.remove(f) if os.path.isfile(f) else shutil.rmtree(f, ignore_errors=True)
                except OSError:
                    pass
    except OSError:
        pass


def load(repo=None, extra_units=(), extra_roots=(), extra_flags=()):
    """Extract (or reuse content-addressed) facts for all of repo/src/*.cpp (+ extra units). The cache is per
    translation unit: the key covers the unit's bytes, every header of the tree, the flags and the extractor, with the
    tree root abstracted, so a scratch copy that differs in one .cpp re-extracts one unit. Nothing is trusted from
    the cache that the current sources do not hash to."""
    repo = os.path.abspath(repo or REPO)
    t0 = time.time()
    if not os.path.exists(GX):
        raise AnalysisBroken('extractor not built: run setup (make -C /verif)')
    units = source_units(repo) + [os.path.join(VERIF, 'inst', 'templates.cpp')] + list(extra_units)
    if len(units) < 18:
        raise AnalysisBroken('expected >= 17 translation units under %s/src, found %d' % (repo, len(units)))
    udir = os.path.join(FACTS, 'u')
    os.makedirs(udir, exist_ok=True)
    fl = flags(repo) + list(extra_flags)
    hd = headers_digest(repo, extra_roots)
    keys = {u: unit_key(u, repo, hd, fl) for u in units}
    missing = [u for u in units if not os.path.exists(os.path.join(udir, keys[u] + '.json'))]
    db = DB()
    db.cached = not missing
    texts = {}
    for attempt in range(4):
        _extract_missing(missing, repo, extra_roots, fl, keys, udir)
        # read everything now; an entry evicted by a concurrent run between the existence test and the read is extracted again
        missing = []
        for u in units:
            if u in texts:
                continue
            path = os.path.join(udir, keys[u] + '.json')
            try:
                with open(path) as fh:
                    texts[u] = fh.read()
                try:
                    os.utime(path)
                except OSError:
                    pass
            except FileNotFoundError:
                missing.append(u)
        if not missing:
            break
    if missing:
        raise AnalysisBroken('facts cache: %d unit(s) could not be read back after extraction' % len(missing))
    for u in units:
        db.add_unit(None, json.loads(texts[u].replace(ROOT_TOKEN + '/', repo + '/')))
    texts.clear()
    db.extract_s = time.time() - t0
    db.repo = repo
    from . import normal
    db.inlined_helpers = normal.inline_new_helpers(db)
    return db


def _extract_missing(missing, repo, extra_roots, fl, keys, udir):
    if missing:
        _evict_units(udir)
        _evict_units(FACTS, cap=40)
        roots = [os.path.join(repo, 'src'), os.path.join(repo, 'include')] + list(extra_roots)
        tmp = tempfile.mkdtemp(prefix='x%d.' % os.getpid(), dir=FACTS)
        try:
            run_gx(missing, roots, tmp, fl)
            for u in missing:
                src = os.path.join(tmp, os.path.basename(u) + '.json')
                with open(src) as fh:
                    text = fh.read()
                text = text.replace(repo + '/', ROOT_TOKEN + '/')
                part = os.path.join(tmp, keys[u] + '.part')
                with open(part, 'w') as fh:
                    fh.write(text)
                os.replace(part, os.path.join(udir, keys[u] + '.json'))
        finally:
            shutil.rmtree(tmp, ignore_errors=True)
