"""Path rules on the CFG: R-PAIR (handle typestate), R-LOOP (loop progress), R-NULL (nullable
use), R-ERRCHK, R-BOUND.  See DESIGN.md §3."""
from .facts import AnalysisBroken
from . import cfg as cfgmod

CALLS = ('CallExpr', 'CXXMemberCallExpr', 'CXXOperatorCallExpr')
ASSIGN_OPS = ('=', '+=', '-=', '*=', '/=', '%=', '<<=', '>>=', '&=', '|=', '^=')


def is_assign(n):
    if n.k == 'CXXOperatorCallExpr':
        return n.op in ('=', '+=', '-=', '*=', '/=') and len(n.args) == 2
    return n.k in ('BinaryOperator', 'CompoundAssignOperator') and n.op in ASSIGN_OPS


def lvalue_key(n):
    """Canonical access path of an lvalue expression (locals by decl id so shadowing is safe)."""
    if n is None:
        return None
    if n.k == 'DeclRefExpr':
        if n.dk in ('local', 'param', 'static'):
            return 'v%d:%s' % (n.d, n.n)
        return n.qn or n.n
    if n.k == 'MemberExpr':
        b = n.child('base')
        if not n.n:
            return lvalue_key(b)  # anonymous struct/union member: transparent
        arrow = n.arrow
        while b is not None and b.k == 'MemberExpr' and not b.n:
            arrow = b.arrow
            b = b.child('base')
        if b is not None and b.k == 'CXXThisExpr':
            return 'this->' + n.n
        bk = lvalue_key(b)
        if bk is None:
            return None
        return bk + ('->' if arrow else '.') + n.n
    if n.k == 'UnaryOperator' and n.op == '*':
        bk = lvalue_key(n.child('sub'))
        return None if bk is None else '*' + bk
    if n.k == 'ArraySubscriptExpr':
        bk = lvalue_key(n.child('base'))
        return None if bk is None else bk + '[]'
    if n.k == 'CXXOperatorCallExpr' and n.op == '[]':
        a = n.args
        bk = lvalue_key(a[0]) if a else None
        return None if bk is None else bk + '[]'
    if n.k == 'CXXOperatorCallExpr' and n.op in ('->', '*') and len(n.args) == 1:
        return lvalue_key(n.args[0])  # smart pointer / iterator access: transparent
    if n.k in ('CStyleCastExpr', 'ImplicitCastExpr', 'CXXStaticCastExpr', 'CXXReinterpretCastExpr'):
        return lvalue_key(n.child('sub'))
    if n.k == 'CXXThisExpr':
        return 'this'
    return None


def pretty_key(k):
    import re
    return re.sub(r'v\d+:', '', k or '?')


def null_test(cond):
    """Decode a branch condition as a null test: returns (key, true_means_null) or None."""
    if cond is None:
        return None
    n = cond
    neg = False
    while True:
        if n.k == 'UnaryOperator' and n.op == '!':
            neg = not neg
            n = n.child('sub')
            continue
        if n.k == 'ImplicitCastExpr' and n.cast in ('PointerToBoolean',):
            k = lvalue_key(n.child('sub'))
            if k is None:
                return None
            return (k, neg)  # `p` true => non-null; `!p` true => null
        if n.k == 'ImplicitCastExpr' and n.cast == 'LValueToRValue' and n.child('sub') is not None:
            n = n.child('sub')
            continue
        if n.k == 'DeclRefExpr' and n.dk == 'local' and (n.t or '').replace('const ', '') == 'bool':
            # a named test: `const bool has = (p != NULL); if (has) ...` reads as its initialiser (single definition)
            ds = [v for v in n.fn.nodes.values() if v.k == 'VarDecl' and v.d == n.d and v.child('init') is not None]
            ws = [x for x in n.fn.nodes.values() if is_assign(x) and x.child('lhs') is not None and x.child('lhs').k == 'DeclRefExpr' and x.child('lhs').d == n.d]
            if len(ds) == 1 and not ws:
                n = ds[0].child('init')
                continue
        break
    if n.k == 'BinaryOperator' and n.op in ('==', '!='):
        l, r = n.child('lhs'), n.child('rhs')
        for a, b in ((l, r), (r, l)):
            if b is not None and (b.is_null_const() or (b.k == 'IntegerLiteral' and b.cv == 0 and a is not None and '*' in (a.t or ''))):
                k = lvalue_key(a)
                if k is None:
                    return None
                is_null_when_true = (n.op == '==')
                return (k, is_null_when_true != neg)
    return None


# ------------------------------------------------------------------------------------------------
# R-PAIR

OPENERS = {'fopen'}
CLOSERS = {'fclose'}


def handle_sites(fn):
    """fopen call sites with the key they are stored into."""
    out = []
    for c in fn.calls(OPENERS):
        p = c.parent
        key = None
        if p is not None and p.k == 'VarDecl':
            key = 'v%d:%s' % (p.d, p.n)
        elif p is not None and is_assign(p) and p.child('rhs') is c:
            key = lvalue_key(p.child('lhs'))
        elif p is not None and p.k == 'InitListExpr':
            key = None
        out.append((c, key))
    return out


_cof_cache = {}


def _closes_on_false(caller, callee, idx, nargs):
    """the file-local helper `callee` closes its idx-th parameter (fclose) on every path that returns false and on no path that returns
    true - decided on the helper's CFG (a closing call dominates the false returns; no closing call reaches a true return)"""
    ck = (caller.file, callee, idx)
    if ck in _cof_cache:
        return _cof_cache[ck]
    res = False
    db = getattr(caller, 'db', None)
    hs = [h for h in (db.by_qn.get(callee, []) if db is not None else []) if h.body is not None and h.rec is None and h.file == caller.file and len(h.params) == nargs]
    if len(hs) == 1:
        h = hs[0]
        pk = 'v%d:%s' % (h.params[idx]['d'], h.params[idx]['n'])
        g = h.cfg
        closes = [c for c in h.walk() if c.k == 'CallExpr' and c.callee in CLOSERS and c.args and lvalue_key(_strip_casts(c.args[0])) == pk]
        rets = [r for r in h.walk() if r.k == 'ReturnStmt' and r.child('value') is not None]

        def lit(r):
            v = _strip_casts(r.child('value'))
            return bool(v.v) if v is not None and v.k == 'CXXBoolLiteralExpr' else None
        if closes and rets and all(lit(r) is not None for r in rets):
            ok = True
            for r in rets:
                wr = g.where_node(r)
                if lit(r) is False:
                    ok = ok and any(g.node_dominates(c, r) for c in closes)
                else:
                    for c in closes:
                        wc = g.where_node(c)
                        if wc is None or wr is None or g.path_avoiding(wc, lambda b_, i_, nid, wr=wr: (b_, i_) == wr, lambda b_, i_, nid: False) is not None:
                            ok = False
            res = ok
    _cof_cache[ck] = res
    return res


def check_handles(ctx, fn, rule='R-PAIR', returned_owner_ok=True):
    """Every exit edge of fn must not carry an Open handle. Returns number of exit edges checked."""
    g = fn.cfg
    sites = handle_sites(fn)
    if not sites:
        return 0
    keys = {}
    for c, key in sites:
        if key is None:
            ctx.violation(rule, '%s/fopen@unrecognised' % fn.qn, c.loc(), 'fopen result is not stored in a variable or field the rule can track')
            continue
        keys.setdefault(key, []).append(c)
    nexits = 0
    for key, opens in keys.items():
        open_ids = {c.id for c in opens}
        owner = None  # ref-counted owner idiom: key 'X->file'
        if key.endswith('->file'):
            owner = key[:-len('->file')]

        def transfer(n, st, key=key, open_ids=open_ids):
            if n.id in open_ids:
                return frozenset({'O', 'N'})
            if n.k == 'CallExpr' and n.callee in CLOSERS:
                a = n.args
                if a and lvalue_key(a[0]) == key:
                    new = set(st)
                    if 'O' in new:
                        new.discard('O')
                        new.add('C')
                    return frozenset(new)
            if is_assign(n) and n.op == '=' and lvalue_key(n.child('lhs')) == key:
                r = n.child('rhs')
                if r is not None and r.id in open_ids:
                    return st  # handled when the call element itself was seen (call precedes assignment)
                if r is not None and r.is_null_const():
                    if 'O' in st:
                        # overwriting an open handle loses it
                        return frozenset(set(st) | {'LOST'})
                    return frozenset({'N'})
            return st

        def refine(blk, k, succ, st, key=key, owner=owner):
            if len(blk.s) != 2 or blk.tc is None:
                return st
            cond = g.branch_cond(blk)
            nt = null_test(cond)
            if nt and nt[0] == key:
                is_null_edge = (nt[1] and k == 0) or ((not nt[1]) and k == 1)
                new = set(st)
                if is_null_edge:
                    new.discard('O')
                    if not new:
                        return None
                else:
                    new.discard('N')
                    if not new:
                        return None
                return frozenset(new)
            # `if (!helper(stream, ...)) return;` where the file-local helper closes the stream exactly on the paths on which it
            # returns false (summary computed from the helper's own CFG): on that edge the stream is closed
            hc = cond
            neg = False
            while hc is not None and ((hc.k == 'UnaryOperator' and hc.op == '!') or hc.k in ('ImplicitCastExpr',)):
                if hc.k == 'UnaryOperator':
                    neg = not neg
                hc = hc.child('sub')
            if hc is not None and hc.k == 'CallExpr' and hc.callee:
                idx = next((i_ for i_, a_ in enumerate(hc.args) if lvalue_key(_strip_casts(a_)) == key), None)
                if idx is not None and _closes_on_false(fn, hc.callee, idx, len(hc.args)):
                    false_edge = (neg and k == 0) or ((not neg) and k == 1)
                    if false_edge:
                        new = set(st)
                        if 'O' in new:
                            new.discard('O')
                            new.add('C')
                        return frozenset(new)
            if owner and cond is not None and cond.k == 'BinaryOperator' and cond.op == '==':
                l, r = cond.child('lhs'), cond.child('rhs')
                if l is not None and r is not None and lvalue_key(l) == owner + '->uses' and r.cv == 0 and k == 1:
                    # reference-counted owner: other holders keep the stream alive (side obligations
                    # are checked by check_refcount_owner)
                    new = set(st)
                    if 'O' in new:
                        new.discard('O')
                        new.add('E')
                    return frozenset(new)
            return st

        ins, edges = g.forward(frozenset({'N'}), transfer, refine)
        ctx.explored['cfg_edges'] += len(edges)
        # exits: edges into the exit block
        rets = [n for n in fn.walk() if n.k == 'ReturnStmt']
        rets.sort(key=lambda n: n.pos)
        for (b, k), st in sorted(edges.items()):
            blk = g.blocks[b]
            if blk.s[k] != g.exit:
                continue
            nexits += 1
            ret = None
            for e in reversed(blk.e):
                n = fn.nodes.get(e)
                if n is not None and n.k == 'ReturnStmt':
                    ret = n
                    break
            st2 = set(st)
            # returning the owner of the key (e.g. `return result` with key result.out) escapes it
            if ret is not None and returned_owner_ok:
                v = ret.child('value')
                vk = lvalue_key(v) if v is not None else None
                if v is not None and v.k == 'CXXConstructExpr' and v.args:
                    vk = lvalue_key(v.args[0])
                if vk and (key == vk or key.startswith(vk + '.')):
                    if 'O' in st2:
                        st2.discard('O')
                        st2.add('E')
            ordinal = rets.index(ret) if ret in rets else -1
            ikey = '%s/%s/exit:return#%d' % (fn.qn, pretty_key(key), ordinal)
            loc = ret.loc() if ret is not None else fn.loc()
            if 'O' in st2 or 'LOST' in st2:
                path = _open_path(g, fn, edges, open_ids, (b, k))
                ctx.violation(rule, ikey, loc, 'exit reached with stream `%s` still open (no fclose on this path)' % pretty_key(key), path)
            else:
                ctx.ok(rule, ikey, loc, 'stream `%s` state at exit: %s' % (pretty_key(key), ''.join(sorted(st2))))
    return nexits


def _open_path(g, fn, edges, open_ids, last_edge):
    """Witness: blocks from the fopen to the offending exit along edges whose state keeps Open."""
    # backward BFS over edges that carry 'O'
    start_blocks = set()
    for b in g.blocks.values():
        if any(e in open_ids for e in b.e):
            start_blocks.add(b.id)
    from collections import deque
    q = deque([last_edge[0]])
    par = {last_edge[0]: None}
    found = None
    while q:
        b = q.popleft()
        if b in start_blocks:
            found = b
            break
        for p in g.blocks[b].preds:
            for k, s in enumerate(g.blocks[p].s):
                if s == b and (p, k) in edges and ('O' in edges[(p, k)] or p in start_blocks) and p not in par:
                    par[p] = b
                    q.append(p)
    if found is None:
        return None
    chain = []
    cur = found
    while cur is not None:
        chain.append(cur)
        cur = par[cur]
    lines = []
    last = None
    for b in chain:
        for e in g.blocks[b].e:
            n = fn.nodes.get(e)
            if n is not None and n.l and n.l != last and n.k in ('CallExpr', 'ReturnStmt', 'BinaryOperator', 'DeclStmt', 'IfStmt', 'CXXMemberCallExpr'):
                lines.append(n.loc())
                last = n.l
    # compress
    out = []
    for x in lines:
        if not out or out[-1] != x:
            out.append(x)
    return out


def check_refcount_owner(ctx, db, rule='R-PAIR.refcount'):
    """Side obligations of the ref-counted RawSource idiom: every store `X->source = owner` is
    paired with `owner->uses++` in the same block; every `->uses--` is followed by the
    `uses == 0 -> fclose + free` diamond."""
    n = 0
    for fn in db.functions:
        for a in fn.walk():
            if is_assign(a) and a.op == '=' and a.child('lhs') is not None and a.child('lhs').k == 'MemberExpr' \
                    and a.child('lhs').n == 'source' and a.child('lhs').rec == 'gdstk::RawCell':
                r = a.child('rhs')
                rk = lvalue_key(r)
                if r is None or r.is_null_const() or rk is None:
                    continue
                n += 1
                ctx.touch(fn)
                # find uses++ on the same owner in the enclosing compound statement / case arm
                blk = a.parent
                found = False
                sibs = blk.c if blk is not None else []
                for s in sibs:
                    if s is None:
                        continue
                    for u in s.walk():
                        if u.k == 'UnaryOperator' and u.op in ('post++', '++') and lvalue_key(u.child('sub')) == rk + '->uses':
                            found = True
                ctx.check(found, rule, '%s/store-source' % fn.qn, a.loc(), 'store of RawSource into a raw cell is paired with uses++ of the same owner')
        for u in fn.walk():
            if u.k == 'UnaryOperator' and u.op in ('post--', '--'):
                k = lvalue_key(u.child('sub'))
                if k and k.endswith('->uses'):
                    owner = k[:-len('->uses')]
                    n += 1
                    ctx.touch(fn)
                    # the next statement must be if (owner->uses == 0) { fclose(owner->file); free_allocation(owner); }
                    stmt = u
                    while stmt.parent is not None and stmt.parent.k != 'CompoundStmt':
                        stmt = stmt.parent
                    comp = stmt.parent
                    ok = False
                    if comp is not None:
                        idx = comp.c.index(stmt)
                        if idx + 1 < len(comp.c):
                            nxt = comp.c[idx + 1]
                            if nxt.k == 'IfStmt':
                                c = nxt.child('cond')
                                if c.k == 'BinaryOperator' and c.op == '==' and lvalue_key(c.child('lhs')) == k and c.child('rhs').cv == 0:
                                    th = nxt.child('then')
                                    closes = any(x.k == 'CallExpr' and x.callee == 'fclose' and lvalue_key(x.args[0]) == owner + '->file' for x in th.walk())
                                    frees = any(x.k == 'CallExpr' and x.callee == 'gdstk::free_allocation' and lvalue_key(x.args[0]) == owner for x in th.walk())
                                    ok = closes and frees
                    ctx.check(ok, rule, '%s/release' % fn.qn, u.loc(), 'uses-- is followed by the `uses == 0 -> fclose + free` diamond')
    return n


# ------------------------------------------------------------------------------------------------
# R-LOOP

def written_this_fields(db):
    """Callee summaries: fields of *this that a method may write (transitively through this-calls)."""
    direct = {}
    calls = {}
    for fn in db.functions:
        w = set()
        cs = set()
        for n in fn.walk():
            tgt = None
            if is_assign(n):
                tgt = n.child('lhs')
            elif n.k == 'UnaryOperator' and n.op in ('++', '--', 'post++', 'post--'):
                tgt = n.child('sub')
            if tgt is not None and tgt.k == 'MemberExpr' and tgt.child('base') is not None and tgt.child('base').k == 'CXXThisExpr':
                w.add(tgt.n)
            if n.k == 'CXXMemberCallExpr' and n.child('obj') is not None and n.child('obj').k == 'CXXThisExpr' and n.callee:
                cs.add((n.callee, n.crec))
        direct[(fn.qn, fn.rec)] = direct.get((fn.qn, fn.rec), set()) | w
        calls[(fn.qn, fn.rec)] = calls.get((fn.qn, fn.rec), set()) | cs
    changed = True
    while changed:
        changed = False
        for k, cs in calls.items():
            for c in cs:
                add = direct.get(c, set()) - direct[k]
                if add:
                    direct[k] |= add
                    changed = True
    return direct


def cond_vars(cond):
    """Access paths read by a loop condition, plus whether it contains a call."""
    vs = set()
    has_call = False
    if cond is None:
        return vs, False
    for n in cond.walk():
        if n.k in CALLS:
            if n.k == 'CXXOperatorCallExpr' and n.op == '[]':
                pass
            else:
                has_call = True
        if n.k in ('DeclRefExpr', 'MemberExpr'):
            if n.dk in ('enum', 'func', 'global'):
                continue
            k = lvalue_key(n)
            if k:
                vs.add(k)
    return vs, has_call


def writes_of(n, summaries):
    """Access paths that evaluating node n (itself, not children) may write."""
    out = set()
    if is_assign(n):
        k = lvalue_key(n.child('lhs'))
        if k:
            out.add(k)
    elif n.k == 'UnaryOperator' and n.op in ('++', '--', 'post++', 'post--'):
        k = lvalue_key(n.child('sub'))
        if k:
            out.add(k)
    elif n.k == 'VarDecl':
        out.add('v%d:%s' % (n.d, n.n))
    elif n.k in ('CallExpr', 'CXXMemberCallExpr'):
        for a in n.args:
            a = _strip_casts(a)
            if a is not None and a.k == 'UnaryOperator' and a.op == '&':
                k = lvalue_key(a.child('sub'))
                if k:
                    out.add(k)
        # by-reference parameters: resolved through the callee's declared parameter types
        callee = n.callee
        if callee and summaries is not None:
            ptypes = summaries.get('__params__', {}).get((callee, len(n.args)))
            if ptypes:
                for a, pt in zip(n.args, ptypes):
                    if pt.endswith('&') and not pt.startswith('const '):
                        k = lvalue_key(a)
                        if k:
                            out.add(k)
        if n.k == 'CXXMemberCallExpr' and summaries is not None:
            o = n.child('obj')
            ok_ = lvalue_key(o)
            fields = summaries.get((n.callee, n.crec), set())
            if ok_:
                for f in fields:
                    out.add(ok_ + ('->' if n.arrow else '.') + f)
                    out.add(ok_ + ('.' if n.arrow else '->') + f)  # alias through pointer/ref spelling
    return out


def build_summaries(db):
    s = dict(written_this_fields(db))
    params = {}
    for fn in db.functions:
        params.setdefault((fn.qn, len(fn.params)), [p['t'] for p in fn.params])
    s['__params__'] = params
    return s


def check_loops(ctx, fn, summaries, rule='R-LOOP', _depth=0):
    """Every loop: on every path from the head back to the head, something the condition reads is
    written (or the condition itself has side effects / calls); condition-less loops need an exit."""
    g = fn.cfg
    count = 0
    put_back = set()
    for L in cfgmod.loops(fn):
        if L.id < 0:
            # a loop that N-INLINE / N-LAMBDA put back from a helper has no blocks in this function's CFG: it is decided in
            # the helper's own CFG below
            put_back.add(L.j.get('orig'))
            continue
        count += 1
        cond = L.child('cond')
        ikey = '%s/loop@%s' % (fn.qn, _loop_ordinal(fn, L))
        body_nodes = list(L.child('body').walk()) if L.child('body') is not None else []
        if cond is None or (cond.k == 'CXXBoolLiteralExpr' and cond.v) or (cond.cv not in (None, 0) and not cond_vars(cond)[0]):
            exits = [n for n in body_nodes if n.k in ('ReturnStmt', 'GotoStmt') or (n.k == 'BreakStmt' and _break_target(n) is L)]
            ctx.check(bool(exits), rule, ikey, L.loc(), 'condition-less loop has an exit statement (%d)' % len(exits))
            continue
        vs, has_call = cond_vars(cond)
        # side effects inside the condition itself
        self_w = set()
        for n in cond.walk():
            self_w |= writes_of(n, summaries)
        if self_w & vs or has_call:
            ctx.ok(rule, ikey, L.loc(), 'condition has side effects / calls (%s)' % ', '.join(sorted(pretty_key(x) for x in (self_w & vs))) or 'call')
            continue
        # must-analysis over the loop region of the CFG
        region_ids = {n.id for n in L.walk()}
        # head block = block whose terminator is this loop statement
        heads = [b for b in g.blocks.values() if b.t == L.id and b.tk in ('ForStmt', 'WhileStmt', 'DoStmt')]
        if not heads:
            ctx.violation(rule, ikey, L.loc(), 'loop head block not found (unrecognised)')
            continue
        head = heads[-1] if L.k != 'DoStmt' else heads[0]
        # the condition may span several blocks (&&, ||): all blocks containing condition nodes
        cond_ids = {n.id for n in cond.walk()}
        cond_blocks = {b.id for b in g.blocks.values() if any(e in cond_ids for e in b.e)}
        entry_blocks = set()
        for cb in cond_blocks:
            blk = g.blocks[cb]
            for k, s in enumerate(blk.s):
                if s is None or blk.u[k] or s in cond_blocks:
                    continue
                # successor inside the loop body?
                sb = g.blocks[s]
                inside = any(e in region_ids for e in sb.e) or (sb.t in region_ids if sb.t else False) or _is_loopback_target(g, s, cond_blocks)
                if inside and not _leaves_loop(g, fn, s, region_ids, cond_blocks):
                    entry_blocks.add(s)
        # DFS from body entry to any cond block; track modified flag (must = AND over paths)
        bad_path = _find_unmodified_cycle(g, fn, entry_blocks, cond_blocks, region_ids, vs, summaries)
        if bad_path is None:
            ctx.ok(rule, ikey, L.loc(), 'every path back to the condition writes one of {%s}' % ', '.join(sorted(pretty_key(v) for v in vs)))
        else:
            ctx.violation(rule, ikey, L.loc(), 'a path returns to the loop condition without writing any of {%s}: the loop cannot terminate once entered on that path'
                          % ', '.join(sorted(pretty_key(v) for v in vs)), bad_path)
    if put_back and _depth < 3:
        db = getattr(ctx, 'db', None)
        for h in (db.functions if db is not None else []):
            if h is not fn and h.body is not None and h.file == fn.file and (getattr(h, 'is_lambda', False) or h.linkage in ('static', 'inline')) and h.rec is None \
                    and any(n.id in put_back for n in h.body.walk() if n.k in ('ForStmt', 'WhileStmt', 'DoStmt')):
                count += check_loops(ctx, h, summaries, rule, _depth + 1)
    return count


def _loop_ordinal(fn, L):
    ls = cfgmod.loops(fn)
    return '%d:%s' % (ls.index(L), L.k)


def _break_target(n):
    for a in n.ancestors():
        if a.k in ('ForStmt', 'WhileStmt', 'DoStmt', 'SwitchStmt'):
            return a
    return None


def _is_loopback_target(g, s, cond_blocks):
    return False


def _leaves_loop(g, fn, s, region_ids, cond_blocks):
    """True if block s is outside the loop (the false edge of the condition)."""
    sb = g.blocks[s]
    ids = list(sb.e) + ([sb.t] if sb.t else [])
    if not ids:
        # empty block: decide by successors (e.g. loop-back block or join)
        return not any(x in cond_blocks for x in g.succs(s)) and not _reaches(g, s, cond_blocks, limit=3)
    return not any(i in region_ids for i in ids)


def _reaches(g, s, targets, limit):
    seen = {s}
    fr = [s]
    for _ in range(limit):
        nx = []
        for x in fr:
            for y in g.succs(x):
                if y in targets:
                    return True
                if y not in seen:
                    seen.add(y)
                    nx.append(y)
        fr = nx
    return False


def _find_unmodified_cycle(g, fn, entries, cond_blocks, region_ids, vs, summaries):
    """Search a path entry -> cond block on which nothing in vs is written and which passes no exit test fed by this
    iteration. An exit test is a two-way branch inside the loop with one edge from which the head is no longer
    reachable inside the loop (break / return), whose condition calls something or reads a variable written earlier
    on the path: `while (true) { r = next(); if (r) break; }` and `while (!done) { r = next(); if (r) break; }` are the
    same loop. Returns location list."""
    def in_loop(s):
        sb = g.blocks[s]
        ids = list(sb.e) + ([sb.t] if sb.t else [])
        return not (ids and not any(i in region_ids for i in ids)) and s != g.exit
    body = set()
    st = [e for e in entries]
    while st:
        b = st.pop()
        if b in body or b in cond_blocks:
            continue
        body.add(b)
        for s in g.succs(b):
            if s not in cond_blocks and in_loop(s):
                st.append(s)
    back = set()
    grew = True
    while grew:
        grew = False
        for b in body:
            if b not in back and any(s in cond_blocks or s in back for s in g.succs(b)):
                back.add(b)
                grew = True
    stack = [(e, [e], frozenset()) for e in entries]
    seen = set()
    while stack:
        b, path, written = stack.pop()
        if (b, written) in seen:
            continue
        seen.add((b, written))
        if len(seen) > 20000:
            return [fn.loc()]
        blk = g.blocks[b]
        wrote = False
        w2 = set(written)
        for n in g.elements(blk):
            w = writes_of(n, summaries)
            if w & vs:
                wrote = True
                break
            w2 |= w
        if wrote:
            continue
        written = frozenset(w2)
        if len(blk.s) == 2 and blk.tc is not None and b in body:
            ss = [s for s, u in zip(blk.s, blk.u) if s is not None and not u]
            stays = [s for s in ss if s in cond_blocks or s in back]
            if len(ss) == 2 and len(stays) == 1:
                cnd = g.branch_cond(blk)
                if cnd is not None:
                    cv, has_call = cond_vars(cnd)
                    if has_call or (cv & written):
                        continue        # this iteration's outcome decides an exit: progress is tested on this path
        for s in g.succs(b):
            if s in cond_blocks:
                # loop-back reached unmodified
                locs = []
                for pb in path:
                    for e in g.blocks[pb].e:
                        n = fn.nodes.get(e)
                        if n is not None and n.l and (not locs or locs[-1] != n.loc()):
                            locs.append(n.loc())
                return locs or [fn.loc()]
            sb = g.blocks[s]
            ids = list(sb.e) + ([sb.t] if sb.t else [])
            if ids and not any(i in region_ids for i in ids):
                continue  # left the loop
            if s == g.exit:
                continue
            stack.append((s, path + [s], written))
    return None


# ------------------------------------------------------------------------------------------------
# R-REEXAMINE

def check_reexamine(ctx, fn, rule='R-REEXAMINE'):
    """`a.remove_unordered(i)` moves the last element into slot i. In a loop that walks the array by the index i, the element that
    arrives there must be looked at too: on every CFG path from the removal back to the loop test the index ends up where it was
    (it is not advanced, or an advance is compensated: `remove_unordered(i--)` ... `i++`). Any spelling of the loop."""
    g = fn.cfg
    count = 0
    for c in fn.walk():
        if c.k != 'CXXMemberCallExpr' or not (c.callee or '').endswith('::remove_unordered') or not c.args or c.id < 0:
            continue
        a0 = _strip_casts(c.args[0])
        pre = 0
        while a0 is not None and a0.k in ('ParenExpr',):
            a0 = _strip_casts(a0.c[0])
        if a0 is not None and a0.k == 'UnaryOperator' and a0.op in ('post--', 'post++', '--', '++'):
            pre = 1 if '+' in a0.op else -1
            a0 = _strip_casts(a0.child('sub'))
        if a0 is None or a0.k != 'DeclRefExpr' or a0.dk != 'local':
            continue
        key = lvalue_key(a0)
        L = next((x for x in c.ancestors() if x.k in ('ForStmt', 'WhileStmt', 'DoStmt')), None)
        if L is None or L.id < 0 or L.child('cond') is None or key not in cond_vars(L.child('cond'))[0]:
            continue
        # the array walked by i in this loop is the one the element is removed from
        count += 1
        ikey = '%s/remove_unordered(%s)@%d' % (fn.qn, a0.n, c.l)
        cond_ids = {n.id for n in L.child('cond').walk()}
        cond_blocks = {b.id for b in g.blocks.values() if any(e in cond_ids for e in b.e)}
        region_ids = {n.id for n in L.walk()}
        w = g.where_node(c)
        if w is None or not cond_blocks:
            ctx.violation(rule, ikey, c.loc(), 'removal site not found in the CFG (unrecognised)')
            continue

        def delta_of(n):
            if n.k == 'UnaryOperator' and n.op in ('++', 'post++', '--', 'post--') and lvalue_key(_strip_casts(n.child('sub'))) == key:
                return 1 if '+' in n.op else -1
            if n.k == 'CompoundAssignOperator' and n.op in ('+=', '-=') and lvalue_key(_strip_casts(n.child('lhs'))) == key:
                v = _strip_casts(n.child('rhs')).cv
                return None if v is None else (v if n.op == '+=' else -v)
            if is_assign(n) and n.op == '=' and lvalue_key(_strip_casts(n.child('lhs'))) == key:
                return None
            return 0
        bad = None
        start_blk = g.blocks[w[0]]
        d0 = 0
        unknown = False
        passed = False
        for n in g.elements(start_blk):
            if n.id == c.id:
                passed = True
                continue
            if passed:
                dd = delta_of(n)
                if dd is None:
                    unknown = True
                else:
                    d0 += dd
        # (a post-decrement inside the argument is evaluated before the call element)
        d0 += pre
        seen = set()
        stack = [(s_, d0) for s_ in g.succs(w[0])]
        if w[0] in cond_blocks:
            stack = []
            bad = None if d0 == 0 and not unknown else d0
        while stack and bad is None and not unknown:
            b, d = stack.pop()
            if (b, d) in seen or len(seen) > 5000:
                continue
            seen.add((b, d))
            if b in cond_blocks:
                if d != 0:
                    bad = d
                continue
            blk = g.blocks[b]
            ids = list(blk.e) + ([blk.t] if blk.t else [])
            if (ids and not any(i_ in region_ids for i_ in ids)) or b == g.exit:
                continue        # left the loop
            for n in g.elements(blk):
                dd = delta_of(n)
                if dd is None:
                    unknown = True
                    break
                d += dd
            for s_ in g.succs(b):
                stack.append((s_, d))
        ctx.check(bad is None and not unknown, rule, ikey, c.loc(), 'after the removal the same index is examined again on every path back to the loop test',
                  'after `%s` the index `%s` %s before the loop test is reached: the element that remove_unordered moved into that slot is never looked at' % (c.text()[:50], a0.n, 'is reassigned' if unknown else ('has advanced by %s' % bad)))
    return count


# ------------------------------------------------------------------------------------------------
# R-NULL

NONNULL_ARGS = {'memcmp': (0, 1), 'memcpy': (0, 1), 'memmove': (0, 1), 'strlen': (0,), 'strcmp': (0, 1),
                'strncmp': (0, 1), 'strcpy': (0, 1), 'fputs': (0,), 'fwrite': (0,)}


def nullable_functions(db):
    """Functions with a pointer return type that may return NULL (syntactic summary)."""
    out = {}
    for fn in db.functions:
        if '*' not in (fn.ret or ''):
            continue
        nullvars = set()
        for n in fn.walk():
            if is_assign(n) and n.op == '=' and n.child('rhs') is not None and n.child('rhs').is_null_const():
                k = lvalue_key(n.child('lhs'))
                if k:
                    nullvars.add(k)
            if n.k == 'VarDecl' and n.child('init') is not None and n.child('init').is_null_const():
                nullvars.add('v%d:%s' % (n.d, n.n))
        for r in fn.walk():
            if r.k != 'ReturnStmt':
                continue
            v = r.child('value')
            if v is None:
                continue
            if v.is_null_const() or lvalue_key(v) in nullvars:
                out[fn.qn] = r.loc()
    return out


def deref_uses(n):
    """If node n dereferences a pointer expression, return the list of pointer operand nodes."""
    out = []
    if n.k == 'MemberExpr' and n.arrow:
        out.append(n.child('base'))
    elif n.k == 'UnaryOperator' and n.op == '*':
        out.append(n.child('sub'))
    elif n.k == 'ArraySubscriptExpr':
        out.append(n.child('base'))
    elif n.k == 'CallExpr' and n.callee in NONNULL_ARGS:
        a = n.args
        for i in NONNULL_ARGS[n.callee]:
            if i < len(a):
                x = a[i]
                while x is not None and x.k in ('ImplicitCastExpr', 'CStyleCastExpr') and x.cast in ('BitCast', 'NoOp'):
                    x = x.child('sub')
                out.append(x)
    return [o for o in out if o is not None]


def believed_nullable(fn):
    """Access paths that the function itself compares with NULL somewhere (its own belief that they
    can be null — Engler-style)."""
    out = set()
    for n in fn.walk():
        nt = None
        if n.k == 'ImplicitCastExpr' and n.cast == 'PointerToBoolean':
            nt = null_test(n)
        elif n.k == 'BinaryOperator' and n.op in ('==', '!='):
            nt = null_test(n)
        if nt:
            out.add(nt[0])
    return out


def check_nullable_uses(ctx, fn, nullable, rule='R-NULL', seeds_next=False):
    """Forward nullness analysis. State = (maybe-null {(key, strength)}, proven-non-null keys);
    join = (union, intersection). Strong seeds: results of nullable callees. Weak seeds: NULL
    constants and (when seeds_next) `->next` loads whose access path is not proven non-null.
    A dereference / nonnull-argument use of a maybe-null key is a violation when the taint is
    strong, or weak and the function itself null-tests that key somewhere (check-then-use
    contradiction). Surviving a dereference proves non-null."""
    g = fn.cfg
    believed = believed_nullable(fn)

    def kill(keys, key):
        return {k for k in keys if not (k == key or k.startswith(key + '->') or k.startswith(key + '.'))}

    def strength(rhs, st):
        """None = not maybe-null; 'S' / 'W' otherwise."""
        if rhs is None:
            return None
        x = rhs
        while x.k in ('CStyleCastExpr', 'ImplicitCastExpr', 'CXXStaticCastExpr', 'CXXReinterpretCastExpr') and x.child('sub') is not None:
            if x.is_null_const():
                return 'W'
            x = x.child('sub')
        if x.is_null_const():
            return 'W'
        if x.k in ('CallExpr', 'CXXMemberCallExpr') and x.callee in nullable:
            return 'S'
        k = lvalue_key(x)
        if k:
            for (kk, stg) in st[0]:
                if kk == k:
                    return 'B' if (stg == 'W' and k in believed) else stg
        if seeds_next and x.k == 'MemberExpr' and x.n == 'next' and not (k and k in st[1]):
            # a list tail; 'B' when this function itself null-tests that very access path
            return 'B' if (k and k in believed) else 'W'
        return None

    def assign(st, key, rhs):
        mn, nn = st
        mn2 = {(k, s_) for (k, s_) in mn if not (k == key or k.startswith(key + '->') or k.startswith(key + '.'))}
        nn2 = kill(nn, key)
        sg = strength(rhs, st)
        if sg:
            mn2.add((key, sg))
        elif rhs is not None:
            rk = lvalue_key(_strip_casts(rhs))
            if rk and rk in nn:
                nn2.add(key)
        return (frozenset(mn2), frozenset(nn2))

    def transfer(n, st):
        if n.k == 'VarDecl':
            return assign(st, 'v%d:%s' % (n.d, n.n), n.child('init'))
        if is_assign(n) and n.op == '=':
            key = lvalue_key(n.child('lhs'))
            if key:
                return assign(st, key, n.child('rhs'))
        us = deref_uses(n)
        if us:
            mn, nn = st
            for p in us:
                key = lvalue_key(p)
                if key:
                    mn = frozenset((k, s_) for (k, s_) in mn if k != key)
                    nn = nn | {key}
            return (frozenset(mn), frozenset(nn))
        return st

    def refine(blk, k, succ, st):
        if len(blk.s) != 2 or blk.tc is None:
            return st
        cond = g.branch_cond(blk)
        nt = null_test(cond)
        if nt:
            key, true_null = nt
            nonnull_edge = (true_null and k == 1) or ((not true_null) and k == 0)
            mn, nn = st
            if nonnull_edge:
                return (frozenset((kk, s_) for (kk, s_) in mn if kk != key), frozenset(nn | {key}))
            else:
                return (mn, frozenset(nn - {key}))
        return st

    def join(a, b):
        return (a[0] | b[0], a[1] & b[1])

    ins, edges = g.forward((frozenset(), frozenset()), transfer, refine, join)
    ctx.explored['cfg_edges'] += len(edges)
    reported = set()
    for b, st in ins.items():
        blk = g.blocks[b]
        for n in g.elements(blk):
            for p in deref_uses(n):
                key = lvalue_key(p)
                if key is None:
                    continue
                sg = None
                for (kk, s_) in st[0]:
                    if kk == key and (sg is None or s_ in ('S', 'B')):
                        sg = s_
                bad = sg in ('S', 'B') or (sg == 'W' and key in believed)
                if bad and (n.id, key) not in reported:
                    reported.add((n.id, key))
                    why = 'result of a callee that can return NULL' if sg == 'S' else 'can hold NULL / a list tail here, and this function itself null-tests it elsewhere'
                    ctx.violation(rule, '%s/use:%s@%s' % (fn.qn, pretty_key(key), _use_desc(n)), n.loc(),
                                  '`%s` may be NULL here (%s) and is dereferenced / passed to a nonnull parameter by `%s`' % (pretty_key(key), why, n.text()[:80]))
                elif not bad and (key in believed or sg is None) and _was_seeded(fn, key, nullable, seeds_next) and key in believed:
                    if (n.id, key) not in reported:
                        reported.add((n.id, key))
                        ctx.ok(rule, '%s/use:%s@%s#%d' % (fn.qn, pretty_key(key), _use_desc(n), n.id), n.loc(), 'use of possibly-null `%s` is guarded on every path' % pretty_key(key))
            st = transfer(n, st)
    return len(reported)


def _strip_casts(x):
    while x is not None and x.k in ('CStyleCastExpr', 'ImplicitCastExpr', 'CXXStaticCastExpr', 'CXXReinterpretCastExpr') and x.child('sub') is not None:
        x = x.child('sub')
    return x


_seed_cache = {}


def _was_seeded(fn, key, nullable, seeds_next):
    ck = (id(fn), seeds_next)
    if ck not in _seed_cache:
        s = set()
        for n in fn.walk():
            rhs = None
            k = None
            if n.k == 'VarDecl' and n.child('init') is not None:
                rhs, k = n.child('init'), 'v%d:%s' % (n.d, n.n)
            elif is_assign(n) and n.op == '=':
                rhs, k = n.child('rhs'), lvalue_key(n.child('lhs'))
            if rhs is None or k is None:
                continue
            x = _strip_casts(rhs)
            if rhs.is_null_const() or (x is not None and (x.is_null_const() or (x.k in ('CallExpr', 'CXXMemberCallExpr') and x.callee in nullable)
                                                          or (seeds_next and x.k == 'MemberExpr' and x.n == 'next') or x.k == 'DeclRefExpr')):
                s.add(k)
        _seed_cache[ck] = s
    return key in _seed_cache[ck]


def _use_desc(n):
    if n.k == 'CallExpr':
        return n.callee
    if n.k == 'MemberExpr':
        return '->' + (n.n or '')
    return n.k


# ------------------------------------------------------------------------------------------------
# R-ERRCHK

def check_error_checked(ctx, fn, callee, rule='R-ERRCHK'):
    """Between a call to `callee` (result r, record buffer b) and the next such call, b - or a pointer
    derived from it - is only read where r == ErrorCode::NoError has been established: forward
    dataflow over the CFG with the status of the last read (N: none or checked, U: unchecked,
    X: unchecked and r overwritten, E: failed); comparisons of r with NoError refine it on their
    edges, whatever statement form they are written in."""
    g = fn.cfg
    sites = []
    rvars = {}
    bufkeys = set()
    for c in fn.calls(callee):
        p = c.parent
        var = None
        if p is not None and p.k == 'VarDecl':
            var = 'v%d:%s' % (p.d, p.n)
        elif p is not None and is_assign(p) and p.op == '=':
            var = lvalue_key(p.child('lhs'))
        sites.append((c, var))
        if var:
            rvars.setdefault(var, set()).add(c.id)
        if len(c.args) > 1:
            for x in c.args[1].walk():
                if x.k == 'DeclRefExpr' and lvalue_key(x):
                    bufkeys.add(lvalue_key(x))
    if not sites:
        return 0
    # pointers derived from the buffer
    grew = True
    while grew:
        grew = False
        for n in fn.walk():
            tgt = src = None
            if n.k == 'VarDecl' and n.child('init') is not None and '*' in (n.t or ''):
                tgt, src = 'v%d:%s' % (n.d, n.n), n.child('init')
            elif is_assign(n) and n.op == '=' and '*' in (n.child('lhs').t or ''):
                tgt, src = lvalue_key(n.child('lhs')), n.child('rhs')
            if tgt and tgt not in bufkeys and any(x.k == 'DeclRefExpr' and lvalue_key(x) in bufkeys for x in src.walk()):
                bufkeys.add(tgt)
                grew = True
    index = {c.id: i for i, (c, _) in enumerate(sites)}

    def is_noerror(x):
        x = _strip_casts(x)
        return x is not None and (x.qn or '').endswith('ErrorCode::NoError')

    def tested(cond):
        """(result variable or call id, True when the condition holds on success)"""
        c = _strip_casts(cond)
        while c is not None and c.k == 'ParenExpr':
            c = _strip_casts(c.c[0])
        neg = False
        while c is not None and c.k == 'UnaryOperator' and c.op == '!':
            neg = not neg
            c = _strip_casts(c.child('sub'))
            while c is not None and c.k == 'ParenExpr':
                c = _strip_casts(c.c[0])
        if c is None or c.k != 'BinaryOperator' or c.op not in ('==', '!='):
            return None
        l, r = _strip_casts(c.child('lhs')), _strip_casts(c.child('rhs'))
        if is_noerror(l):
            l, r = r, l
        if not is_noerror(r) or l is None:
            return None
        while l.k == 'ParenExpr':
            l = _strip_casts(l.c[0])
        ok_when_true = (c.op == '==') != neg
        if l.k in ('CallExpr',) and l.id in index:
            return (('call', l.id), ok_when_true)
        if is_assign(l) and l.op == '=' and lvalue_key(l.child('lhs')) in rvars:
            return (('var', lvalue_key(l.child('lhs'))), ok_when_true)
        k = lvalue_key(l)
        if k in rvars:
            return (('var', k), ok_when_true)
        return None

    def _mine(i, kind, what):
        return ((kind == 'call' and index.get(what) == i) or (kind == 'var' and sites[i][1] == what)) if i is not None else False

    def transfer(n, st):
        if n.k == 'CallExpr' and n.id in index:
            return frozenset({('U', index[n.id])})
        key = None
        if n.k == 'VarDecl' and n.child('init') is not None and (n.ct or n.t or '').replace('const ', '').strip() == 'bool':
            # a named condition `bool failed = (r != NoError);`: branching on it later is that comparison, for the reads pending now
            t_ = tested(n.child('init'))
            if t_ is not None:
                (kind_, what_), okt_ = t_
                pend = tuple(sorted(i for (s, i) in st if s == 'U' and _mine(i, kind_, what_)))
                return frozenset([x for x in st if not (x[0] == 'B' and x[1][0] == n.d)] + [('B', (n.d, kind_, what_, okt_, pend))])
        if n.k == 'VarDecl' and n.child('init') is not None:
            key, rhs = 'v%d:%s' % (n.d, n.n), n.child('init')
        elif (is_assign(n) and n.op == '=') or n.k == 'CompoundAssignOperator':
            key, rhs = lvalue_key(n.child('lhs')), n.child('rhs')
        if key in rvars:
            r0 = _strip_casts(rhs)
            if not (r0 is not None and r0.k == 'CallExpr' and r0.id in index):
                # the result variable now holds something else: the pending read can no longer be vouched for by it
                return frozenset((('X', i) if s in ('U',) else (s, i)) for (s, i) in st if s != 'B')
        return st

    def refine(blk, k, succ, st):
        if len(blk.s) != 2 or blk.tc is None:
            return st
        bc = g.branch_cond(blk)
        t = tested(bc)
        only = None
        if t is None:
            c0, neg0 = _strip_casts(bc), False
            while c0 is not None and (c0.k == 'ParenExpr' or (c0.k == 'UnaryOperator' and c0.op == '!')):
                if c0.k == 'UnaryOperator':
                    neg0 = not neg0
                    c0 = _strip_casts(c0.child('sub'))
                else:
                    c0 = _strip_casts(c0.c[0])
            if c0 is not None and c0.k == 'DeclRefExpr' and c0.dk == 'local':
                b_ = next((x[1] for x in st if x[0] == 'B' and x[1][0] == c0.d), None)
                if b_ is not None:
                    t, only = ((b_[1], b_[2]), b_[3] != neg0), set(b_[4])
        if t is None:
            return st
        (kind, what), ok_when_true = t
        success_edge = (k == 0) == ok_when_true
        out = set()
        for (s, i) in st:
            if s == 'B':
                out.add((s, i))
                continue
            mine = _mine(i, kind, what) and (only is None or i in only)
            if s == 'U' and mine:
                out.add(('N', None) if success_edge else ('E', i))
            elif s == 'E' and mine:
                if not success_edge:
                    out.add((s, i))
            else:
                out.add((s, i))
        return frozenset(out) if out else None

    ins, edges = g.forward(frozenset({('N', None)}), transfer, refine)
    ctx.explored['cfg_edges'] += len(edges)
    bad = {}
    for b, st in ins.items():
        for n in g.elements(g.blocks[b]):
            if n.k == 'DeclRefExpr' and lvalue_key(n) in bufkeys and not any(a.k == 'CallExpr' and a.id in index for a in n.ancestors()):
                # forming a pointer into the buffer reads nothing
                par = n.parent
                decl = next((a for a in n.ancestors() if a.k in ('VarDecl',) or (is_assign(a) and a.op == '=')), None)
                if not (decl is not None and ((decl.k == 'VarDecl' and 'v%d:%s' % (decl.d, decl.n) in bufkeys) or
                                              (decl.k != 'VarDecl' and lvalue_key(decl.child('lhs')) in bufkeys and n.pos > decl.child('lhs').pos))):
                    for (s, i) in st:
                        if s not in ('N', 'B'):
                            bad.setdefault(i, (n, s))
            st = transfer(n, st)
    for i, (c, var) in enumerate(sites):
        ikey = '%s/call:%s#%d' % (fn.qn, callee.split('::')[-1], i)
        if i in bad:
            n, s = bad[i]
            why = {'U': 'before the result of the read has been compared with ErrorCode::NoError',
                   'X': 'after the result of the read was overwritten unchecked',
                   'E': 'on a path where the read has failed'}[s]
            ctx.violation(rule, ikey, n.loc(), 'the record buffer is used (`%s`) %s' % ((n.parent.text() if n.parent is not None else n.text())[:60], why))
        else:
            ctx.ok(rule, ikey, c.loc(), 'result compared with NoError on every path before the buffer is used; failing paths never read it')
    return len(sites)


# ------------------------------------------------------------------------------------------------
# R-BOUND

def check_bounded_copies(ctx, fn, db, rule='R-BOUND'):
    """memcpy/memmove into a fixed-size object (address of a local/field struct or array): length
    must be a constant <= sizeof(dest), or dominated by a comparison bounding it."""
    cnt = 0
    for c in fn.calls({'memcpy', 'memmove'}):
        a = c.args
        if len(a) < 3:
            continue
        d = a[0]
        while d.k in ('ImplicitCastExpr', 'CStyleCastExpr') and d.child('sub') is not None:
            d = d.child('sub')
        size = None
        dname = None
        if d.k == 'UnaryOperator' and d.op == '&':
            tgt = d.child('sub')
            t = tgt.ct or tgt.t
            size = _sizeof_type(db, t)
            dname = tgt.text()
        elif d.k in ('DeclRefExpr', 'MemberExpr') and '[' in (d.ct or d.t or ''):
            size = _sizeof_type(db, d.ct or d.t)
            dname = d.text()
        if size is None:
            continue
        cnt += 1
        ikey = '%s/%s:%s' % (fn.qn, c.callee, dname)
        ln = a[2]
        while ln.k == 'ImplicitCastExpr' and ln.child('sub') is not None and ln.cv is None:
            ln = ln.child('sub')
        if ln.cv is not None:
            ctx.check(ln.cv <= size, rule, ikey, c.loc(), 'constant length %d <= sizeof(%s) = %d' % (ln.cv, dname, size))
            continue
        # dominated by a bound test on the same length expression
        lk = ln.text()
        bounded = False
        g = fn.cfg
        for n in fn.walk():
            if n.k == 'BinaryOperator' and n.op in ('<=', '<', '>', '>=', '==', '!='):
                l, r = n.child('lhs'), n.child('rhs')
                for x, y, op in ((l, r, n.op), (r, l, {'<': '>', '>': '<', '<=': '>=', '>=': '<=', '==': '==', '!=': '!='}[n.op])):
                    if x is not None and y is not None and lk and lk in x.text() and y.cv is not None:
                        # find guarded edge: which branch implies x <= const
                        if _bound_dominates(g, fn, n, op, c, y.cv, x, ln, size):
                            bounded = True
        ctx.check(bounded, rule, ikey, c.loc(), 'non-constant length `%s` is bounded by sizeof(%s) = %d on every path to the copy' % (lk, dname, size),
                  'length `%s` copied into %s (sizeof = %d) is not bounded by a dominating comparison' % (lk, dname, size))
    return cnt


def _sizeof_type(db, t):
    import re
    if t is None:
        return None
    m = re.match(r'^(.*)\[(\d+)\]$', t.strip())
    if m:
        base = _sizeof_type(db, m.group(1).strip())
        return None if base is None else base * int(m.group(2))
    prim = {'char': 1, 'unsigned char': 1, 'signed char': 1, 'uint8_t': 1, 'int8_t': 1, 'short': 2, 'unsigned short': 2,
            'uint16_t': 2, 'int16_t': 2, 'int': 4, 'unsigned int': 4, 'uint32_t': 4, 'int32_t': 4, 'long': 8,
            'unsigned long': 8, 'uint64_t': 8, 'int64_t': 8, 'double': 8, 'float': 4, 'bool': 1}
    if t in prim:
        return prim[t]
    r = db.records.get(t) or db.records.get('gdstk::' + t)
    if r and r.get('size'):
        return r['size']
    return None


def _bound_dominates(g, fn, cmp_node, op, use, const, x, ln, size):
    """cmp (x op const) must select, on the edge that dominates `use`, x <= something making
    len <= size. Handles x == len (len op const) and x == len - k patterns conservatively: only
    the exact forms `len <= C`, `len < C`, `len == C`, and their negations on the other edge."""
    if x.text() != ln.text():
        return False
    wb = g.where_node(cmp_node)
    wu = g.where_node(use)
    if wb is None or wu is None:
        return False
    blk = g.blocks[wb[0]]
    if blk.tc != cmp_node.id or len(blk.s) != 2:
        return False
    # which edge implies the bound?
    implied = {'<=': (0, const), '<': (0, const - 1), '==': (0, const), '>': (1, const), '>=': (1, const - 1), '!=': (1, const)}
    edge, bound = implied[op]
    if bound > size:
        return False
    tgt = blk.s[edge]
    other = blk.s[1 - edge]
    if tgt is None:
        return False
    # the use must be dominated by tgt and not reachable from `other` without passing tgt
    if wu[0] == tgt or (wu[0] in g.dom and tgt in g.dom[wu[0]]):
        # ensure tgt is only entered through this edge
        return g.blocks[tgt].preds == [blk.id] or all(p == blk.id for p in g.blocks[tgt].preds)
    # alternative: other edge leaves (return/break) so everything after is guarded
    if other is not None:
        ob = g.blocks[other]
        # other branch must not reach the use
        seen = {other}
        st = [other]
        while st:
            y = st.pop()
            if y == wu[0]:
                return False
            for s in g.succs(y):
                if s not in seen:
                    seen.add(s)
                    st.append(s)
        return True
    return False


def check_dangling(ctx, fn, rule='R-PAIR.dangling', releasers=('gdstk::free_allocation', 'free')):
    """After `free_allocation(p)` (p a pointer local or parameter) no path reads p again - returns it, passes it on,
    dereferences it or frees it a second time - without assigning it first (CFG search from the release to the next
    read of p that avoids every assignment to p). Returns the number of release sites examined."""
    g = fn.cfg
    n = 0
    for c in fn.walk():
        if c.k != 'CallExpr' or c.callee not in releasers or not c.args:
            continue
        a = _strip_casts(c.args[0])
        if a.k != 'DeclRefExpr' or a.dk not in ('local', 'param') or '*' not in (a.t or ''):
            continue
        key = lvalue_key(a)
        start = g.where_node(c)
        if start is None:
            continue
        n += 1

        def is_lhs(node):
            p = node.parent
            cur = node
            while p is not None and p.k in ('ImplicitCastExpr', 'ParenExpr'):
                cur, p = p, p.parent
            return p is not None and is_assign(p) and p.op == '=' and (p.child('lhs') is cur or _strip_casts(p.child('lhs')) is node)

        def reads(b, i, nid):
            node = fn.nodes.get(nid)
            if node is None or node.k != 'DeclRefExpr' or lvalue_key(node) != key:
                return False
            if any(x is node for x in c.walk()):
                return False          # the argument of this very release
            return not is_lhs(node)

        def assigns(b, i, nid):
            node = fn.nodes.get(nid)
            if node is None:
                return False
            if is_assign(node) and node.op == '=' and lvalue_key(node.child('lhs')) == key:
                return True
            if node.k == 'DeclStmt' and any(v is not None and v.k == 'VarDecl' and 'v%d:%s' % (v.d, v.n) == key for v in node.c):
                return True           # a new instance of a loop-local variable
            return False
        path = g.path_avoiding(start, reads, assigns)
        what = None
        if path is not None:
            b, i = path[-1]
            node = fn.nodes.get(g.blocks[b].e[i]) if 0 <= i < len(g.blocks[b].e) else None
            use = node
            while use is not None and use.parent is not None and use.k not in ('ReturnStmt', 'CallExpr', 'CXXMemberCallExpr', 'UnaryOperator', 'ArraySubscriptExpr', 'MemberExpr'):
                use = use.parent
            what = 'returned' if use is not None and use.k == 'ReturnStmt' else ('passed to %s' % (use.callee or 'a call') if use is not None and use.k in ('CallExpr', 'CXXMemberCallExpr') else 'read')
        ctx.check(path is None, rule, '%s/%s@%s' % (fn.qn.replace('gdstk::', ''), pretty_key(key), c.loc()), c.loc(), '`%s` is not read again after it is released' % pretty_key(key),
                  '`%s` is released here and then %s without having been reassigned (%s): the caller receives / the callee uses a dangling pointer' % (pretty_key(key), what, g.describe_path(path)[-3:] if path else ''))
    return n


# ------------------------------------------------------------------------------------------------
# R-UNDERFLOW: unsigned `list.count - c` where the list may be shorter than c

def check_count_underflow(ctx, fn, label, producers=('gdstk::Repetition::get_offsets', 'gdstk::Repetition::get_extrema'), rule='R-UNDERFLOW'):
    """A local array filled by a producer that may append NOTHING (a lattice with 0 columns or rows enumerates no offsets): every
    unsigned `array.count - c` must run under a condition that establishes array.count >= c (an enclosing test or a guard clause
    before it); otherwise the difference wraps to 2^64 - c and becomes an allocation size / loop bound."""
    from . import tables
    arrays = set()
    for c in fn.walk():
        if c.k == 'CXXMemberCallExpr' and (c.callee or '') in producers and c.args:
            k = lvalue_key(_strip_casts(c.args[0]))
            if k:
                arrays.add(k)
    n = 0
    for x in fn.walk():
        if x.k != 'BinaryOperator' or x.op != '-':
            continue
        l, r = _strip_casts(x.child('lhs')), _strip_casts(x.child('rhs'))
        lk = lvalue_key(l)
        if r is None or r.cv is None or r.cv < 1 or lk is None or not lk.endswith('.count') or lk[:-len('.count')] not in arrays:
            continue
        n += 1
        need = r.cv
        ok = False
        for cnd, pol in tables.path_conds(x):
            cn = _strip_casts(cnd)
            if cn.k == 'BinaryOperator' and cn.op in ('<', '>', '<=', '>=', '==', '!='):
                a, b = _strip_casts(cn.child('lhs')), _strip_casts(cn.child('rhs'))
                op = cn.op
                if lvalue_key(b) == lk and a.cv is not None:
                    a, b = b, a
                    op = {'<': '>', '>': '<', '<=': '>=', '>=': '<=', '==': '==', '!=': '!='}[op]
                if lvalue_key(a) == lk and b.cv is not None:
                    k_ = b.cv
                    if not pol:
                        op = {'<': '>=', '>': '<=', '<=': '>', '>=': '<', '==': '!=', '!=': '=='}[op]
                    if (op == '>' and k_ >= need - 1) or (op == '>=' and k_ >= need) or (op == '!=' and k_ == 0 and need == 1) or (op == '==' and k_ >= need):
                        ok = True
            elif lvalue_key(cn) == lk and pol and need == 1:
                ok = True
        ctx.check(ok, rule, '%s/%s-%d@%s' % (label, pretty_key(lk), need, x.loc()), x.loc(), '`%s - %d` is evaluated only where %s >= %d is established' % (pretty_key(lk), need, pretty_key(lk), need),
                  '`%s - %d` is evaluated in unsigned arithmetic although the list may be empty (a repetition with 0 columns or rows enumerates no offsets): it wraps to 2^64 - %d and is used as an allocation size / loop bound' % (pretty_key(lk), need, need))
    return n
