"""R-FRESH — scratch arrays filled by appending producers inside a loop are emptied in every iteration.
Producers append to their output argument (Repetition::get_offsets / get_extrema, *::element_center):
an array declared outside the loop and filled inside it must be reset (`A.count = 0` / `A.clear()`) in the
iteration that filled it, otherwise the next iteration also sees the previous contents."""
from .flow import lvalue_key, is_assign, _strip_casts

PRODUCERS = ('Repetition::get_offsets', 'Repetition::get_extrema', '::element_center')


def _is_reset(s, key):
    if s is None:
        return False
    if is_assign(s) and s.op == '=' and s.child('rhs') is not None and s.child('rhs').cv == 0:
        l = _strip_casts(s.child('lhs'))
        if l.k == 'MemberExpr' and l.n == 'count' and lvalue_key(_strip_casts(l.child('base'))) == key:
            return True
    if s.k == 'CXXMemberCallExpr' and (s.callee or '').endswith('::clear') and s.child('obj') is not None and lvalue_key(_strip_casts(s.child('obj'))) == key:
        return True
    return False


def check_function(ctx, fn, rule='R-FRESH'):
    n = 0
    for c in fn.walk():
        if c.k not in ('CXXMemberCallExpr', 'CallExpr') or not any((c.callee or '').endswith(p) for p in PRODUCERS):
            continue
        if not c.args:
            continue
        arr = _strip_casts(c.args[-1])
        if arr.k != 'DeclRefExpr' or arr.dk != 'local':
            continue
        key = lvalue_key(arr)
        loops = [a for a in c.ancestors() if a.k in ('ForStmt', 'WhileStmt', 'DoStmt')]
        if not loops:
            continue
        decl = next((v for v in fn.walk() if v.k == 'VarDecl' and 'v%d:%s' % (v.d, v.n) == key), None)
        if decl is None:
            continue
        # loops that enclose the call but not the declaration
        outer = [L for L in loops if not any(x is decl for x in L.walk())]
        if not outer:
            continue       # declared inside the innermost loop: fresh in every iteration
        n += 1
        L = outer[0]       # innermost loop in which the array outlives an iteration
        # statements after the call, walking outwards block by block up to the loop body
        found = False
        cur = c
        for a in c.ancestors():
            if a.k == 'CompoundStmt':
                idx = next((i for i, s in enumerate(a.c) if s is cur), None)
                if idx is not None and any(_is_reset(s, key) for s in a.c[idx + 1:]):
                    found = True
                    break
                # a reset before the call in the same block also makes the iteration start empty
                if idx is not None and any(_is_reset(s, key) for s in a.c[:idx]) and a is L.child('body'):
                    found = True
                    break
            if a is L:
                break
            cur = a
        skipping = [x for x in L.walk() if x.k == 'ContinueStmt' and x.pos > c.pos]
        ctx.check(found and not skipping, rule, '%s/%s-emptied@%s' % (fn.qn.replace('gdstk::', ''), arr.n, c.loc()), c.loc(), 'the scratch array `%s` filled by %s is emptied before the next iteration' % (arr.n, (c.callee or '').split('::')[-1]),
                  'the scratch array `%s` is filled by %s (which appends) inside a loop but not emptied in that iteration%s: the next element is expanded over stale entries as well' % (arr.n, (c.callee or '').split('::')[-1], ' (a `continue` skips the reset)' if skipping else ''))
    return n
