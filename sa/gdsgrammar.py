"""R-GRAMMAR — abstract interpretation of the GDSII writers into record-token languages.

Each writer function is interpreted structurally under every valuation of its emission-relevant
branch conditions (predicate atoms). uint16_t header buffers are tracked word by word (with a
Host/Swapped typestate), `fwrite` of a header buffer decodes the records it holds, payload writes
attach to the pending header. The result per valuation is a regular expression over record tokens
and sub-writer nonterminals, checked for inclusion in the manual's grammar (sa/regular.py)."""
import re
from . import regular as R
from . import tables, parity
from .facts import AnalysisBroken
from .flow import lvalue_key, is_assign, _strip_casts, pretty_key

# type code -> (name, data type, fixed record length or None)   [GDSII Stream Format Manual 6.0 + Raith ext.]
SPEC = {
    0x00: ('HEADER', 2, 6), 0x01: ('BGNLIB', 2, 28), 0x02: ('LIBNAME', 6, None), 0x03: ('UNITS', 5, 20), 0x04: ('ENDLIB', 0, 4),
    0x05: ('BGNSTR', 2, 28), 0x06: ('STRNAME', 6, None), 0x07: ('ENDSTR', 0, 4), 0x08: ('BOUNDARY', 0, 4), 0x09: ('PATH', 0, 4),
    0x0A: ('SREF', 0, 4), 0x0B: ('AREF', 0, 4), 0x0C: ('TEXT', 0, 4), 0x0D: ('LAYER', 2, 6), 0x0E: ('DATATYPE', 2, 6), 0x0F: ('WIDTH', 3, 8),
    0x10: ('XY', 3, None), 0x11: ('ENDEL', 0, 4), 0x12: ('SNAME', 6, None), 0x13: ('COLROW', 2, 8), 0x16: ('TEXTTYPE', 2, 6),
    0x17: ('PRESENTATION', 1, 6), 0x19: ('STRING', 6, None), 0x1A: ('STRANS', 1, 6), 0x1B: ('MAG', 5, 12), 0x1C: ('ANGLE', 5, 12),
    0x21: ('PATHTYPE', 2, 6), 0x2B: ('PROPATTR', 2, 6), 0x2C: ('PROPVALUE', 6, None), 0x2D: ('BOX', 0, 4), 0x2E: ('BOXTYPE', 2, 6),
    0x30: ('BGNEXTN', 3, 8), 0x31: ('ENDEXTN', 3, 8), 0x5A: ('RAITHMBMSPATH', 0, 4), 0x62: ('RAITHPXXDATA', 6, None),
}
ELEM_SIZE = {1: 2, 2: 2, 3: 4, 5: 8, 6: 1}

WRITERS = {
    'gdstk::properties_to_gds': 'N_properties', 'gdstk::Polygon::to_gds': 'N_boundaries', 'gdstk::FlexPath::to_gds': 'N_paths', 'gdstk::RobustPath::to_gds': 'N_paths',
    'gdstk::Reference::to_gds': 'N_refs', 'gdstk::Label::to_gds': 'N_texts', 'gdstk::Cell::to_gds': 'N_structure', 'gdstk::RawCell::to_gds': 'N_structure',
}

T = R.tok
_strans = R.seq(T('STRANS'), R.opt(T('MAG')), R.opt(T('ANGLE')))
_props = R.star(R.seq(T('PROPATTR'), T('PROPVALUE')))
_xys = R.plus(T('XY'))   # "+ext": repeated XY for more than 8190 points
GRAMMAR = {
    'N_properties': _props,
    'N_boundaries': R.star(R.seq(T('BOUNDARY'), T('LAYER'), T('DATATYPE'), _xys, T('N_properties'), T('ENDEL'))),
    'N_paths': R.star(R.seq(R.alt(T('PATH'), T('RAITHMBMSPATH')), T('LAYER'), T('DATATYPE'), R.opt(T('PATHTYPE')), R.opt(T('WIDTH')),
                            R.opt(R.seq(T('SNAME'), T('RAITHPXXDATA'))), R.opt(T('BGNEXTN')), R.opt(T('ENDEXTN')), _xys, T('N_properties'), T('ENDEL'))),
    'N_refs': R.star(R.alt(R.seq(T('SREF'), T('SNAME'), R.opt(_strans), T('XY'), T('N_properties'), T('ENDEL')),
                           R.seq(T('AREF'), T('SNAME'), R.opt(_strans), T('COLROW'), T('XY'), T('N_properties'), T('ENDEL')))),
    'N_texts': R.star(R.seq(T('TEXT'), T('LAYER'), T('TEXTTYPE'), R.opt(T('PRESENTATION')), R.opt(T('PATHTYPE')), R.opt(T('WIDTH')), R.opt(_strans), T('XY'), T('STRING'),
                            T('N_properties'), T('ENDEL'))),
    'N_structure': R.seq(T('BGNSTR'), T('STRNAME'), R.star(R.alt(T('N_boundaries'), T('N_paths'), T('N_refs'), T('N_texts'))), T('ENDSTR')),
    'N_stream': R.seq(T('HEADER'), T('BGNLIB'), T('LIBNAME'), T('UNITS'), R.star(T('N_structure')), T('ENDLIB')),
    'N_stream_prefix': R.seq(T('HEADER'), T('BGNLIB'), T('LIBNAME'), T('UNITS')),
    'N_stream_suffix': T('ENDLIB'),
}


def norm(t):
    return re.sub(r'<[A-Za-z]+:(?!:)[^>]*>', '', t).replace('gdstk::', '')


def cond_key(c):
    c = _strip_casts(c)
    if c.k == 'BinaryOperator' and c.op in ('&&', '||'):
        return '(%s %s %s)' % (cond_key(c.child('lhs')), c.op, cond_key(c.child('rhs')))
    if c.k == 'UnaryOperator' and c.op == '!':
        return '!' + cond_key(c.child('sub'))
    return tables.atom_text(c)


class NeedAtom(Exception):
    def __init__(self, key):
        self.key = key


class Interp:
    def __init__(self, fn, env):
        self.fn = fn
        self.env = env
        self.bufs = {}
        self.scal = {}
        self.swapped = {}
        self.pending = None
        self.issues = []
        self.even = set()
        self.booldef = {}
        self.records = []

    # ---- relevance -----------------------------------------------------------------------
    def relevant(self, s):
        for x in s.walk():
            if x.k == 'ReturnStmt':
                return True
            if x.k in ('CallExpr', 'CXXMemberCallExpr'):
                c = x.callee or ''
                if c == 'fwrite' or c.startswith('gdstk::big_endian_swap') or c in WRITERS:
                    return True
            if is_assign(x):
                l = _strip_casts(x.child('lhs'))
                if l.k == 'ArraySubscriptExpr' and lvalue_key(l.child('base')) in self.bufs:
                    return True
        return False

    def skip(self, s):
        """an emission-irrelevant statement is not interpreted; locals it may assign become unknown"""
        for x in s.walk():
            tgt = None
            if is_assign(x):
                tgt = _strip_casts(x.child('lhs'))
            elif x.k == 'UnaryOperator' and x.op in ('++', '--', 'post++', 'post--'):
                tgt = _strip_casts(x.child('sub'))
            if tgt is not None and tgt.k == 'DeclRefExpr':
                self.scal[lvalue_key(tgt)] = None
        return ('eps',), True

    def is_null_file_test(self, c):
        """`f == NULL` / `!f` on a FILE* (true means the open failed)"""
        c0 = _strip_casts(c)
        if c0.k == 'BinaryOperator' and c0.op == '==':
            l, r = c0.child('lhs'), c0.child('rhs')
            if 'FILE *' in ((l.t or '') + (l.ct or '')) and r.is_null_const():
                return True
            if 'FILE *' in ((r.t or '') + (r.ct or '')) and l.is_null_const():
                return True
        if c0.k == 'UnaryOperator' and c0.op == '!':
            sub = c0.child('sub')
            inner = _strip_casts(sub)
            return inner is not None and 'FILE *' in ((inner.t or '') + (inner.ct or '')) and inner.k in ('DeclRefExpr', 'MemberExpr')
        return False

    def _written_later(self, v):
        for x in self.fn.walk():
            t = None
            if is_assign(x) or x.k == 'CompoundAssignOperator':
                t = _strip_casts(x.child('lhs'))
            elif x.k == 'UnaryOperator' and x.op in ('++', '--', 'post++', 'post--', '&'):
                t = _strip_casts(x.child('sub'))
            if t is not None and t.k == 'DeclRefExpr' and t.d == v.d:
                return True
        return False

    def beval(self, c):
        """truth value of a condition from the atoms of this valuation: !, &&, || and named conditions are evaluated structurally"""
        c0 = _strip_casts(c)
        bv = self.boolval(c0)
        if bv is not None:
            return bv
        if self.is_null_file_test(c0):
            return False
        if c0.k == 'UnaryOperator' and c0.op == '!':
            return not self.beval(c0.child('sub'))
        if c0.k == 'BinaryOperator' and c0.op == '&&' and self._has_named(c0):
            return self.beval(c0.child('lhs')) and self.beval(c0.child('rhs'))
        if c0.k == 'BinaryOperator' and c0.op == '||' and self._has_named(c0):
            return self.beval(c0.child('lhs')) or self.beval(c0.child('rhs'))
        if c0.k == 'DeclRefExpr' and c0.dk == 'local' and lvalue_key(c0) in self.booldef:
            return self._beval_def(self.booldef[lvalue_key(c0)])
        key = cond_key(c0)
        if key not in self.env:
            raise NeedAtom(key)
        return self.env[key]

    def _beval_def(self, c):
        c0 = _strip_casts(c)
        if c0.k == 'BinaryOperator' and c0.op == '&&':
            return self._beval_def(c0.child('lhs')) and self._beval_def(c0.child('rhs'))
        if c0.k == 'BinaryOperator' and c0.op == '||':
            a = self._beval_def(c0.child('lhs'))       # both operands are evaluated so that the set of atoms does not depend on the valuation
            b = self._beval_def(c0.child('rhs'))
            return a or b
        if c0.k == 'UnaryOperator' and c0.op == '!':
            return not self._beval_def(c0.child('sub'))
        return self.beval(c0)

    def _has_named(self, c):
        return any(x.k == 'DeclRefExpr' and x.dk == 'local' and lvalue_key(x) in self.booldef for x in c.walk())

    def boolval(self, c):
        c = _strip_casts(c)
        if c.k == 'DeclRefExpr' and c.dk in ('local',):
            v = self.scal.get(lvalue_key(c))
            return v if isinstance(v, bool) else None
        if c.k == 'UnaryOperator' and c.op == '!':
            v = self.boolval(c.child('sub'))
            return None if v is None else (not v)
        return None

    # ---- values --------------------------------------------------------------------------
    def val(self, e):
        e = _strip_casts(e)
        if e is None:
            return None
        if e.cv is not None and e.k != 'DeclRefExpr':
            return e.cv
        if e.k == 'DeclRefExpr':
            if e.dk == 'enum':
                return e.cv
            v = self.scal.get(lvalue_key(e))
            return None if isinstance(v, bool) else v
        if e.k == 'ConditionalOperator':
            a, b = self.val(e.child('then')), self.val(e.child('else'))
            if a is None or b is None:
                return None
            if a == b:
                return a
            bv = self.boolval(e.child('cond'))
            if bv is None:
                k = cond_key(e.child('cond'))
                if k not in self.env:
                    raise NeedAtom(k)
                bv = self.env[k]
            return a if bv else b
        if e.k == 'BinaryOperator' and e.op in ('+', '-', '*', '|', '&', '<<'):
            a, b = self.val(e.child('lhs')), self.val(e.child('rhs'))
            if a is None or b is None:
                return None
            return {'+': a + b, '-': a - b, '*': a * b, '|': a | b, '&': a & b, '<<': a << b}[e.op]
        return None

    def base_key(self, e):
        e = _strip_casts(e)
        while e is not None:
            if e.k == 'UnaryOperator' and e.op == '&':
                e = _strip_casts(e.child('sub'))
            elif e.k == 'BinaryOperator' and e.op == '+':
                e = _strip_casts(e.child('lhs'))
            elif e.k == 'MemberExpr' and e.n == 'items':
                e = _strip_casts(e.child('base'))
            else:
                break
        return lvalue_key(e) if e is not None else None

    # ---- statements ----------------------------------------------------------------------
    def run_list(self, stmts):
        out = []
        for s in stmts:
            if s is None:
                continue
            r, falls = self.run(s)
            out.append(r)
            if not falls:
                return R.seq(*out), False
        return R.seq(*out), True

    def run(self, s):
        k = s.k
        if k == 'CompoundStmt':
            return self.run_list(s.c)
        if k == 'DeclStmt':
            out = []
            for v in s.c:
                if v is not None and v.k == 'VarDecl':
                    if v.child('init') is not None:
                        out.append(self.calls_in(v.child('init')))
                    self.decl(v)
            return R.seq(*out), True
        if k == 'IfStmt':
            self.note_even(s)
            if not self.relevant(s):
                return self.skip(s)
            bv = self.boolval(s.child('cond'))
            if bv is None and self.is_null_file_test(s.child('cond')):
                bv = False  # the output file was opened (the failure exit writes nothing and returns an error)
            if bv is None:
                bv = self.beval(s.child('cond'))
            br = s.child('then') if bv else s.child('else')
            if br is None:
                return ('eps',), True
            return self.run(br)
        if k in ('ForStmt', 'WhileStmt', 'DoStmt'):
            if not self.relevant(s):
                return self.skip(s)
            if k == 'ForStmt' and s.child('init') is not None:
                self.run(s.child('init'))
            body = s.child('body')
            at_least_once = False
            inc = _strip_casts(s.child('inc')) if k == 'ForStmt' and s.child('inc') is not None else None
            unit_step = inc is not None and ((inc.k == 'UnaryOperator' and inc.op in ('++', '--', 'post++', 'post--')) or
                                             (inc.k == 'CompoundAssignOperator' and inc.op in ('+=', '-=') and (_strip_casts(inc.child('rhs')).cv or 0) == 1) or
                                             (inc.k == 'BinaryOperator' and inc.op == ','))
            chunked_for = k == 'ForStmt' and not unit_step
            if k == 'WhileStmt' or chunked_for:
                # chunk loops, in any form that does not step by one element (`while (i0 < total) {..; i0 = i1;}`, `for (i0 = 0; i0 < total;
                # i0 += CHUNK)`, `for (...; i0 = i1)`): total >= 1 (stated assumption)
                c = _strip_casts(s.child('cond'))
                if c.k == 'BinaryOperator' and c.op == '<' and self.val(c.child('lhs')) == 0:
                    at_least_once = True
            r, falls = self.run(body)
            # second abstract iteration: only to expose typestate errors (e.g. a buffer swapped again)
            n0 = len(self.issues)
            saved_pending = self.pending
            self.run(body)
            self.pending = saved_pending
            self.issues = self.issues[:n0] + ['(2nd iteration) ' + i for i in self.issues[n0:]]
            return (R.plus(r) if at_least_once else R.star(r)), True
        if k == 'SwitchStmt':
            if self.relevant(s):
                self.issues.append('switch with emission at %s is not interpreted' % s.loc())
            # values assigned in a switch become unknown
            for x in s.walk():
                if is_assign(x) and x.child('lhs').k == 'DeclRefExpr':
                    self.scal[lvalue_key(x.child('lhs'))] = None
            return ('eps',), True
        if k == 'ReturnStmt':
            return ('eps',), False
        if k in ('CallExpr', 'CXXMemberCallExpr'):
            return self.call(s), True
        if is_assign(s):
            r = self.calls_in(s.child('rhs'))
            self.assign(s)
            return r, True
        if k == 'UnaryOperator' or k == 'CXXOperatorCallExpr':
            return ('eps',), True
        if k == 'NullStmt' or k == 'BreakStmt' or k == 'ContinueStmt':
            return ('eps',), True
        # expression statements containing calls (e.g. `err = x->to_gds(...)` handled by assign)
        return ('eps',), True

    def calls_in(self, e):
        out = []
        for c in e.walk():
            if c.k in ('CallExpr', 'CXXMemberCallExpr') and ((c.callee or '') in WRITERS or (c.callee or '') == 'fwrite' or (c.callee or '').startswith('gdstk::big_endian_swap')):
                out.append(self.call(c))
        return R.seq(*out)

    def note_even(self, s):
        # `if (len % 2) len++;`
        c = _strip_casts(s.child('cond'))
        # the oddness test in any spelling: `len % 2`, `len % 2 == 1`, `len % 2 != 0`, `len & 1`, `(len & 1) != 0`
        if c.k == 'BinaryOperator' and c.op in ('==', '!=') and _strip_casts(c.child('rhs')).cv in (0, 1) and ((c.op == '==') == (_strip_casts(c.child('rhs')).cv == 1)):
            c = _strip_casts(c.child('lhs'))
        if c.k == 'BinaryOperator' and ((c.op == '%' and _strip_casts(c.child('rhs')).cv == 2) or (c.op == '&' and _strip_casts(c.child('rhs')).cv == 1)) and s.child('else') is None:
            key = lvalue_key(_strip_casts(c.child('lhs')))

            def flips(t):
                # every path through t changes the variable by exactly one (so odd becomes even)
                if t is None:
                    return False
                if t.k == 'CompoundStmt':
                    n = [flips(x) for x in t.c if x is not None]
                    return sum(1 for v in n if v) == 1
                if t.k == 'IfStmt':
                    return t.child('else') is not None and flips(t.child('then')) and flips(t.child('else'))
                us = [x for x in t.walk() if x.k == 'UnaryOperator' and x.op in ('++', 'post++', '--', 'post--') and lvalue_key(x.child('sub')) == key]
                return len(us) == 1
            if flips(s.child('then')):
                self.even.add(key)

    def decl(self, v):
        key = 'v%d:%s' % (v.d, v.n)
        t = v.ct or v.t or ''
        init = v.child('init')
        m = re.match(r'^(?:const )?(uint16_t|unsigned short)\[(\d+)\]$', t)
        if m and init is not None and init.k == 'InitListExpr':
            words = [self.val(c) if c is not None else 0 for c in init.c]
            words += [0] * (int(m.group(2)) - len(words))
            dyn = [c for c in init.c if c is not None and self.val(c) is None]
            self.bufs[key] = {'words': words, 'state': 'host', 'decl': v, 'dyn': dyn}
            return
        if init is not None:
            i0 = _strip_casts(init)
            if i0.k == 'CXXBoolLiteralExpr':
                self.scal[key] = bool(i0.v)
            else:
                self.scal[key] = self.val(init)
                t_ = (v.ct or v.t or '').replace('const ', '').strip()
                if t_ == 'bool' and self.scal[key] is None and not self._written_later(v):
                    self.booldef[key] = init        # a named condition: evaluated from the atoms of its definition (keeps `t = a || b` and `a` consistent)
        else:
            self.scal[key] = None
        self.swapped.pop(key, None)

    def assign(self, s):
        l = _strip_casts(s.child('lhs'))
        if l.k == 'ArraySubscriptExpr':
            bk = lvalue_key(l.child('base'))
            if bk in self.bufs:
                b = self.bufs[bk]
                i = self.val(l.child('idx'))
                v = self.val(s.child('rhs'))
                if b['state'] == 'swapped':
                    b['state'] = 'host'
                if i is not None and 0 <= i < len(b['words']):
                    if s.op == '=':
                        b['words'][i] = v
                    elif s.op == '|=' and v is not None and b['words'][i] is not None:
                        b['words'][i] |= v
                    else:
                        b['words'][i] = None
                return
        k = lvalue_key(l)
        if k:
            r0 = _strip_casts(s.child('rhs'))
            if s.op == '=' and r0 is not None and r0.k == 'CXXBoolLiteralExpr':
                self.scal[k] = bool(r0.v)
            else:
                self.scal[k] = self.val(s.child('rhs')) if s.op == '=' else None
            self.swapped.pop(k, None)

    def call(self, c):
        callee = c.callee or ''
        if callee in WRITERS:
            self.flush_pending(c)
            return T(WRITERS[callee])
        if callee.startswith('gdstk::big_endian_swap'):
            w = int(callee[-2:])
            a0 = c.args[0]
            bk = self.base_key(a0)
            n = self.val(c.args[1])
            if bk in self.bufs and w == 16:
                b = self.bufs[bk]
                if b['state'] == 'swapped':
                    self.issues.append('%s: header buffer `%s` is byte-swapped twice without being rewritten' % (c.loc(), pretty_key(bk)))
                if n != len(b['words']):
                    self.issues.append('%s: header buffer `%s` (%d words) is swapped over %s words' % (c.loc(), pretty_key(bk), len(b['words']), n))
                b['state'] = 'swapped'
            elif bk:
                self.swapped[bk] = w
            return ('eps',)
        if callee == 'fwrite':
            return self.fwrite(c)
        return ('eps',)

    def flush_pending(self, at):
        if self.pending is not None:
            self.issues.append('%s: record %s has a header but its payload is never written' % (at.loc(), self.pending[0]))
            self.pending = None

    def fwrite(self, c):
        a = c.args
        bk = self.base_key(a[0])
        size = self.val(a[1])
        if bk in self.bufs and _strip_casts(a[0]).k == 'DeclRefExpr':
            b = self.bufs[bk]
            self.flush_pending(c)
            if b['state'] != 'swapped':
                self.issues.append('%s: header buffer `%s` is written without big_endian_swap16 (host byte order)' % (c.loc(), pretty_key(bk)))
            if size != 2 or self.val(a[2]) != len(b['words']):
                self.issues.append('%s: header buffer `%s` written with size %s x %s (buffer has %d words)' % (c.loc(), pretty_key(bk), size, self.val(a[2]), len(b['words'])))
            return self.decode(b, c)
        # payload
        if self.pending is None:
            self.issues.append('%s: payload written without a preceding record header' % c.loc())
            return ('eps',)
        name, dt, nbytes = self.pending
        want = ELEM_SIZE.get(dt)
        if want is not None and size != want:
            self.issues.append('%s: %s payload (data type %d) written with element size %s, expected %d' % (c.loc(), name, dt, size, want))
        cnt = self.val(a[2])
        if nbytes is not None and cnt is not None and size is not None and nbytes != size * cnt:
            self.issues.append('%s: %s header announces %d payload bytes, %d are written' % (c.loc(), name, nbytes, size * cnt))
        if want and want > 1 and self.swapped.get(bk) != want * 8:
            self.issues.append('%s: %s payload `%s` is not byte-swapped with big_endian_swap%d before it is written' % (c.loc(), name, pretty_key(bk or '?'), want * 8))
        self.pending = None
        return ('eps',)

    def decode(self, b, at):
        words = b['words']
        out = []
        i = 0
        while i < len(words):
            L, Tw = words[i], (words[i + 1] if i + 1 < len(words) else None)
            if Tw is None:
                self.issues.append('%s: record type word of `%s` is not a constant on this path' % (at.loc(), b['decl'].n))
                break
            rt, dt = Tw >> 8, Tw & 0xFF
            spec = SPEC.get(rt)
            if spec is None:
                self.issues.append('%s: unknown record type 0x%02X' % (at.loc(), rt))
                break
            name, sdt, slen = spec
            if dt != sdt:
                self.issues.append('%s: record %s written with data type %d, the format says %d' % (at.loc(), name, dt, sdt))
            self.records.append((name, dt, L))
            out.append(T(name))
            if L is None:
                if i + 2 != len(words):
                    self.issues.append('%s: non-constant record length in the middle of header buffer `%s`' % (at.loc(), b['decl'].n))
                    break
                if slen is not None:
                    self.issues.append('%s: record %s has fixed length %d but a computed length is written' % (at.loc(), name, slen))
                # even length for string records: 4 + len with len proved even
                if sdt == 6:
                    init = b['decl'].child('init')
                    e = _strip_casts(init.c[i])
                    ok = False
                    for x in e.walk():
                        if x.k == 'DeclRefExpr' and (lvalue_key(x) in self.even or parity.even_at(self.fn, b['decl'], lvalue_key(x))):
                            ok = True       # (the parity domain proves the variable even on every path reaching the buffer)
                        if x.k == 'UnaryExprOrTypeTraitExpr':
                            ok = True  # 4 + sizeof(T): constant even size asserted by the struct layout
                    if not ok:
                        self.issues.append('%s: string record %s: length is not proved even on every path reaching the header (parity analysis of the length variable)' % (at.loc(), name))
                self.pending = (name, dt, None)
                break
            if slen is not None and L != slen:
                self.issues.append('%s: record %s written with length %d, the format says %d' % (at.loc(), name, L, slen))
            if L % 2 or L < 4:
                self.issues.append('%s: record %s has odd/short length %d' % (at.loc(), name, L))
                break
            nw = (L - 4) // 2
            if i + 2 + nw <= len(words):
                i += 2 + nw
                continue
            if i + 2 == len(words):
                self.pending = (name, dt, L - 4)
                break
            self.issues.append('%s: record %s (length %d) does not fit the rest of header buffer `%s`' % (at.loc(), name, L, b['decl'].n))
            break
        return R.seq(*out)


def interpret(fn, max_atoms=12):
    """All valuations of the emission-relevant atoms: returns [(env, regex, issues, records)]."""
    atoms = []
    results = []
    envs = [{}]
    done = set()
    while envs:
        env = envs.pop()
        key = tuple(sorted(env.items()))
        if key in done:
            continue
        done.add(key)
        it = Interp(fn, env)
        try:
            r, _ = it.run(fn.body)
            # declarations whose initialiser called a writer (ErrorCode err = x->to_gds())
            if it.pending is not None:
                it.issues.append('%s: record %s has a header but its payload is never written' % (fn.loc(), it.pending[0]))
            results.append((dict(env), r, sorted(set(it.issues)), it.records))
        except NeedAtom as na:
            if na.key not in atoms:
                atoms.append(na.key)
                if len(atoms) > max_atoms:
                    raise AnalysisBroken('%s: more than %d emission-relevant branch conditions (%s)' % (fn.qn, max_atoms, atoms))
            for v in (False, True):
                e2 = dict(env)
                e2[na.key] = v
                envs.append(e2)
    return atoms, results
