"""Generic-element symbolic execution (R-ALGEBRA over loops that treat every element alike).

Many gdstk methods are "for every point / every element: apply the same arithmetic". Such a method is executed once
on ONE symbolic element per array: every array reachable from `this` (or from a pointer parameter) is an abstract
location holding a single generic element (atoms `<key>.x`, `<key>.y` or `<key>`), pointers into it - cursors
(`Vec2* p = arr.items; ... *p++`, `p->x`) and indexed forms (`arr[i]`, `arr.items[i]`, `p[i]`) alike - denote that
element, and each loop body is run once (bodies that carry a non-cursor value from one iteration to the next are
rejected as unsupported). Branch conditions must fold to constants under the valuation supplied by the caller. The
result is, per location, the polynomial (sa/symdiff.py) stored into the generic element, which the caller compares with
the documented map. The loop FORM (pointer walking, counting down, indexing) is irrelevant to the result."""
from . import symdiff as S
from .flow import _strip_casts, is_assign

COMP = {'x': 1, 'u': 1, 're': 1, 'y': 2, 'v': 2, 'im': 2}


class Gen(S.Algebra):
    def __init__(self, db, fn, assume_no_early_return=True):
        S.Algebra.__init__(self, db, None)
        self.fn = fn
        self.loc = {}            # location key -> value
        self.written = []        # location keys in order of first store
        self.calls = []          # opaque calls skipped (callee, node)
        self.assumed = []        # symbolic early-return guards assumed false
        self.assume_no_early_return = assume_no_early_return
        self.cache = {}
        self.on_call = None      # hook(call node, env) for calls met as statements

    # ---- locations
    def ptr_of(self, e, env):
        """('ptr', key) when e evaluates to a pointer into an abstract array, else None"""
        e = _strip_casts(e)
        if e is None:
            return None
        if e.k == 'DeclRefExpr':
            v = env.get(e.n)
            return v if isinstance(v, tuple) and v and v[0] == 'ptr' else None
        if e.k == 'UnaryOperator' and e.op in ('post++', '++', 'post--', '--'):
            return self.ptr_of(e.child('sub'), env)
        if e.k == 'UnaryOperator' and e.op == '&':
            l = self.lvalue(e.child('sub'), env)
            return ('ptr', l[0]) if l is not None and l[1] is None else None
        if e.k == 'BinaryOperator' and e.op in ('+', '-'):
            return self.ptr_of(e.child('lhs'), env) or self.ptr_of(e.child('rhs'), env)
        if e.k == 'ParenExpr':
            return self.ptr_of(e.c[0], env)
        if e.k == 'MemberExpr' and e.n and '*' in (e.t or ''):
            l = self.member_key(e, env)
            if l is None:
                return None
            key = l[0]
            if e.n == 'items':
                key = key[:-len('.items')]
            return ('ptr', key + '[]')
        return None

    def member_key(self, e, env):
        """location of a member expression rooted at this / a pointer / an element: (key, comp)"""
        chain = []
        b = e
        arrow = False
        while b is not None and b.k == 'MemberExpr':
            if b.n:
                chain.append((b.n, bool(b.arrow)))
            elif b.arrow and chain:
                chain[-1] = (chain[-1][0], True)
            nb = b.child('base')
            b = _strip_casts(nb) if nb is not None else None
        chain.reverse()
        if b is None or b.k == 'CXXThisExpr':
            root = 'this'
        else:
            p = self.ptr_of(b, env) if chain and chain[0][1] else None
            if p is not None:
                root = p[1]
            else:
                l = self.lvalue(b, env) if b.k in ('UnaryOperator', 'ArraySubscriptExpr', 'CXXOperatorCallExpr', 'ParenExpr') else None
                if l is None or l[1] is not None:
                    return None
                root = l[0]
        comp = None
        names = [n for n, _ in chain]
        if names and names[-1] in COMP and 'Vec2' in (_strip_casts(e.child('base')).t or '' if e.child('base') is not None else '') or (names and names[-1] in COMP and self._vec_member(e)):
            comp = COMP[names[-1]]
            names = names[:-1]
        if root == 'this' and not names:
            return None
        key = root + ''.join(('->' if (root == 'this' and i == 0) else '.') + n for i, n in enumerate(names))
        return key, comp

    def _vec_member(self, e):
        b = e.child('base')
        while b is not None:
            b = _strip_casts(b)
            if b.k == 'MemberExpr' and not b.n:
                b = b.child('base')
                continue
            break
        return b is not None and 'Vec2' in (b.t or '')

    def lvalue(self, e, env):
        e = _strip_casts(e)
        if e is None:
            return None
        if e.k == 'ParenExpr':
            return self.lvalue(e.c[0], env)
        if e.k == 'UnaryOperator' and e.op == '*':
            p = self.ptr_of(e.child('sub'), env)
            return (p[1], None) if p is not None else None
        if e.k == 'ArraySubscriptExpr':
            p = self.ptr_of(e.child('base') or e.c[0], env)
            return (p[1], None) if p is not None else None
        if e.k == 'CXXOperatorCallExpr' and e.op == '[]':
            l = self.lvalue(e.args[0], env) if _strip_casts(e.args[0]).k != 'MemberExpr' else self.member_key(_strip_casts(e.args[0]), env)
            return (l[0] + '[]', None) if l is not None and l[1] is None else None
        if e.k == 'MemberExpr':
            root = e
            while root is not None and root.k == 'MemberExpr':
                nb = root.child('base')
                root = _strip_casts(nb) if nb is not None else None
            if root is None or root.k == 'CXXThisExpr':
                l = self.member_key(e, env)
                # plain members of this are scalars handled by the algebra's environment unless they were stored as locations
                if l is not None and (l[0] in self.loc or l[0].count('.') > 0 or '[]' in l[0]):
                    return l
                return None
            if root.k == 'DeclRefExpr' and self.ptr_of(root, env) is None:
                return None        # member of a local value
            return self.member_key(e, env)
        return None

    def initial(self, key, vec):
        return self.vec(S.atom(key + '.x'), S.atom(key + '.y')) if vec else S.atom(key)

    def read(self, key, comp, vec):
        if key not in self.loc:
            self.loc[key] = self.initial(key, vec or comp is not None)
        v = self.loc[key]
        return v if comp is None else v[comp]

    def write(self, key, comp, val):
        if comp is None:
            self.loc[key] = val
        else:
            cur = self.loc.get(key) or self.initial(key, True)
            self.loc[key] = self.vec(val, cur[2]) if comp == 1 else self.vec(cur[1], val)
        if key not in self.written:
            self.written.append(key)

    # ---- values
    def value(self, e, env):
        e0 = _strip_casts(e)
        if e0 is not None and e0.k in ('UnaryOperator', 'ArraySubscriptExpr', 'MemberExpr', 'CXXOperatorCallExpr') and not (e0.k == 'UnaryOperator' and e0.op != '*') and not (e0.k == 'CXXOperatorCallExpr' and e0.op != '[]'):
            l = self.lvalue(e0, env)
            if l is not None:
                return self.read(l[0], l[1], 'Vec2' in (e0.t or ''))
        if e0 is not None and e0.k == 'CallExpr' and (e0.callee or '').split('::')[-1] in ('fabs', 'abs') and len(e0.args) == 1:
            a = self.value(e0.args[0], env)
            if self.isvec(a):
                raise S.Unsupported('fabs of a vector')
            if S.is_const(a):
                return S.P(abs(a.get((), 0)))
            return self.fatom('fabs', a)
        if e0 is not None and e0.k == 'BinaryOperator' and e0.op in ('==', '!=', '<', '>', '<=', '>=', '&&', '||'):
            a, b = self.value(e0.child('lhs'), env), self.value(e0.child('rhs'), env)
            if self.isvec(a) or self.isvec(b) or not (S.is_const(a) and S.is_const(b)):
                raise S.Unsupported('symbolic comparison `%s`' % e0.text()[:50])
            a, b = a.get((), 0), b.get((), 0)
            return S.P(int({'==': a == b, '!=': a != b, '<': a < b, '>': a > b, '<=': a <= b, '>=': a >= b, '&&': bool(a) and bool(b), '||': bool(a) or bool(b)}[e0.op]))
        if e0 is not None and e0.k == 'UnaryOperator' and e0.op == '!':
            a = self.value(e0.child('sub'), env)
            if self.isvec(a) or not S.is_const(a):
                raise S.Unsupported('symbolic negation')
            return S.P(int(not a.get((), 0)))
        return S.Algebra.value(self, e, env)

    # ---- statements
    def run(self, stmts, env):
        """returns False when a return statement was executed"""
        for s in stmts:
            if s is None:
                continue
            if not self.step(s, env):
                return False
        return True

    def step(self, s, env):
        k = s.k
        if k == 'CompoundStmt':
            return self.run(s.c, env)
        if k == 'DeclStmt':
            for v in s.c:
                if v is None or v.k != 'VarDecl':
                    continue
                init = v.child('init')
                if init is None:
                    continue
                if '*' in (v.t or ''):
                    p = self.ptr_of(init, env)
                    if p is None:
                        raise S.Unsupported('pointer `%s` is not a cursor into a member array: %s' % (v.n, init.text()[:50]))
                    env[v.n] = p
                else:
                    try:
                        env[v.n] = self.value(init, env)
                    except S.Unsupported:
                        env.pop(v.n, None)
                        env[v.n] = self.vec(S.atom(v.n + '.x'), S.atom(v.n + '.y')) if 'Vec2' in (v.t or '') else S.atom(v.n)   # opaque local (e.g. a count)
            return True
        if k == 'IfStmt':
            try:
                c = self.value(s.child('cond'), env)
                sym = self.isvec(c) or not S.is_const(c)
            except S.Unsupported:
                sym = True
            if sym:
                th = s.child('then')
                only_ret = th is not None and (th.k == 'ReturnStmt' or (th.k == 'CompoundStmt' and [x.k for x in th.c if x is not None] == ['ReturnStmt'])) and s.child('else') is None
                if only_ret and self.assume_no_early_return:
                    self.assumed.append(s)
                    return True
                raise S.Unsupported('symbolic branch `%s`' % s.child('cond').text()[:60])
            br = s.child('then') if c.get((), 0) else s.child('else')
            return True if br is None else self.step(br, env)
        if k in ('ForStmt', 'WhileStmt', 'DoStmt'):
            if k == 'ForStmt' and s.child('init') is not None:
                self.step(s.child('init'), env)
            body = s.child('body')
            outer = set(env)
            self.check_no_carry(s, env)
            if body is not None:
                self.step(body, env)
            for n_ in list(env):
                if n_ not in outer:
                    env.pop(n_)
            return True
        if k == 'ReturnStmt':
            return False
        if k in ('NullStmt', 'BreakStmt', 'ContinueStmt'):
            return True
        if k == 'UnaryOperator' and s.op in ('post++', '++', 'post--', '--'):
            return True
        if is_assign(s) or k == 'CompoundAssignOperator' or (k == 'CXXOperatorCallExpr' and s.op in ('=', '+=', '-=', '*=', '/=')):
            lhs = s.args[0] if k == 'CXXOperatorCallExpr' else s.child('lhs')
            rhs = s.args[1] if k == 'CXXOperatorCallExpr' else s.child('rhs')
            l0 = _strip_casts(lhs)
            if '*' in (l0.t or '') and not (l0.t or '').rstrip().endswith(')'):
                p = self.ptr_of(rhs, env)
                if l0.k == 'DeclRefExpr' and (p is not None or s.op in ('+=', '-=')):
                    if p is not None:
                        env[l0.n] = p
                    return True
                r0 = _strip_casts(rhs)
                if l0.k == 'MemberExpr' and r0 is not None and r0.k == 'CallExpr' and (r0.callee or '').split('::')[-1] in ('allocate', 'allocate_clear', 'reallocate'):
                    return True         # (re)allocation of a member array: the abstract array stays the same location
                raise S.Unsupported('pointer store `%s`' % s.text()[:50])
            val = self.value(rhs, env)
            loc = self.lvalue(l0, env)
            if loc is not None:
                cur = None if s.op == '=' else self.read(loc[0], loc[1], 'Vec2' in (l0.t or ''))
                self.write(loc[0], loc[1], self.combine(s.op, cur, val))
                return True
            if l0.k == 'DeclRefExpr':
                cur = None if s.op == '=' else S.Algebra.value(self, l0, env)
                env[l0.n] = self.combine(s.op, cur, val)
                return True
            if l0.k == 'MemberExpr' and l0.n in COMP:
                b = l0.child('base')
                b = _strip_casts(b) if b is not None else None
                while b is not None and b.k == 'MemberExpr' and not b.n:
                    nb = b.child('base')
                    b = _strip_casts(nb) if nb is not None else None
                if b is not None and b.k == 'DeclRefExpr' and b.n in env and self.isvec(env[b.n]):
                    curv = env[b.n]
                    c_ = COMP[l0.n]
                    nv = self.combine(s.op, None if s.op == '=' else curv[c_], val)
                    env[b.n] = self.vec(nv, curv[2]) if c_ == 1 else self.vec(curv[1], nv)
                    return True
            if l0.k == 'MemberExpr':
                root = l0
                while root is not None and root.k == 'MemberExpr':
                    nb = root.child('base')
                    root = _strip_casts(nb) if nb is not None else None
                if root is None or root.k == 'CXXThisExpr':
                    mk = self.member_key(l0, env)
                    if mk is not None:
                        if mk[0].count('.') == 0 and '[]' not in mk[0] and mk[1] is None:
                            cur = None if s.op == '=' else S.Algebra.value(self, l0, env)
                            env[l0.n] = self.combine(s.op, cur, val)      # scalar member of this: the algebra's own environment
                            self.write(mk[0], None, env[l0.n])
                            return True
                        cur = None if s.op == '=' else self.read(mk[0], mk[1], 'Vec2' in (l0.t or ''))
                        self.write(mk[0], mk[1], self.combine(s.op, cur, val))
                        return True
            raise S.Unsupported('assignment target `%s`' % lhs.text()[:50])
        if k in ('CallExpr', 'CXXMemberCallExpr'):
            self.calls.append((s.callee, s))
            if self.on_call is not None:
                self.on_call(s, env)
            return True
        raise S.Unsupported('statement %s `%s`' % (k, s.text()[:50]))

    def combine(self, op, cur, val):
        if op == '=':
            return val
        if op == '+=':
            return self.vadd(cur, val)
        if op == '-=':
            return self.vadd(cur, val, -1)
        if op == '*=':
            if self.isvec(cur) and self.isvec(val):
                return self.vec(S.mul(cur[1], val[1]), S.mul(cur[2], val[2]))
            return self.vmul(cur, val)
        if op == '/=':
            if self.isvec(val):
                raise S.Unsupported('division by a vector')
            inv = S.P(1 / val[()]) if S.is_const(val) and val else self.fatom('inv', val)
            return self.vmul(cur, inv)
        raise S.Unsupported('operator %s' % op)

    def check_no_carry(self, loop, env):
        """a non-pointer local declared outside the loop and assigned inside it carries a value between iterations"""
        body = loop.child('body')
        if body is None:
            return
        inside = {v.n for v in loop.walk() if v.k == 'VarDecl'}
        for x in body.walk():
            tgt = None
            if is_assign(x) or x.k == 'CompoundAssignOperator':
                tgt = _strip_casts(x.child('lhs'))
            elif x.k == 'CXXOperatorCallExpr' and x.op in ('=', '+=', '-=', '*=', '/='):
                tgt = _strip_casts(x.args[0])
            while tgt is not None and tgt.k == 'MemberExpr':
                nb = tgt.child('base')
                tgt = _strip_casts(nb) if nb is not None else None
            if tgt is not None and tgt.k == 'DeclRefExpr' and tgt.dk == 'local' and tgt.n not in inside and '*' not in (tgt.t or ''):
                raise S.Unsupported('loop at %s carries `%s` from one iteration to the next' % (loop.loc(), tgt.n))
