"""Synthetic behaviour-preserving rewrites as a standing false-alarm control (thorough tier) and for sweeps
(tools/gm_sweep.py): site enumeration and variant generation with build/gm (tools/gm/gm.cc)."""
import json
import os
import random
import subprocess
from concurrent.futures import ThreadPoolExecutor

from . import facts

GM = os.path.join(facts.VERIF, 'build', 'gm')


def flags(repo):
    return ['-std=c++17', '-DNDEBUG', '-I%s/include' % repo, '-I%s/external' % repo, '-Wno-everything']


def ensure():
    """build the rewrite generator once; checks running in parallel wait for each other (the binary is never executed half-written)"""
    import fcntl
    os.makedirs(os.path.dirname(GM), exist_ok=True)
    with open(GM + '.lock', 'w') as lk:
        fcntl.flock(lk, fcntl.LOCK_EX)
        try:
            if not (os.path.exists(GM) and os.access(GM, os.X_OK)):
                subprocess.check_call(['make', '-s', '-C', facts.VERIF, 'build/gm'])
        finally:
            fcntl.flock(lk, fcntl.LOCK_UN)


def list_sites(unit, repo):
    p = subprocess.run([GM, '--list', '--root', repo + '/src', '--root', repo + '/include', unit, '--'] + flags(repo), stdout=subprocess.PIPE, stderr=subprocess.PIPE, text=True)
    out = []
    for l in p.stdout.splitlines():
        try:
            j = json.loads(l)
        except ValueError:
            continue
        j['unit'] = unit
        out.append(j)
    return out


def all_sites(repo, units=None):
    units = units or sorted(os.path.join(repo, 'src', f) for f in os.listdir(os.path.join(repo, 'src')) if f.endswith('.cpp'))
    with ThreadPoolExecutor(16) as ex:
        allsites = [s for ss in ex.map(lambda u: list_sites(u, repo), units) for s in ss]
    seen = set()
    sites = []
    for s in allsites:
        k = (s['file'], s['line'], s['kind'], s['func'])
        if k in seen:
            continue
        seen.add(k)
        sites.append(s)
    return sites


def make_patch(site, repo, outdir, idx):
    d = os.path.join(outdir, 'gm%05d-%s' % (idx, site['kind']))
    os.makedirs(d, exist_ok=True)
    tmp = os.path.join(d, 'new.txt')
    p = subprocess.run([GM, '--apply', str(site['id']), '--out', tmp, '--root', repo + '/src', '--root', repo + '/include', site['unit'], '--'] + flags(repo),
                       stdout=subprocess.PIPE, stderr=subprocess.PIPE, text=True)
    f = p.stdout.strip().splitlines()[-1] if p.stdout.strip() else None
    if p.returncode != 0 or not f or not os.path.exists(tmp):
        subprocess.run(['rm', '-rf', d])
        return None
    rel = os.path.relpath(f, repo)
    q = subprocess.run(['diff', '-u', '--label', 'a/' + rel, '--label', 'b/' + rel, f, tmp], stdout=subprocess.PIPE, text=True)
    os.remove(tmp)
    if not q.stdout.strip():
        subprocess.run(['rm', '-rf', d])
        return None
    with open(os.path.join(d, 'patch.diff'), 'w') as fh:
        fh.write(q.stdout)
    json.dump({'kind': site['kind'], 'file': rel, 'line': site['line'], 'func': site['func']}, open(os.path.join(d, 'site.json'), 'w'))
    return d


def sample_for(functions, repo, n, seed):
    """n sites inside the given functions ('qualified name @ file:line' strings of a check's evidence), stratified over kinds"""
    names = {f.split(' @ ')[0] for f in functions}
    files = {f.split(' @ ')[1].split(':')[0] for f in functions if ' @ ' in f}
    units = sorted({os.path.join(repo, f) for f in files if f.startswith('src/') and f.endswith('.cpp')})
    if any(f.startswith('include/') for f in files):
        units = None          # header functions: every unit may spell them
    sites = [s for s in all_sites(repo, units) if s['func'] in names or any(s['func'] == nm.split('<')[0] for nm in names)]
    rnd = random.Random(seed)
    by = {}
    for s in sites:
        by.setdefault(s['kind'], []).append(s)
    pick = []
    kinds = sorted(by)
    for k in kinds:
        rnd.shuffle(by[k])
    i = 0
    while len(pick) < n and any(by.values()):
        k = kinds[i % len(kinds)]
        if by[k]:
            pick.append(by[k].pop())
        i += 1
    return pick
