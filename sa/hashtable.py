"""Semantic obligations of the four open-addressing tables (Map<T>, Set<T>, TagMap, StyleMap), decided from the CFG,
the affine loop summaries (sa/loops.py) and linear forms through reaching definitions (sa/linear.py) - NOT by
comparing the text of the methods with a frozen skeleton.  Every obligation is a necessary condition of "the table
behaves as a map/set": breaking it loses, duplicates or hides an entry for some history; and it is stated over events
(slot cursor advances, wraps, empty-slot tests, count updates, calls of sibling methods), so hoisting `items +
capacity` into a local, merging the increment into the wrap test, naming the moved key differently or reordering
independent statements leaves it untouched.

Events and predicates
  END        a pointer whose linear form is  items + capacity  of the table itself
  OCC/EMPTY  the table-specific occupied / empty test of a slot, also through a local copy of the tested field
  STEP       `S++` on a slot cursor S;  WRAP: `if (S == END) S = items` directly after the step (or merged with it)

A construct that is not understood raises AnalysisBroken (exit 2: undecided), never a violation."""
import re
from .facts import AnalysisBroken
from .flow import lvalue_key, is_assign, _strip_casts
from . import linear, loops as LP, tables
from .linear import lin_add


def is_slot_type(t, spec):
    t = t or ''
    return '*' in t and re.search(spec['item'], t) is not None


class M:
    """one method of one table"""

    def __init__(self, db, fn, tname, spec):
        self.db, self.fn, self.tname, self.spec = db, fn, tname, spec
        self.g = fn.cfg
        self.slots = {'v%d:%s' % (v.d, v.n): v for v in fn.walk() if v.k == 'VarDecl' and is_slot_type(v.t, spec)}
        for p in fn.params:
            if is_slot_type(p.get('t'), spec):
                self.slots['v%d:%s' % (p['d'], p['n'])] = None
        self.label = '%s::%s' % (tname if not fn.targs else fn.rec.replace('gdstk::', ''), fn.name)

    # ---- linear forms --------------------------------------------------------------------------------
    def lin(self, e):
        if e is None:
            return None
        v = linear.lin_of(self.fn, e)
        if v is None or any(isinstance(k, tuple) for k in v):
            return None
        return v

    def is_end(self, e, owner='this'):
        v = self.lin(e)
        sep = '->' if owner == 'this' else '.'
        return v == {owner + sep + 'items': 1, owner + sep + 'capacity': 1}

    def is_items(self, e, owner='this'):
        sep = '->' if owner == 'this' else '.'
        return self.lin(e) == {owner + sep + 'items': 1}

    # ---- occupied / empty ----------------------------------------------------------------------------
    def field_of(self, x, depth=0):
        """(slot key, field name) when x reads a field of a slot, directly or through a local copy"""
        x = _strip_casts(x)
        if x is None or depth > 4:
            return None
        if x.k == 'ParenExpr':
            return self.field_of(x.c[0], depth + 1)
        if x.k == 'MemberExpr' and x.arrow and x.n:
            b = _strip_casts(x.child('base'))
            if b is not None and is_slot_type(b.t, self.spec):
                return lvalue_key(b), x.n
        if x.k == 'MemberExpr' and not x.arrow and x.n:
            # the slot addressed by an index cursor: items[i].field
            b = _strip_casts(x.child('base'))
            if b is not None and b.k == 'ArraySubscriptExpr':
                bb, ii = _strip_casts(b.child('base') or b.c[0]), _strip_casts(b.child('idx') or b.c[1])
                if self.is_items(bb) and ii is not None and ii.k == 'DeclRefExpr' and ii.dk == 'local':
                    return 'I@' + lvalue_key(ii), x.n
        if x.k == 'DeclRefExpr' and x.dk == 'local' and lvalue_key(x) not in self.slots:
            key = lvalue_key(x)
            ds = [v.child('init') for v in self.fn.walk() if v.k == 'VarDecl' and 'v%d:%s' % (v.d, v.n) == key and v.child('init') is not None]
            ds += [a.child('rhs') for a in self.fn.walk() if is_assign(a) and a.op == '=' and lvalue_key(_strip_casts(a.child('lhs'))) == key]
            if len(ds) == 1:
                return self.field_of(ds[0], depth + 1)
        return None

    def occ(self, cond):
        """(slot key, True when the condition means OCCUPIED) or None"""
        neg = False
        x = _strip_casts(cond)
        while x is not None and (x.k == 'ParenExpr' or (x.k == 'UnaryOperator' and x.op == '!')):
            if x.k == 'UnaryOperator':
                neg = not neg
                x = _strip_casts(x.child('sub'))
            else:
                x = _strip_casts(x.c[0])
        if x is None:
            return None
        t = self.tname
        if t in ('Map', 'StyleMap', 'Set'):
            f = self.spec['empty_field']
            fo = self.field_of(x)
            if fo is not None and fo[1] == f:
                return fo[0], (not neg)
            if x.k == 'BinaryOperator' and x.op in ('==', '!='):
                l, r = x.child('lhs'), x.child('rhs')
                for a, b in ((l, r), (r, l)):
                    fo = self.field_of(a)
                    b0 = _strip_casts(b)
                    if fo is not None and fo[1] == f and b0 is not None and (b0.is_null_const() or b0.cv == 0):
                        return fo[0], ((x.op == '!=') != neg)
        elif t == 'TagMap':
            if x.k == 'BinaryOperator' and x.op in ('==', '!='):
                a, b = self.field_of(x.child('lhs')), self.field_of(x.child('rhs'))
                if a is not None and b is not None and a[0] == b[0] and {a[1], b[1]} == {'key', 'value'}:
                    return a[0], ((x.op == '!=') != neg)
        return None

    # ---- cursor steps ----------------------------------------------------------------------------------
    def writes(self, key):
        if key.startswith('I@'):
            key = key[2:]
        out = []
        for x in self.fn.walk():
            if x.k == 'UnaryOperator' and x.op in ('++', '--', 'post++', 'post--') and lvalue_key(_strip_casts(x.child('sub'))) == key:
                out.append((x, 'step', 1 if '+' in x.op else -1))
            elif (is_assign(x) or x.k == 'CompoundAssignOperator') and lvalue_key(_strip_casts(x.child('lhs'))) == key:
                if x.op == '=':
                    out.append((x, 'assign', x.child('rhs')))
                elif x.op in ('+=', '-=') and _strip_casts(x.child('rhs')).cv is not None:
                    out.append((x, 'step', _strip_casts(x.child('rhs')).cv * (1 if x.op == '+=' else -1)))
                else:
                    out.append((x, 'other', None))
        return out

    def wrap_after(self, step, key):
        """the IfStmt that wraps cursor `key` right after `step`: `if (S == END) S = items` (pointer cursor) or
        `if (i == capacity) i = 0` (index cursor), or None"""
        index = key.startswith('I@')
        if index:
            key = key[2:]
        # (a) the step is part of the wrap condition:  if (++S == END) S = items;
        y, prev = step.parent, step
        while y is not None and y.k in ('ImplicitCastExpr', 'ParenExpr', 'BinaryOperator') and not (y.k == 'BinaryOperator' and y.op in ('&&', '||', ',')):
            prev, y = y, y.parent
        cand = None
        if y is not None and y.k == 'IfStmt' and y.child('cond') is not None and any(z is step for z in y.child('cond').walk()):
            if step.op.startswith('post'):
                return None
            cand = y
        else:
            # (b) the next statement after the one holding the step
            st = step
            while st.parent is not None and st.parent.k != 'CompoundStmt':
                st = st.parent
            comp = st.parent
            if comp is None:
                return None
            sibs = [c for c in comp.c if c is not None]
            i = next((i_ for i_, c in enumerate(sibs) if c is st), None)
            if i is None or st is not step:
                return None
            if i + 1 < len(sibs) and sibs[i + 1].k == 'IfStmt':
                cand = sibs[i + 1]
        if cand is None or cand.child('else') is not None:
            return None
        c = _strip_casts(cand.child('cond'))
        while c is not None and c.k == 'ParenExpr':
            c = _strip_casts(c.c[0])
        if c is None or c.k != 'BinaryOperator' or c.op != '==':
            return None
        l, r = _strip_casts(c.child('lhs')), _strip_casts(c.child('rhs'))

        def is_cursor(e):
            while e is not None and e.k == 'ParenExpr':
                e = _strip_casts(e.c[0])
            if e is not None and e.k == 'UnaryOperator' and e.op in ('++',):
                e = _strip_casts(e.child('sub'))
            return e is not None and lvalue_key(e) == key
        other = r if is_cursor(l) else l if is_cursor(r) else None
        if other is None or not (self.lin(other) == {'this->capacity': 1} if index else self.is_end(other)):
            return None
        th = cand.child('then')
        sts = [th] if th.k != 'CompoundStmt' else [x for x in th.c if x is not None]
        if len(sts) != 1 or not (is_assign(sts[0]) and sts[0].op == '=' and lvalue_key(_strip_casts(sts[0].child('lhs'))) == key and
                                 (self.lin(sts[0].child('rhs')) == {} if index else self.is_items(sts[0].child('rhs')))):
            return None
        return cand

    def loop_of(self, node):
        return LP.enclosing_loop(node)

    def guards(self, node, within=None):
        """[(condition node, branch taken: True/False)] of the IfStmts (inside `within`) that control `node`"""
        out = []
        x, prev = node.parent, node
        while x is not None and x is not within:
            if x.k == 'IfStmt':
                if prev is x.child('then'):
                    out.append((x.child('cond'), True))
                elif prev is x.child('else'):
                    out.append((x.child('cond'), False))
            prev, x = x, x.parent
        return out

    def earlier_returns_guard(self, node, within):
        """conditions of `if (c) return/break;` statements that precede node in the same blocks inside `within`
        (node runs only when they were false)"""
        out = []
        x, prev = node.parent, node
        while x is not None:
            if x.k == 'CompoundStmt':
                for st in x.c:
                    if st is None:
                        continue
                    if st is prev:
                        break
                    if st.k == 'IfStmt' and st.child('else') is None and _always_leaves(st.child('then')):
                        out.append((st.child('cond'), False))
            if x is within:
                break
            prev, x = x, x.parent
        return out


def _always_leaves(s):
    if s is None:
        return False
    if s.k in ('ReturnStmt', 'BreakStmt', 'ContinueStmt', 'GotoStmt'):
        return True
    if s.k == 'CompoundStmt':
        return any(c is not None and _always_leaves(c) for c in s.c)
    return False


def _ret_bool(r):
    v = r.child('value')
    v = _strip_casts(v) if v is not None else None
    if v is not None and v.k == 'CXXBoolLiteralExpr':
        return bool(v.v)
    if v is not None and v.cv in (0, 1) and v.k in ('IntegerLiteral',):
        return bool(v.cv)
    return None


# ======================================================================================================
# obligations per method

def check_get_slot(ctx, m, rule):
    f = m.fn
    rets = [r for r in f.walk() if r.k == 'ReturnStmt']
    keys = set()
    for r in rets:
        v = _strip_casts(r.child('value')) if r.child('value') is not None else None
        if v is not None and v.k == 'BinaryOperator' and v.op == '+':
            # an index cursor: return items + i
            a, b = _strip_casts(v.child('lhs')), _strip_casts(v.child('rhs'))
            ii = b if m.is_items(a) else a if m.is_items(b) else None
            keys.add('I@' + lvalue_key(ii) if ii is not None and ii.k == 'DeclRefExpr' and ii.dk == 'local' else None)
        else:
            keys.add(lvalue_key(v) if v is not None else None)
    if len(keys) != 1 or next(iter(keys)) is None or (next(iter(keys)) not in m.slots and not next(iter(keys)).startswith('I@')):
        raise AnalysisBroken('%s: does not return one slot cursor' % m.label)
    S = next(iter(keys))
    ok = False
    why = 'no initialiser'
    if S.startswith('I@'):
        dv = next((v for v in f.walk() if v.k == 'VarDecl' and 'v%d:%s' % (v.d, v.n) == S[2:]), None)
        src = _strip_casts(dv.child('init')) if dv is not None and dv.child('init') is not None else None
        if src is not None and src.k == 'BinaryOperator' and src.op == '%':
            ok = any(c.k == 'CallExpr' and (c.callee or '').split('::')[-1] == 'hash' for c in src.child('lhs').walk()) and m.lin(src.child('rhs')) == {'this->capacity': 1}
        why = 'index starts at `%s`' % (src.text()[:60] if src is not None else '?')
        init = None
    else:
        decl = m.slots[S]
        # start: items + (hash(key) % capacity)
        init = _strip_casts(decl.child('init')) if decl is not None else None
    if init is not None and init.k == 'BinaryOperator' and init.op == '+':
        base, idx = init.child('lhs'), _strip_casts(init.child('rhs'))
        if not m.is_items(base):
            base, idx = init.child('rhs'), _strip_casts(init.child('lhs'))
        if m.is_items(base):
            src = idx
            if idx.k == 'DeclRefExpr' and idx.dk == 'local':
                rd = linear.reaching_def(f, lvalue_key(idx), init)
                src = _strip_casts(rd[1]) if rd is not None and rd[1] is not None else None
            while src is not None and src.k == 'ParenExpr':
                src = _strip_casts(src.c[0])
            if src is not None and src.k == 'BinaryOperator' and src.op == '%':
                hashed = any(c.k == 'CallExpr' and (c.callee or '').split('::')[-1] == 'hash' for c in src.child('lhs').walk())
                cap = m.lin(src.child('rhs')) == {'this->capacity': 1}
                ok = hashed and cap
                why = 'index is `%s`' % src.text()[:60]
            else:
                why = 'index is `%s`' % (idx.text()[:60])
    ctx.check(ok, rule, 'table/get_slot/%s/start' % m.label, f.loc(), 'the probe starts at items + hash(key) %% capacity', 'the probe does not start at items + hash(key) %% capacity (%s): look-ups start in a different place than insertions unless every method shares the change' % why)
    # every step of the cursor is followed by the wrap test
    steps = [w for w in m.writes(S) if w[1] == 'step']
    if not steps:
        raise AnalysisBroken('%s: the probe never advances its cursor' % m.label)
    bad = [w[0] for w in steps if w[2] != 1 or m.wrap_after(w[0], S) is None]
    ctx.check(not bad, rule, 'table/get_slot/%s/wraps' % m.label, (bad[0] if bad else steps[0][0]).loc(), 'every advance of the probe cursor is followed by `== items + capacity -> items`',
              'the probe cursor is advanced at %s without wrapping at items + capacity: a probe that starts near the end of the array runs past it' % (bad[0].loc() if bad else ''))
    # the probe continues exactly while the slot is occupied by another key
    L = m.loop_of(steps[0][0])
    if L is None or L.k != 'WhileStmt':
        raise AnalysisBroken('%s: probe loop form not recognised' % m.label)
    conj = []

    def flat(c):
        c = _strip_casts(c)
        while c is not None and c.k == 'ParenExpr':
            c = _strip_casts(c.c[0])
        if c is not None and c.k == 'BinaryOperator' and c.op == '&&':
            flat(c.child('lhs'))
            flat(c.child('rhs'))
        else:
            conj.append(c)
    flat(L.child('cond'))
    # `while (occupied) { if (match) break; step }` continues under the same condition as `while (occupied && !match) { step }`:
    # leading guard clauses of the body that leave the loop before the cursor advances contribute their negation
    negated = []
    body = L.child('body')
    for st_ in (body.stmts() if body is not None else []):
        if any(w[0] is st_ or any(y is w[0] for y in st_.walk()) for w in steps) and not (st_.k == 'IfStmt' and st_.child('else') is None and tables._leaves(st_.child('then')) and not any(any(y is w[0] for y in st_.child('then').walk()) for w in steps)):
            break
        if st_.k == 'IfStmt' and st_.child('else') is None and tables._leaves(st_.child('then')):
            g_ = _strip_casts(st_.child('cond'))
            # the advance may sit inside this guard's condition (`if (++item == limit) item = items;` is the wrap, not a guard): stop there
            if any(any(y is w[0] for y in g_.walk()) for w in steps):
                break
            negated.append(g_)
        elif st_.k != 'DeclStmt':
            break
    occs = [c for c in conj if m.occ(c) is not None]
    others = [(c, True) for c in conj if m.occ(c) is None] + [(c, False) for c in negated]
    ok = len(occs) == 1 and m.occ(occs[0]) == (S, True) and len(others) == 1
    if ok:
        o, pol_ = others[0]
        # mismatch: strcmp(S->key, key) != 0   or   S-><field> != <parameter>   (or the negation of the matching test)
        mism = False
        if o.k == 'BinaryOperator' and o.op == ('!=' if pol_ else '=='):
            l, r = _strip_casts(o.child('lhs')), _strip_casts(o.child('rhs'))
            for a, b in ((l, r), (r, l)):
                if a.k == 'CallExpr' and a.callee == 'strcmp' and b.cv == 0:
                    fa = [m.field_of(x) for x in a.args]
                    pa = [_strip_casts(x) for x in a.args]
                    mism = any(fo is not None and fo[0] == S for fo in fa) and any(p.k == 'DeclRefExpr' and p.dk == 'param' for p in pa)
                fo = m.field_of(a)
                if fo is not None and fo[0] == S and b.k == 'DeclRefExpr' and b.dk == 'param':
                    mism = True
        ok = mism
    ctx.check(ok, rule, 'table/get_slot/%s/continue-condition' % m.label, L.loc(), 'the probe continues exactly while the slot is occupied and holds another key',
              'the probe loop condition is `%s`: it must be OCCUPIED(slot) && key-differs' % L.child('cond').text()[:120])


def check_del(ctx, m, rule):
    f = m.fn
    gs = [c for c in f.walk() if c.k == 'CXXMemberCallExpr' and (c.callee or '').endswith('::get_slot')]
    if len(gs) != 2:
        raise AnalysisBroken('%s: expected two get_slot calls (look-up and re-insertion), found %d' % (m.label, len(gs)))
    first = gs[0]
    S = None
    if first.parent is not None and first.parent.k == 'VarDecl':
        S = 'v%d:%s' % (first.parent.d, first.parent.n)
    if S is None or S not in m.slots:
        raise AnalysisBroken('%s: the slot found by get_slot is not kept in a cursor' % m.label)
    rets = [r for r in f.walk() if r.k == 'ReturnStmt']
    live = m.g.reachable_blocks()
    rets = [r for r in rets if m.g.where_node(r) is not None and m.g.where_node(r)[0] in live]     # `return true` after `while (true)` is dead code
    rf = [r for r in rets if _ret_bool(r) is False]
    rt = [r for r in rets if _ret_bool(r) is True]
    if not rf or not rt:
        raise AnalysisBroken('%s: return true / return false not found' % m.label)
    # key absent -> false: some `return false` is controlled by EMPTY(S) after the look-up
    ok = False
    for r in rf:
        if r.pos < first.pos:
            continue
        gd = m.guards(r)
        if any(m.occ(c) == (S, not br) for c, br in gd):
            ok = True
    ctx.check(ok, rule, 'table/del/%s/absent-returns-false' % m.label, f.loc(), 'a key that is not present (its slot is empty) returns false without touching the table')
    # count-- : exactly one, outside loops, dominating every `return true`, not followed by a `return false`
    decs = [u for u in f.walk() if (u.k == 'UnaryOperator' and u.op in ('--', 'post--') and lvalue_key(_strip_casts(u.child('sub'))) == 'this->count') or
            ((is_assign(u) or u.k == 'CompoundAssignOperator') and lvalue_key(_strip_casts(u.child('lhs'))) == 'this->count')]
    ok = len(decs) == 1 and decs[0].k == 'UnaryOperator' and m.loop_of(decs[0]) is None
    if ok:
        ok = all(m.g.node_dominates(decs[0], r) for r in rt) and not any(r.pos > decs[0].pos for r in rf)
    ctx.check(ok, rule, 'table/del/%s/count-once' % m.label, decs[0].loc() if decs else f.loc(), 'count is decremented exactly once, on every path that returns true and on no path that returns false',
              'count is not decremented exactly once per successful deletion (%d update(s))' % len(decs))
    # the repair loop
    steps = [w for w in m.writes(S) if w[1] == 'step']
    if not steps:
        raise AnalysisBroken('%s: the cluster after the deleted slot is not walked' % m.label)
    inloop = [w for w in steps if m.loop_of(w[0]) is not None]
    if not inloop:
        raise AnalysisBroken('%s: the cursor advance is not inside a loop' % m.label)
    L = m.loop_of(inloop[0][0])
    # every advance (the one that enters the cluster may sit before the loop) is a single step followed by the wrap test
    bad = [w[0] for w in steps if w[2] != 1 or m.wrap_after(w[0], S) is None or (m.loop_of(w[0]) is not None and m.loop_of(w[0]) is not L)]
    ctx.check(not bad, rule, 'table/del/%s/wraps' % m.label, (bad[0] if bad else steps[0][0]).loc(), 'the repair cursor advances one slot per iteration and wraps at items + capacity',
              'the repair cursor is advanced at %s without wrapping at items + capacity' % (bad[0].loc() if bad else ''))
    # the loop is left only at the first EMPTY slot
    exits = [x for x in L.walk() if x.k in ('ReturnStmt', 'BreakStmt', 'GotoStmt') and (x.k != 'BreakStmt' or LP.enclosing_loop(x) is L)]
    lc = _strip_casts(L.child('cond')) if L.child('cond') is not None else None
    cond_exit = lc is not None and not (lc.k == 'CXXBoolLiteralExpr' and lc.v) and lc.cv != 1
    wrong = []
    for x in exits:
        gd = m.guards(x, within=L)
        if not (len(gd) == 1 and m.occ(gd[0][0]) == (S, not gd[0][1])):
            wrong.append(x)
    if cond_exit:
        # `while (OCC(S))`-style loops: the condition itself must be the occupied test
        if m.occ(lc) != (S, True):
            wrong.append(L)
    if not exits and not cond_exit:
        raise AnalysisBroken('%s: the repair loop has no exit' % m.label)
    ctx.check(not wrong, rule, 'table/del/%s/repairs-whole-cluster' % m.label, (wrong[0] if wrong else L).loc(), 'the repair loop is left only when it reaches the first empty slot: every entry of the cluster behind the hole is re-inserted',
              'the repair loop can be left at %s on a condition other than "this slot is empty": entries later in the cluster stay behind the hole and can no longer be found' % (wrong[0].loc() if wrong else ''))
    # each visited entry is re-inserted through get_slot once per iteration
    second = gs[1]
    ok = m.loop_of(second) is L and LP.unconditional_in(_stmt_of(second), L)
    ctx.check(ok, rule, 'table/del/%s/reinserts-each' % m.label, second.loc(), 'every occupied slot of the cluster is re-inserted through get_slot (once per iteration)')


def _stmt_of(n):
    x = n
    while x.parent is not None and x.parent.k not in ('CompoundStmt', 'ForStmt', 'WhileStmt', 'DoStmt', 'IfStmt'):
        x = x.parent
    return x


def check_next(ctx, m, rule):
    f = m.fn
    rets = [r for r in f.walk() if r.k == 'ReturnStmt']
    cur = [k for k in m.slots if m.slots[k] is not None]
    if len(cur) < 1:
        raise AnalysisBroken('%s: no cursor' % m.label)
    # the cursor is the slot variable that is stepped
    S = next((k for k in cur if any(w[1] == 'step' for w in m.writes(k))), None)
    if S is None:
        raise AnalysisBroken('%s: cursor never advances' % m.label)
    step = next(w[0] for w in m.writes(S) if w[1] == 'step')
    L = m.loop_of(step)
    if L is None:
        raise AnalysisBroken('%s: no scan loop' % m.label)
    pk = 'v%d:%s' % (f.params[0]['d'], f.params[0]['n'])
    res = {}
    for given in (True, False):
        lp = LP.Loop(f, L, bools={pk: given})
        iv = lp.ivs.get(S)
        trip = lp.trip()
        res[given] = (iv['init'] if iv else None, iv['step'] if iv else None, trip)
    if any(v[0] is None or v[2] is None for v in res.values()):
        raise AnalysisBroken('%s: scan loop not summarised (%s)' % (m.label, res))
    end = {'this->items': 1, 'this->capacity': 1}
    ok = res[True][0] == {pk: 1, 1: 1} and res[False][0] == {'this->items': 1} and all(v[1] == 1 for v in res.values())
    ok = ok and all(not lin_add(lin_add(v[2], v[0]), end, -1) for v in res.values())
    ctx.check(ok, rule, 'table/next/%s/range' % m.label, L.loc(), 'iteration resumes one slot after the current item (or at items) and stops at items + capacity',
              'iteration starts at %s / %s and runs %s / %s slots: it must start one past the current item (or at items) and end at items + capacity' % (res[True][0], res[False][0], res[True][2], res[False][2]))
    inl = [r for r in rets if any(a is L for a in r.ancestors())]
    ok = bool(inl) and all(lvalue_key(_strip_casts(r.child('value'))) == S and any(m.occ(c) == (S, br) for c, br in m.guards(r, within=L)) for r in inl)
    after = [r for r in rets if r not in inl]
    ok = ok and bool(after) and all(_strip_casts(r.child('value')).is_null_const() for r in after)
    ctx.check(ok, rule, 'table/next/%s/returns-occupied' % m.label, f.loc(), 'only occupied slots are returned; NULL after the last slot')


def check_resize(ctx, m, rule):
    f = m.fn
    tv = [v for v in f.walk() if v.k == 'VarDecl' and '*' not in (v.t or '') and re.match(r'^(const )?(gdstk::)?(Map<.*>|Set<.*>|TagMap|StyleMap)$', (v.t or '').strip())]
    if len(tv) != 1:
        raise AnalysisBroken('%s: temporary table not found' % m.label)
    T = 'v%d:%s' % (tv[0].d, tv[0].n)
    pk = 'v%d:%s' % (f.params[0]['d'], f.params[0]['n'])
    asg = {}
    for a in f.walk():
        if is_assign(a) and a.op == '=':
            asg.setdefault(lvalue_key(_strip_casts(a.child('lhs'))), []).append(a)
    # the new table: capacity = parameter, count = 0, items = allocate_clear(parameter * sizeof(item))
    ok = all(len(asg.get(T + '.' + fld, [])) == 1 for fld in ('count', 'capacity', 'items'))
    if ok:
        ok = m.lin(asg[T + '.capacity'][0].child('rhs')) == {pk: 1} and m.lin(asg[T + '.count'][0].child('rhs')) == {}
        al = _strip_casts(asg[T + '.items'][0].child('rhs'))
        call = next((c for c in asg[T + '.items'][0].child('rhs').walk() if c.k == 'CallExpr' and c.callee == 'gdstk::allocate_clear'), None)
        ok = ok and call is not None and _size_is(m, call.args[0], {pk: 1})
    ctx.check(ok, rule, 'table/resize/%s/new-table' % m.label, f.loc(), 'the new table has the requested capacity, count 0 and a zeroed array of that many items')
    # every slot of the old array is visited once; occupied ones are inserted into the new table
    ins = [c for c in f.walk() if c.k == 'CXXMemberCallExpr' and (c.callee or '').split('::')[-1] == m.spec['insert'] and lvalue_key(_strip_casts(c.child('obj'))) == T]
    if len(ins) != 1:
        raise AnalysisBroken('%s: expected one insertion into the new table, found %d' % (m.label, len(ins)))
    L = m.loop_of(ins[0])
    if L is None:
        raise AnalysisBroken('%s: re-insertion is not in a loop' % m.label)
    lp = LP.Loop(f, L)
    gd = m.guards(ins[0], within=L)
    okg = len(gd) == 1 and m.occ(gd[0][0]) is not None and m.occ(gd[0][0])[1] == gd[0][1]
    S = m.occ(gd[0][0])[0] if okg else None
    vis = None
    if S is not None:
        sv = m.slots.get(S)
        # cursor form: S itself walks; index form: S = items + i / &items[i]
        ref = next((x for x in L.walk() if x.k == 'DeclRefExpr' and lvalue_key(x) == S and x.pos > (gd[0][0].pos - 1)), None)
        ptr = lp.lin(ref, ref) if ref is not None else None
        vis = lp.visits(ptr, 'this->items', {'this->capacity': 1}) if ptr is not None else None
        if ptr is None or lp.trip() is None:
            raise AnalysisBroken('%s: re-insertion loop not summarised' % m.label)
    ctx.check(okg and vis is not None, rule, 'table/resize/%s/reinserts-all' % m.label, L.loc(), 'every slot of the old array items[0..capacity) is visited once and every occupied one is inserted into the new table',
              'the re-insertion loop runs %s times from %s: it must visit every slot of items[0..capacity); entries in unvisited slots are dropped' % (lp.trip(), lp.ivs.get(S, {}).get('init') if S else None) if okg else 'the insertion into the new table is not guarded by the occupied test of the visited slot')
    # afterwards: old storage released, then all three fields taken over
    clr = [c for c in f.walk() if c.k == 'CXXMemberCallExpr' and (c.callee or '').endswith('::clear') and _strip_casts(c.child('obj')).k == 'CXXThisExpr']
    take = {fld: asg.get('this->' + fld, []) for fld in ('count', 'capacity', 'items')}
    ok = len(clr) == 1 and clr[0].pos > L.pos and all(len(v) == 1 and v[0].pos > clr[0].pos and lvalue_key(_strip_casts(v[0].child('rhs'))) == T + '.' + fld for fld, v in take.items())
    ctx.check(ok, rule, 'table/resize/%s/takes-over' % m.label, f.loc(), 'after the loop the old array is cleared and count, capacity and items are taken from the new table',
              'after re-insertion the table does not clear() and then take count, capacity and items from the new table')


def _size_is(m, e, count_lin):
    """e == <count_lin> * sizeof(item)"""
    e = _strip_casts(e)
    while e is not None and e.k == 'ParenExpr':
        e = _strip_casts(e.c[0])
    if e is None or e.k != 'BinaryOperator' or e.op != '*':
        return False
    l, r = _strip_casts(e.child('lhs')), _strip_casts(e.child('rhs'))
    for a, b in ((l, r), (r, l)):
        if b.k == 'UnaryExprOrTypeTraitExpr' and re.search(m.spec['item'], b.argt or b.text() or ''):
            return m.lin(a) == count_lin
    return False


def check_has(ctx, m, rule):
    f = m.fn
    gs = [c for c in f.walk() if c.k == 'CXXMemberCallExpr' and (c.callee or '').endswith('::get_slot')]
    if len(gs) != 1 or gs[0].parent is None or gs[0].parent.k != 'VarDecl':
        raise AnalysisBroken('%s: look-up form not recognised' % m.label)
    S = 'v%d:%s' % (gs[0].parent.d, gs[0].parent.n)
    rets = [r for r in f.walk() if r.k == 'ReturnStmt' and r.pos > gs[0].pos]
    ok = len(rets) == 1 and m.occ(rets[0].child('value')) == (S, True)
    ctx.check(ok, rule, 'table/has/%s/occupied' % m.label, f.loc(), 'membership is the occupied test of the slot get_slot returns')


def check_copy_from(ctx, m, rule):
    f = m.fn
    pk = 'v%d:%s' % (f.params[0]['d'], f.params[0]['n'])
    asg = {}
    for a in f.walk():
        if is_assign(a) and a.op == '=':
            asg.setdefault(lvalue_key(_strip_casts(a.child('lhs'))), []).append(a)
    ok = all(len(asg.get('this->' + fld, [])) == 1 for fld in ('count', 'capacity', 'items'))
    if ok:
        ok = m.lin(asg['this->count'][0].child('rhs')) == {} and m.lin(asg['this->capacity'][0].child('rhs')) == {pk + '.capacity': 1}
        call = next((c for c in asg['this->items'][0].child('rhs').walk() if c.k == 'CallExpr' and c.callee == 'gdstk::allocate_clear'), None)
        ok = ok and call is not None and (_size_is(m, call.args[0], {'this->capacity': 1}) or _size_is(m, call.args[0], {pk + '.capacity': 1}))
        ok = ok and asg['this->capacity'][0].pos < asg['this->items'][0].pos
    ctx.check(ok, rule, 'table/copy_from/%s/storage' % m.label, f.loc(), 'the copy starts empty with the source capacity and a zeroed array of that many items')
    ins = [c for c in f.walk() if c.k == 'CXXMemberCallExpr' and (c.callee or '').split('::')[-1] == m.spec['insert'] and _strip_casts(c.child('obj')).k == 'CXXThisExpr']
    if len(ins) != 1:
        raise AnalysisBroken('%s: expected one insertion, found %d' % (m.label, len(ins)))
    L = m.loop_of(ins[0])
    if L is None or L.k != 'ForStmt':
        raise AnalysisBroken('%s: iteration form not recognised' % m.label)
    # for (it = src.next(NULL); it; it = src.next(it))
    nx = [c for c in list(L.child('init').walk()) + list(L.child('inc').walk()) if c.k == 'CXXMemberCallExpr' and (c.callee or '').endswith('::next') and lvalue_key(_strip_casts(c.child('obj'))) == pk]
    ok = len(nx) == 2 and _strip_casts(nx[0].args[0]).is_null_const() and LP.unconditional_in(_stmt_of(ins[0]), L)
    if ok:
        it = L.child('init')
        var = next((v for v in it.walk() if v.k == 'VarDecl'), None)
        ok = var is not None and lvalue_key(_strip_casts(nx[1].args[0])) == 'v%d:%s' % (var.d, var.n)
    ctx.check(ok, rule, 'table/copy_from/%s/all-entries' % m.label, L.loc(), 'every entry of the source (next(NULL) ... next(it) until NULL) is inserted once')


def check_insert(ctx, m, rule):
    from .props.C19 import ieval
    f = m.fn
    gs = [c for c in f.walk() if c.k == 'CXXMemberCallExpr' and (c.callee or '').endswith('::get_slot')]
    rz = [c for c in f.walk() if c.k == 'CXXMemberCallExpr' and (c.callee or '').endswith('::resize') and _strip_casts(c.child('obj')).k == 'CXXThisExpr']
    if len(gs) != 1 or len(rz) != 1:
        raise AnalysisBroken('%s: expected one get_slot and one resize call' % m.label)
    gd = m.guards(rz[0])
    if len(gd) != 1 or gd[0][1] is not True:
        raise AnalysisBroken('%s: growth test form not recognised' % m.label)
    c = _strip_casts(gd[0][0])
    while c is not None and c.k == 'ParenExpr':
        c = _strip_casts(c.c[0])
    if c is None or c.k != 'BinaryOperator' or c.op not in ('>=', '>', '<=', '<'):
        raise AnalysisBroken('%s: growth test `%s` not a comparison' % (m.label, gd[0][0].text()[:60]))
    # the table must grow (a) when it is empty with capacity 0 and (b) before it can become full: evaluated on the
    # boundary valuations count in {0, capacity-1, capacity} for capacity in {0, 1, 2, 8, 1024}
    from . import minieval

    def ev(e, count, cap):
        try:
            return _eval_members(e, {'count': count, 'capacity': cap})
        except AnalysisBroken:
            # the value is computed through locals (a named new capacity assigned in an if): evaluate the backward slice
            return minieval.value_at(m.db, e, members={'this->count': count, 'this->capacity': cap})

    def holds(count, cap):
        return ev(c, count, cap)
    grow_empty = holds(0, 0)
    # capacities the table can have: 0 and whatever the growth expression produces from there
    caps = [0]
    for _ in range(12):
        caps.append(ev(rz[0].args[0], caps[-1], caps[-1]))
    newcap = list(zip(caps[1:], caps[:-1]))
    never_full = all(holds(cap - 1, cap) for cap in caps[1:] if cap > 0)     # using the last free slot must have triggered growth first
    ok = bool(grow_empty) and never_full and all(n_ > cap and n_ >= 2 for n_, cap in newcap)
    ctx.check(ok, rule, 'table/insert/%s/grows-before-full' % m.label, gd[0][0].loc(), 'the table grows when empty with capacity 0 and always before its last free slot would be used; the new capacity is larger than the old one',
              'growth test `%s` with new capacity `%s`: grows at (count 0, capacity 0): %s; grows before the last free slot is used: %s; new capacities %s' % (c.text()[:80], rz[0].args[0].text()[:80], bool(grow_empty), never_full, newcap))
    ok = m.g.node_dominates(gd[0][0], gs[0]) and rz[0].pos < gs[0].pos
    ctx.check(ok, rule, 'table/insert/%s/grows-before-lookup' % m.label, gs[0].loc(), 'the growth test precedes the slot look-up (a slot found before a resize would dangle)')


def _eval_members(e, vals):
    """evaluate an integer expression over this->count / this->capacity"""
    from .props.C19 import ieval
    e = _strip_casts(e)
    if e is None:
        raise AnalysisBroken('empty expression')
    if e.k == 'MemberExpr' and e.n in vals and (e.child('base') is None or _strip_casts(e.child('base')).k == 'CXXThisExpr'):
        return vals[e.n]
    if e.cv is not None and e.k != 'DeclRefExpr':
        return e.cv
    if e.k == 'ParenExpr':
        return _eval_members(e.c[0], vals)
    if e.k == 'BinaryOperator':
        a, b = _eval_members(e.child('lhs'), vals), _eval_members(e.child('rhs'), vals)
        import operator as O
        fn = {'+': O.add, '-': O.sub, '*': O.mul, '<': O.lt, '>': O.gt, '<=': O.le, '>=': O.ge, '==': O.eq, '!=': O.ne, '<<': O.lshift, '>>': O.rshift,
              '&&': lambda x, y: int(bool(x) and bool(y)), '||': lambda x, y: int(bool(x) or bool(y))}.get(e.op)
        if e.op == '/':
            if b == 0:
                raise AnalysisBroken('division by zero in growth expression')
            return a // b
        if fn is None:
            raise AnalysisBroken('operator %s in growth expression' % e.op)
        return int(fn(a, b))
    if e.k == 'ConditionalOperator':
        return _eval_members(e.child('then') if _eval_members(e.child('cond'), vals) else e.child('else'), vals)
    raise AnalysisBroken('growth expression not evaluable: %s' % e.text()[:60])


CHECKS = {'get_slot': check_get_slot, 'del': check_del, 'next': check_next, 'resize': check_resize, 'has': check_has, 'copy_from': check_copy_from, 'insert': check_insert}
