"""Linear normalisation of integer expressions through reaching single definitions.
lin_of() returns {symbol: coeff, 1: const} or None when the expression is not linear."""
from .flow import lvalue_key, is_assign

CASTS = ('ImplicitCastExpr', 'CStyleCastExpr', 'CXXStaticCastExpr', 'CXXFunctionalCastExpr')


def lin_add(a, b, sb=1):
    out = dict(a)
    for k, v in b.items():
        out[k] = out.get(k, 0) + sb * v
        if out[k] == 0:
            del out[k]
    return out


def lin_sub(a, b):
    return lin_add(a, b, -1)


def lin_scale(a, s):
    return {k: v * s for k, v in a.items() if v * s != 0}


def defs_of(fn, key):
    out = []
    for n in fn.walk():
        if n.k == 'VarDecl' and 'v%d:%s' % (n.d, n.n) == key and n.child('init') is not None:
            out.append((n, n.child('init')))
        elif is_assign(n) and lvalue_key(n.child('lhs')) == key:
            out.append((n, n.child('rhs') if n.op == '=' else None))
        elif n.k == 'UnaryOperator' and n.op in ('++', '--', 'post++', 'post--') and lvalue_key(n.child('sub')) == key:
            out.append((n, None))
        elif n.k in ('CallExpr', 'CXXMemberCallExpr'):
            for a in n.args:
                if a.k == 'UnaryOperator' and a.op == '&' and lvalue_key(a.child('sub')) == key:
                    out.append((n, None))
    return out


def _reach(g, a, b):
    """position a can reach position b (block granularity, index-aware in the same block)."""
    (ba, ia), (bb, ib) = a, b
    if ba == bb and ia < ib:
        return True
    seen = set()
    st = list(g.succs(ba))
    while st:
        x = st.pop()
        if x in seen:
            continue
        seen.add(x)
        if x == bb:
            return True
        st.extend(g.succs(x))
    return False


def reaching_def(fn, key, at):
    """The unique definition of `key` that reaches node `at`, as (def node, rhs or None); None when ambiguous."""
    g = fn.cfg
    wat = g.where_node(at)
    if wat is None:
        return None
    ds = defs_of(fn, key)
    cand = []
    for d, rhs in ds:
        wd = g.where_node(d)
        if wd is None:
            return None
        if wd != wat and g.dominates(wd, wat):
            cand.append((d, rhs, wd))
    if not cand:
        return None
    # latest dominating def
    best = cand[0]
    for c in cand[1:]:
        if g.dominates(best[2], c[2]):
            best = c
    for d, rhs in ds:
        if d is best[0]:
            continue
        wd = g.where_node(d)
        if wd == wat:
            continue
        if _reach(g, best[2], wd) and _reach(g, wd, wat):
            return None
    return best[0], best[1]


def lin_of(fn, e, at=None, opaque=(), frozen_after=None, depth=0):
    if e is None or depth > 12:
        return None
    at = at or e
    k = e.k
    if e.cv is not None and k not in ('DeclRefExpr',):
        return {1: e.cv} if e.cv != 0 else {}
    if k in CASTS:
        return lin_of(fn, e.child('sub'), at, opaque, frozen_after, depth + 1)
    if k == 'BinaryOperator':
        l = lin_of(fn, e.child('lhs'), at, opaque, frozen_after, depth + 1)
        r = lin_of(fn, e.child('rhs'), at, opaque, frozen_after, depth + 1)
        if l is None or r is None:
            return {('expr', e.text()): 1}
        if e.op == '+':
            return lin_add(l, r)
        if e.op == '-':
            return lin_sub(l, r)
        if e.op == '*':
            if set(l) <= {1}:
                return lin_scale(r, l.get(1, 0))
            if set(r) <= {1}:
                return lin_scale(l, r.get(1, 0))
        return {('expr', e.text()): 1}
    if k in ('DeclRefExpr', 'MemberExpr'):
        key = lvalue_key(e)
        if key is None:
            return {('expr', e.text()): 1}
        if key in opaque:
            return {key: 1}
        if k == 'DeclRefExpr' and e.dk in ('local', 'param', 'static'):
            rd = reaching_def(fn, key, at)
            if rd is not None and rd[1] is not None:
                sub = lin_of(fn, rd[1], rd[0], opaque, frozen_after, depth + 1)
                if sub is not None and not any(isinstance(s, tuple) for s in sub):
                    return sub
        return {key: 1}
    return {('expr', e.text()): 1}
