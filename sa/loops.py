"""Affine loop analysis: which element does iteration k touch, and how many iterations are there?

A counting loop is summarised independently of its FORM (counting down with a walking cursor, counting up with an
index, pointer-bounded, `while (n-- > 0)`): every variable that is only ever changed by constant steps, each executed
exactly once per iteration, is an induction variable with value  init + step*k (+ the steps that precede the use in
the same iteration); the trip count follows from the loop condition; and every pointer/element expression in the
body gets the linear form  base + a + b*k.  Rules then ask semantic questions ("does the loop visit every element of
`elements[0..num_elements)` exactly once?", "is the entry appended for element k taken from `width_[k]`?") instead
of matching the spelling of the loop.

Linear forms are dicts {symbol: coeff, 1: const, K: coeff-of-k}; symbols are lvalue keys (flow.lvalue_key) of
loop-invariant quantities. None means "not affine / not understood" and makes the caller's obligation undecidable
(analysis-broken), never a pass."""
from .flow import lvalue_key, is_assign, _strip_casts
from .linear import lin_add, lin_scale

K = '@k'


def _is_ptr_type(t):
    t = (t or '').strip()
    return t.endswith('*') or t.endswith('*const') or t.endswith('* const') or ('*' in t and not t.endswith(')'))


def _pointee(t):
    return (t or '').replace('const', '').replace('*', '').replace('gdstk::', '').strip()


def _is_base_key(k):
    return isinstance(k, str) and (k.endswith('.items') or k.endswith('->items') or k.endswith('->elements') or k.endswith('.elements'))


def _inside(node, anc):
    x = node
    while x is not None:
        if x is anc:
            return True
        x = x.parent
    return False


class Loop:
    def __init__(self, fn, loop, bools=None):
        """bools: {lvalue key or normalised text: True/False} used to fold conditional operators / guards"""
        self.fn = fn
        self.loop = loop
        self.bools = bools or {}
        self.body = loop.child('body')
        self.cond = loop.child('cond')
        self.inc = loop.child('inc') if loop.k == 'ForStmt' else None
        self.init = loop.child('init') if loop.k == 'ForStmt' else None
        self._writes = None
        self.ivs = {}
        self._find_ivs()

    # ---- writes inside the loop -----------------------------------------------------------------
    def writes(self):
        """[(key, node, step or None, region)] for every write to a scalar/pointer lvalue inside the loop
        (init clause excluded); region in 'cond' | 'body' | 'inc'"""
        if self._writes is not None:
            return self._writes
        out = []
        for region, root in (('cond', self.cond), ('body', self.body), ('inc', self.inc)):
            if root is None:
                continue
            for x in root.walk():
                if x.k == 'UnaryOperator' and x.op in ('++', '--', 'post++', 'post--'):
                    out.append((lvalue_key(_strip_casts(x.child('sub'))), x, 1 if '+' in x.op else -1, region))
                elif is_assign(x) or x.k == 'CompoundAssignOperator':
                    lhs = x.args[0] if x.k == 'CXXOperatorCallExpr' else x.child('lhs')
                    rhs = x.args[1] if x.k == 'CXXOperatorCallExpr' else x.child('rhs')
                    key = lvalue_key(_strip_casts(lhs))
                    step = None
                    if x.op in ('+=', '-=') and rhs is not None and _strip_casts(rhs).cv is not None:
                        step = _strip_casts(rhs).cv * (1 if x.op == '+=' else -1)
                    out.append((key, x, step, region))
                elif x.k == 'VarDecl' and region == 'body':
                    pass
                elif x.k in ('CallExpr', 'CXXMemberCallExpr'):
                    for a in x.args:
                        a = _strip_casts(a)
                        if a is not None and a.k == 'UnaryOperator' and a.op == '&':
                            out.append((lvalue_key(_strip_casts(a.child('sub'))), x, None, region))
        self._writes = out
        return out

    def _once_per_iteration(self, node, region):
        """the write executes exactly once in every iteration: not under an if / inner loop / ?: / && / ||"""
        root = {'cond': self.cond, 'body': self.body, 'inc': self.inc}[region]
        x = node.parent
        prev = node
        while x is not None and prev is not root:
            if x.k in ('IfStmt', 'ForStmt', 'WhileStmt', 'DoStmt', 'SwitchStmt', 'ConditionalOperator'):
                if not (x.k == 'IfStmt' and prev is x.child('cond')) and x is not self.loop:
                    return False
            if x.k == 'BinaryOperator' and x.op in ('&&', '||') and prev is x.child('rhs'):
                return False
            if x is self.loop:
                break
            prev = x
            x = x.parent
        # a `continue` / `break` before the write in the body would skip it
        if region == 'body':
            for y in self.body.walk():
                if y.k in ('ContinueStmt',) and y.pos < node.pos and self._owner_loop(y) is self.loop:
                    return False
        return True

    def _owner_loop(self, node):
        x = node.parent
        while x is not None:
            if x.k in ('ForStmt', 'WhileStmt', 'DoStmt'):
                return x
            x = x.parent
        return None

    def _find_ivs(self):
        by = {}
        for key, node, step, region in self.writes():
            if key is None:
                continue
            by.setdefault(key, []).append((node, step, region))
        for key, ws in by.items():
            if all(step is not None and self._once_per_iteration(node, region) for node, step, region in ws):
                init = self.entry_value(key)
                self.ivs[key] = {'init': init, 'step': sum(s for _, s, _ in ws), 'writes': ws}

    # ---- values at loop entry ----------------------------------------------------------------------
    def outside_defs(self, key):
        out = []
        for n in self.fn.walk():
            if _inside(n, self.loop) and not (self.init is not None and _inside(n, self.init)):
                continue
            if n.k == 'VarDecl' and 'v%d:%s' % (n.d, n.n) == key:
                out.append((n, n.child('init')))
            elif (is_assign(n) or n.k == 'CompoundAssignOperator') and lvalue_key(_strip_casts(n.args[0] if n.k == 'CXXOperatorCallExpr' else n.child('lhs'))) == key:
                out.append((n, (n.args[1] if n.k == 'CXXOperatorCallExpr' else n.child('rhs')) if n.op == '=' else None))
            elif n.k == 'UnaryOperator' and n.op in ('++', '--', 'post++', 'post--') and lvalue_key(_strip_casts(n.child('sub'))) == key:
                out.append((n, None))
        return out

    def entry_value(self, key, depth=0):
        """linear form of `key` when the loop is entered (through its unique latest definition before the loop)"""
        defs = [(n, rhs) for n, rhs in self.outside_defs(key) if n.pos < self.loop.pos or (self.init is not None and _inside(n, self.init))]
        if not defs:
            return {key: 1}           # a parameter / member that is not assigned before the loop: its own symbol
        g = self.fn.cfg
        wl = g.where_node(self.loop.child('cond') or self.loop)
        if wl is None:
            return None
        # definitions in a branch that cannot reach this loop (e.g. the sibling loop of the other orientation) do not count
        from .linear import _reach
        reaching = []
        for n, rhs in defs:
            wd = g.where_node(n)
            if wd is None:
                return None
            if wd == wl or _reach(g, wd, wl):
                reaching.append((n, rhs, wd))
        if not reaching:
            return {key: 1}
        # under the valuation self.bools a conditional definition (`if (given) cur = given + 1;`) either does not happen or happens for sure
        from . import tables
        feasible = []
        for n, rhs, wd in reaching:
            vals = [(self.fold(c_), pol) for c_, pol in tables.path_conds(n)] if self.bools else []
            if any(v is not None and v != pol for v, pol in vals):
                continue
            feasible.append((n, rhs, wd, bool(vals) and all(v is not None for v, pol in vals)))
        if not feasible:
            return {key: 1}
        n, rhs, wd, certain = max(feasible, key=lambda d: d[0].pos)
        # the latest textual definition must dominate the loop (be unconditional relative to it), or be certain under the valuation
        if not (g.dominates(wd, wl) or certain):
            return None
        if rhs is None:
            return None
        if depth > 8:
            return None
        return self.lin(rhs, at_entry=True, depth=depth + 1)

    # ---- linear forms -----------------------------------------------------------------------------
    def fold(self, cond):
        """truth value of a condition under self.bools, or None"""
        c = _strip_casts(cond)
        if c is None:
            return None
        if c.k == 'ParenExpr':
            return self.fold(c.c[0])
        if c.k == 'UnaryOperator' and c.op == '!':
            v = self.fold(c.child('sub'))
            return None if v is None else (not v)
        k = lvalue_key(c)
        if k in self.bools:
            return self.bools[k]
        t = ' '.join(c.text().split())
        if t in self.bools:
            return self.bools[t]
        if c.k in ('DeclRefExpr',) and c.dk == 'local':
            # a boolean local with a single definition: fold its initialiser
            ds = [(n, rhs) for n, rhs in self.outside_defs(k)]
            if len(ds) == 1 and ds[0][1] is not None:
                return self.fold(ds[0][1])
        return None

    @staticmethod
    def fold_static(fn, cond, bools):
        """truth value of a condition under `bools` without a loop context (for pruning executed statements)"""
        lp = Loop.__new__(Loop)
        lp.fn, lp.bools, lp.loop, lp.init = fn, bools, None, None
        lp.outside_defs = lambda key: [(n, n.child('init')) for n in fn.walk() if n.k == 'VarDecl' and 'v%d:%s' % (n.d, n.n) == key]
        return lp.fold(cond)

    def lin(self, e, at=None, at_entry=False, depth=0):
        """linear form of an integer- or pointer-valued expression evaluated at node `at` (default: e itself) in
        iteration k, or at loop entry"""
        if e is not None and e.k in ('CStyleCastExpr', 'CXXReinterpretCastExpr', 'CXXStaticCastExpr') and e.child('sub') is not None:
            # a view of an array of points as an array of scalars (`(double*)vec2_ptr`): offsets double
            tt, st = (e.t or ''), (_strip_casts(e.child('sub')).t or '') if _strip_casts(e.child('sub')) is not None else ''
            if _is_ptr_type(tt) and _is_ptr_type(st) and _pointee(tt) in ('double', 'int32_t', 'int64_t') and 'Vec2' in _pointee(st):
                v = self.lin(e.child('sub'), at or e, at_entry, depth + 1)
                if v is None:
                    return None
                return {k_: (c if _is_base_key(k_) else 2 * c) for k_, c in v.items()}
        e = _strip_casts(e)
        if e is None or depth > 24:
            return None
        at = at or e
        k = e.k
        if e.cv is not None and k != 'DeclRefExpr':
            return {1: e.cv} if e.cv else {}
        if k == 'CXXNullPtrLiteralExpr' or k == 'GNUNullExpr':
            return {}
        if k == 'ParenExpr':
            return self.lin(e.c[0], at, at_entry, depth + 1)
        if k == 'ConditionalOperator':
            v = self.fold(e.child('cond'))
            if v is None:
                return None
            return self.lin(e.child('then') if v else e.child('else'), at, at_entry, depth + 1)
        if k == 'BinaryOperator' and e.op in ('+', '-'):
            a, b = self.lin(e.child('lhs'), at, at_entry, depth + 1), self.lin(e.child('rhs'), at, at_entry, depth + 1)
            if a is None or b is None:
                return None
            return lin_add(a, b, 1 if e.op == '+' else -1)
        if k == 'BinaryOperator' and e.op == '*':
            a, b = self.lin(e.child('lhs'), at, at_entry, depth + 1), self.lin(e.child('rhs'), at, at_entry, depth + 1)
            if a is None or b is None:
                return None
            if set(a) <= {1}:
                return lin_scale(b, a.get(1, 0))
            if set(b) <= {1}:
                return lin_scale(a, b.get(1, 0))
            return None
        if k == 'UnaryOperator' and e.op in ('post++', 'post--', '++', '--'):
            sub = _strip_casts(e.child('sub'))
            v = self.lin(sub, e, at_entry, depth + 1)
            if v is None:
                return None
            if not e.op.startswith('post'):
                v = lin_add(v, {1: 1 if '+' in e.op else -1})
            return v
        if k == 'UnaryOperator' and e.op == '&':
            return self.addr(e.child('sub'), at, at_entry, depth + 1)
        if k == 'UnaryOperator' and e.op == '-':
            v = self.lin(e.child('sub'), at, at_entry, depth + 1)
            return None if v is None else lin_scale(v, -1)
        if k in ('DeclRefExpr', 'MemberExpr'):
            key = lvalue_key(e)
            if key is None:
                return None
            if k == 'DeclRefExpr' and e.dk == 'enum':
                return {1: e.cv} if e.cv else {}
            if at_entry:
                if k == 'DeclRefExpr' and e.dk in ('local', 'param', 'static'):
                    return self.entry_value(key, depth + 1)
                if self._written_anywhere_before(key):
                    v = self.entry_value(key, depth + 1)
                    if v is not None:
                        return v
                    # conditionally assigned before the loop (e.g. `offsets.items = &zero` in one branch): the value at
                    # loop entry is a symbol of its own as long as the loop does not change it
                    if not any(wk == key for wk, _, _, _ in self.writes()):
                        return {key: 1}
                    return None
                return {key: 1}
            if key in self.ivs:
                iv = self.ivs[key]
                if iv['init'] is None:
                    return None
                v = lin_add(iv['init'], {K: iv['step']})
                pre = 0
                for node, step, region in iv['writes']:
                    if self._precedes(node, region, at):
                        pre += step
                return lin_add(v, {1: pre}) if pre else v
            if any(wk == key for wk, _, _, _ in self.writes()):
                return None           # changed in the loop, but not by constant steps
            if k == 'DeclRefExpr' and e.dk == 'local':
                # declared inside the body (per-iteration value) or before the loop (invariant)
                decl = next((v for v in self.loop.walk() if v.k == 'VarDecl' and 'v%d:%s' % (v.d, v.n) == key), None)
                if decl is not None and not (self.init is not None and _inside(decl, self.init)):
                    if decl.child('init') is None:
                        return None
                    if '&' in (decl.t or '') and not _is_ptr_type(decl.t):
                        return None     # a reference: callers use addr()
                    return self.lin(decl.child('init'), decl, False, depth + 1)
                return self.entry_value(key, depth + 1)
            if k == 'DeclRefExpr' and e.dk == 'param':
                ev = self.entry_value(key, depth + 1)
                return ev
            return {key: 1}
        if k in ('ArraySubscriptExpr', 'CXXOperatorCallExpr') or (k == 'UnaryOperator' and e.op == '*'):
            # value of an element: not a linear quantity (but its ADDRESS is; see addr())
            return None
        if k in ('CallExpr', 'CXXMemberCallExpr'):
            return None
        return None

    def _written_anywhere_before(self, key):
        return any(True for _ in self.outside_defs(key))

    def _precedes(self, wnode, region, at):
        """does the write (in `region`) happen before `at` within the same iteration?"""
        if region == 'inc':
            return self.inc is not None and _inside(at, self.inc) and wnode.pos < at.pos and not _inside(at, wnode)
        if region == 'cond':
            if self.cond is not None and _inside(at, self.cond):
                # pre-forms take effect before the comparison, post-forms after it
                return wnode.pos < at.pos and not _inside(at, wnode)
            return True        # the condition of iteration k runs before its body and increment
        # region == 'body'
        if self.cond is not None and _inside(at, self.cond):
            return False       # accounted as part of the previous iteration: init + step*k already includes it
        if self.inc is not None and _inside(at, self.inc):
            return True
        if _inside(at, wnode):
            return not wnode.op.startswith('post') if wnode.k == 'UnaryOperator' else False
        return wnode.pos < at.pos

    def addr(self, e, at=None, at_entry=False, depth=0):
        """linear form of the ADDRESS of an lvalue (in units of the element type): `a[i]`, `*p`, `arr[i]` (Array<T>),
        `p->...` is handled by callers through the base pointer"""
        e = _strip_casts(e)
        if e is None or depth > 24:
            return None
        at = at or e
        if e.k == 'ParenExpr':
            return self.addr(e.c[0], at, at_entry, depth + 1)
        if e.k == 'UnaryOperator' and e.op == '*':
            return self.lin(e.child('sub'), at, at_entry, depth + 1)
        if e.k == 'ArraySubscriptExpr':
            b = self.lin(e.child('base') or e.c[0], at, at_entry, depth + 1)
            i = self.lin(e.child('idx') or e.c[1], at, at_entry, depth + 1)
            return None if b is None or i is None else lin_add(b, i)
        if e.k == 'CXXOperatorCallExpr' and e.op == '[]' and len(e.args) == 2:
            bk = lvalue_key(_strip_casts(e.args[0]))
            i = self.lin(e.args[1], at, at_entry, depth + 1)
            if bk is None or i is None:
                return None
            return lin_add({bk + '.items': 1}, i)
        if e.k == 'DeclRefExpr' and '&' in (e.t or '') or (e.k == 'DeclRefExpr' and e.dk == 'local'):
            key = lvalue_key(e)
            decl = next((v for v in self.loop.walk() if v.k == 'VarDecl' and 'v%d:%s' % (v.d, v.n) == key), None)
            if decl is not None and '&' in (decl.t or '') and decl.child('init') is not None:
                return self.addr(decl.child('init'), decl, False, depth + 1)
            return None
        if e.k == 'ConditionalOperator':
            v = self.fold(e.child('cond'))
            if v is None:
                return None
            return self.addr(e.child('then') if v else e.child('else'), at, at_entry, depth + 1)
        return None

    def element_ptr(self, e, at=None):
        """linear form of the pointer to the element that an access path goes through: for `el->f`, `(*pp)->f`,
        `arr[i].f`, `p[i].f`, `ref.f` (ref bound to an element) the element's address"""
        e = _strip_casts(e)
        at = at or e
        if e is None:
            return None
        if e.k == 'MemberExpr':
            b = e.child('base')
            arrow = e.arrow
            while b is not None and _strip_casts(b).k == 'MemberExpr' and not _strip_casts(b).n:
                arrow = _strip_casts(b).arrow
                b = _strip_casts(b).child('base')
            b = _strip_casts(b)
            if b is None:
                return None
            if arrow:
                return self.lin(b, at)
            a = self.addr(b, at)
            if a is not None:
                return a
            return self.element_ptr(b, at)
        return self.addr(e, at)

    # ---- trip count -------------------------------------------------------------------------------
    def trip(self):
        """number of iterations as a linear form over entry-time symbols, or None"""
        c = _strip_casts(self.cond)
        if c is None:
            return None
        while c.k == 'ParenExpr':
            c = _strip_casts(c.c[0])
        if c.k == 'BinaryOperator' and c.op in ('<', '>', '<=', '>=', '!='):
            l, r, op = c.child('lhs'), c.child('rhs'), c.op
        elif c.k in ('DeclRefExpr', 'UnaryOperator', 'MemberExpr'):
            l, r, op = c, None, '!='       # `while (n)` / `while (n--)`
        else:
            return None
        # value of both sides at the test of iteration k
        a = self.lin(l, l)
        b = self.lin(r, r) if r is not None else {}
        if a is None or b is None:
            return None
        d = lin_add(a, b, -1)           # lhs - rhs at iteration k
        s = d.get(K, 0)
        d0 = {x: v for x, v in d.items() if x != K}
        if op == '<' and s > 0:          # continues while d0 + s k < 0
            return self._div(lin_scale(d0, -1), s)
        if op == '>' and s < 0:
            return self._div(d0, -s)
        if op == '<=' and s > 0:
            return self._div(lin_add(lin_scale(d0, -1), {1: 1}), s)
        if op == '>=' and s < 0:
            return self._div(lin_add(d0, {1: 1}), -s)
        if op == '!=' and s != 0:
            return self._div(lin_scale(d0, -1 if s > 0 else 1), abs(s))
        return None

    @staticmethod
    def _div(lin, s):
        if s == 1:
            return lin
        if all(v % s == 0 for v in lin.values()):
            return {k_: v // s for k_, v in lin.items()}
        return None

    # ---- the questions rules ask ----------------------------------------------------------------------
    def visits(self, ptr_lin, base, count):
        """does a pointer with linear form ptr_lin range over base[0..count) exactly once over the loop?
        base: symbol key; count: linear form. Returns 'forward' | 'backward' | None"""
        t = self.trip()
        if t is None or ptr_lin is None:
            return None
        if lin_add(t, count, -1):
            return None
        rest = lin_add(ptr_lin, {base: 1}, -1)
        b = rest.pop(K, 0)
        if b == 1 and not rest:
            return 'forward'
        if b == -1 and not lin_add(rest, lin_add(count, {1: -1}), -1):
            return 'backward'
        return None


def loops_of(fn, root=None):
    return [x for x in (root.walk() if root is not None else fn.walk()) if x.k in ('ForStmt', 'WhileStmt')]


def enclosing_loop(node):
    x = node.parent
    while x is not None:
        if x.k in ('ForStmt', 'WhileStmt', 'DoStmt'):
            return x
        x = x.parent
    return None


def unconditional_in(node, loop):
    """node executes exactly once per iteration of loop (no if / inner loop / switch between them)"""
    x = node.parent
    prev = node
    while x is not None and x is not loop:
        if x.k in ('IfStmt', 'ForStmt', 'WhileStmt', 'DoStmt', 'SwitchStmt', 'ConditionalOperator') and not (x.k == 'IfStmt' and prev is x.child('cond')):
            return False
        prev = x
        x = x.parent
    return x is loop
