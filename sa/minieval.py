"""Evaluation of small, pure classifier code on representatives of a finite abstract domain (decision tables).

A classifier is a piece of library code whose only job is to map its input to one of a few constants (a record
type code, a string class, a direction). Its decision table over a finite partition of the input space is computed
by interpreting the statements over the mini-AST on one representative per class: integers, booleans, read-only byte
arrays behind pointers, locals, if/for/while/do/break/continue/return, conditional expressions, and calls of other
repo functions with a body (inlined). Output calls are handed to a hook. Nothing from /repo is compiled or run; the
step budget turns a non-terminating interpretation into analysis-broken."""
from .facts import AnalysisBroken
from .flow import _strip_casts, is_assign


class Return(Exception):
    def __init__(self, v):
        self.v = v


class Stop(Exception):
    def __init__(self, v=None):
        self.v = v


class _Break(Exception):
    pass


class _Continue(Exception):
    pass


class Ptr:
    __slots__ = ('arr', 'i')

    def __init__(self, arr, i=0):
        self.arr, self.i = arr, i

    def __eq__(self, o):
        return isinstance(o, Ptr) and o.arr is self.arr and o.i == self.i

    def __hash__(self):
        return hash((id(self.arr), self.i))


class DPtr(Ptr):
    """a `double*` into an array of Vec2 objects (`(double*)points`): element 2k is points[k].x, element 2k+1 is points[k].y"""
    __slots__ = ()


class Vector:
    """a std::vector: iterators are Ptr(self.lst, index). insert() keeps the list object, so iterators taken before an insertion
    keep their positions, as they do in a vector whose capacity was reserved"""
    __slots__ = ('lst',)

    def __init__(self, lst=None):
        self.lst = lst if lst is not None else []


class OutOfBounds(AnalysisBroken):
    """a store or load outside a local array of the interpreted function"""


class CStrLit(str):
    """a string literal (a non-NULL pointer whatever its content)"""
    def __bool__(self):
        return True
    __hash__ = str.__hash__


class UndefinedConversion(AnalysisBroken):
    """a floating value converted to an integer type that cannot represent its truncation (undefined in C++)"""


class UndefinedShift(AnalysisBroken):
    """a shift whose count is negative or not smaller than the width of the (promoted) left operand"""


class ListView:
    """environment-like view of an array, so that Ref(ListView(arr), i) is a reference to the element arr[i]"""
    __slots__ = ('arr',)

    def __init__(self, arr):
        self.arr = arr

    def get(self, i, default=0):
        return self.arr[i] if 0 <= i < len(self.arr) else default

    def __getitem__(self, i):
        if not (0 <= i < len(self.arr)):
            raise OutOfBounds('mini-interpreter: reference to element %d of an array of %d' % (i, len(self.arr)))
        return self.arr[i]

    def __setitem__(self, i, v):
        if not (0 <= i < len(self.arr)):
            raise OutOfBounds('mini-interpreter: store to element %d of an array of %d' % (i, len(self.arr)))
        self.arr[i] = v

    def setdefault(self, i, v):
        return self.arr[i]

    def __contains__(self, i):
        return 0 <= i < len(self.arr)


class Ref:
    """address of a scalar local (`&x`): loads and stores go to the variable"""
    __slots__ = ('env', 'name')

    def __init__(self, env, name):
        self.env, self.name = env, name


_UMASK = {'uint8_t': 0xFF, 'unsigned char': 0xFF, 'uint16_t': 0xFFFF, 'unsigned short': 0xFFFF, 'uint32_t': 0xFFFFFFFF, 'unsigned int': 0xFFFFFFFF,
          'uint64_t': 0xFFFFFFFFFFFFFFFF, 'unsigned long': 0xFFFFFFFFFFFFFFFF, 'size_t': 0xFFFFFFFFFFFFFFFF}


_SBITS = {'int': 32, 'int32_t': 32, 'long': 64, 'int64_t': 64, 'long long': 64, 'short': 16, 'int16_t': 16, 'int8_t': 8, 'signed char': 8, 'char': 8}


def _wrap(t, v):
    """v as a value of the C integer type t (two's complement wrap-around); other types and non-integers unchanged"""
    if not isinstance(v, int) or isinstance(v, bool):
        return v
    t = (t or '').replace('const ', '').strip()
    m = _UMASK.get(t)
    if m is not None:
        return v & m
    b = _SBITS.get(t)
    if b is not None:
        v &= (1 << b) - 1
        return v - (1 << b) if v >> (b - 1) else v
    return v


def _mask(t, v):
    m = _UMASK.get((t or '').replace('const ', '').strip())
    return v & m if m is not None and isinstance(v, int) else v


_VEC2_ALIAS = {'u': 'x', 'v': 'y', 're': 'x', 'im': 'y'}


def _is_vec2(t):
    return (t or '').replace('const ', '').replace('gdstk::', '').replace('&', '').strip() == 'Vec2'


def _vec2_op(op, vals):
    """the operators of include/gdstk/vec.hpp on Obj(x, y) values (component-wise; comparisons lexicographic)"""
    isv = [isinstance(v, Obj) and 'x' in v for v in vals]
    if not any(isv):
        return None
    if len(vals) == 1 and op == '-':
        return Obj(x=-vals[0]['x'], y=-vals[0]['y'])
    if len(vals) != 2:
        return None
    a, b = vals
    if all(isv):
        if op == '==':
            return int(a['x'] == b['x'] and a['y'] == b['y'])
        if op == '!=':
            return int(a['x'] != b['x'] or a['y'] != b['y'])
        if op in ('+', '-', '*'):
            import operator as O
            f = {'+': O.add, '-': O.sub, '*': O.mul}[op]
            return Obj(x=f(a['x'], b['x']), y=f(a['y'], b['y']))
        if op == '<':
            return int(a['x'] < b['x'] or (a['x'] == b['x'] and a['y'] < b['y']))
        if op == '>':
            return int(a['x'] > b['x'] or (a['x'] == b['x'] and a['y'] > b['y']))
        return None
    if op in ('+', '-', '*', '/'):
        import operator as O
        from fractions import Fraction
        f = {'+': O.add, '-': O.sub, '*': O.mul, '/': lambda p_, q_: Fraction(p_) / Fraction(q_)}[op]
        if isv[0]:
            return Obj(x=f(a['x'], b), y=f(a['y'], b))
        if op != '/':
            return Obj(x=f(a, b['x']), y=f(a, b['y']))
    return None


class Obj(dict):
    """a struct object handed to the interpreted code by pointer or reference: `p->f` / `r.f` read the entry f"""
    __hash__ = object.__hash__


class Mini:
    def __init__(self, db, hook=None, members=None, budget=20000, typed=None, member_store=False, c_ints=False, globals=None):
        self.db = db
        self.globals = globals or {}       # namespace-scope variables (visible in called helpers too)
        self.ieee = False                  # double division rounds (Python floats) instead of being exact (Fractions)
        self.obj_store = False             # stores to fields of struct objects reached through pointers / `this` are allowed
        self.hook = hook or (lambda callee, args, node: None)
        self.members = members or {}       # normalised member-expression text -> value
        self.budget = budget
        self.typed = typed or {}           # type name (no const / gdstk::) -> value of every input of that type
        self.member_store = member_store   # allow stores to member expressions (recorded in self.members)
        self.c_ints = c_ints               # integer casts and arithmetic wrap to the width of their C type
        self.writable = set()              # ids of the arrays declared by the interpreted code (stores allowed)

    def _typed(self, e):
        if not self.typed:
            return None
        t = (e.t or '').replace('const ', '').replace('gdstk::', '').strip()
        return self.typed.get(t)

    def tick(self):
        self.budget -= 1
        if self.budget < 0:
            raise AnalysisBroken('mini-interpreter: step budget exhausted')

    # ---- expressions
    def ev(self, e, env):
        self.tick()
        if e is not None and e.k == 'CStyleCastExpr' and self.obj_store and (e.t or '').replace('const ', '').replace(' ', '') in ('double*', 'int64_t*', 'long*') and e.child('sub') is not None:
            v = self.ev(e.child('sub'), env)
            if isinstance(v, Ptr) and not isinstance(v, DPtr) and 'Vec2' in (_strip_casts(e.child('sub')).t or '') \
                    and ('Int' in (_strip_casts(e.child('sub')).t or '')) == ('int' in (e.t or '') or 'long' in (e.t or '')):
                return DPtr(v.arr, 2 * v.i)        # the coordinates of an array of Vec2 (IntVec2) as a flat array of double (int64_t)
            return v
        if e is not None and e.k in ('CStyleCastExpr', 'ImplicitCastExpr', 'CXXStaticCastExpr', 'CXXFunctionalCastExpr') and e.child('sub') is not None and self.c_ints:
            v = self.ev(e.child('sub'), env)
            if 'FloatingToIntegral' in (e.cast or ''):
                from fractions import Fraction
                if isinstance(v, float) and (v != v or v in (float('inf'), float('-inf'))):
                    raise UndefinedConversion('`%s` converts %r to an integer' % (e.text()[:60], v))
                if isinstance(v, (Fraction, float)):
                    v = int(v)          # conversion to an integer type truncates toward zero
                    t_ = (e.ct or e.t or '').replace('const ', '').strip()
                    lo_, hi_ = (0, _UMASK[t_]) if t_ in _UMASK else ((-(1 << (_SBITS[t_] - 1)), (1 << (_SBITS[t_] - 1)) - 1) if t_ in _SBITS else (None, None))
                    if lo_ is not None and not (lo_ <= v <= hi_):
                        raise UndefinedConversion('`%s` converts %d, which the type %s cannot hold' % (e.text()[:60], v, t_))
            return _wrap(e.ct or e.t, v) if (e.cast or '') in ('IntegralCast', 'NoOp', '') or 'Integral' in (e.cast or '') else v
        e = _strip_casts(e)
        if e is None:
            raise AnalysisBroken('mini-interpreter: empty expression')
        k = e.k
        if k == 'CXXBoolLiteralExpr':
            return int(bool(e.v))
        if k == 'StringLiteral' and isinstance(e.j.get('v'), str):
            return CStrLit(e.j['v'])
        if k == 'CXXNullPtrLiteralExpr' or k == 'GNUNullExpr':
            return 0
        if e.cv is not None and k != 'DeclRefExpr':
            return e.cv
        if e.cvu is not None and k != 'DeclRefExpr':
            return int(e.cvu)          # an unsigned constant above INT64_MAX
        if e.fv is not None and k != 'DeclRefExpr':
            from fractions import Fraction
            return Fraction(e.fv)
        if k == 'DeclRefExpr':
            if e.dk == 'enum':
                return e.cv
            if e.n in env:
                v_ = env[e.n]
                if isinstance(v_, Ref) and not ('*' in (e.t or '')):
                    return v_.env.get(v_.name, 0)          # a reference parameter bound to the caller's variable
                return v_
            if self._typed(e) is not None:
                return self._typed(e)
            if e.n in self.globals and e.dk not in ('local', 'param'):
                return self.globals[e.n]
            if e.dk in ('static', 'local') and '[' in (e.ct or e.t or '') and 'const' in (e.t or ''):
                # a constant lookup table declared in the function (`static const T table[] = {...}`): its initialiser
                vd = next((v for v in e.fn.walk() if v.k == 'VarDecl' and v.d == e.d and v.child('init') is not None), None)
                i_ = _strip_casts(vd.child('init')) if vd is not None else None
                if i_ is not None and i_.k == 'InitListExpr':
                    vals = [self.ev(c_, {}) for c_ in i_.c if c_ is not None and c_.k != 'ImplicitValueInitExpr']
                    m_ = __import__('re').search(r'\[(\d+)\]', e.ct or e.t or '')
                    if m_:
                        vals += [0] * (int(m_.group(1)) - len(vals))
                    env[e.n] = Ptr(vals, 0)
                    return env[e.n]
            if e.dk == 'param' and ('&' in (e.t or '') or 'struct' in (e.ct or '') or 'Stream' in (e.t or '')):
                return ('opaque', e.n)      # an output stream or similar handle that is only passed on
            if '(' in (e.t or '') and e.dk not in ('local', 'param'):
                return ('function', e.qn or e.n)        # a function handed over as a comparator / callback
            raise AnalysisBroken('mini-interpreter: unbound variable `%s`' % e.n)
        if k == 'MemberExpr':
            t = ' '.join(e.text().split())
            if t in self.members:
                return self.members[t]
            if self._typed(e) is not None:
                return self._typed(e)
            b = e.child('base')
            while b is not None and b.k == 'MemberExpr' and not b.n and b.child('base') is not None:
                b = b.child('base')          # members of anonymous structs / unions belong to the enclosing object
            if b is not None and e.n:
                try:
                    bv = self.ev(b, env)
                except AnalysisBroken:
                    bv = None
                if isinstance(bv, Ref):
                    bv = bv.env.get(bv.name)
                if isinstance(bv, Ptr):
                    bv = self.load(bv)          # p->f
                if isinstance(bv, Obj) and e.n in bv:
                    return bv[e.n]
                if isinstance(bv, Obj) and e.n in _VEC2_ALIAS and _VEC2_ALIAS[e.n] in bv:
                    return bv[_VEC2_ALIAS[e.n]]          # Vec2 is a union of {x, y}, {u, v}, {re, im}
                if isinstance(bv, Obj) and self.obj_store:
                    return 0                    # a field of a zero-initialised / not yet written struct object
            raise AnalysisBroken('mini-interpreter: unbound member `%s`' % t)
        if k == 'ParenExpr':
            return self.ev(e.c[0], env)
        if k == 'ArraySubscriptExpr':
            b, i = self.ev(e.child('base') or e.c[0], env), self.ev(e.child('idx') or e.c[1], env)
            return self.load(type(b)(b.arr, b.i + i))
        if k == 'UnaryOperator':
            op = e.op
            if op == '*':
                pv_ = self.ev(e.child('sub'), env)
                if isinstance(pv_, (Obj, Vector)) or callable(pv_) or (isinstance(pv_, tuple) and pv_ and pv_[0] in ('function', 'closure')):
                    return pv_                   # a pointer to an object (a function) is modelled by the object (the function) itself
                if isinstance(pv_, CStrLit) and (e.ct or e.t or '').replace('const ', '').strip() in _UMASK:
                    # an integer read from the bytes of a string literal (the byte-order probe): the host of the analysis is
                    # little-endian, like every target the library's swap routines treat as "nothing to do" for OASIS
                    w_ = {0xFF: 1, 0xFFFF: 2, 0xFFFFFFFF: 4}.get(_UMASK[(e.ct or e.t or '').replace('const ', '').strip()], 8)
                    return int.from_bytes((bytes((0xFF if ord(ch_) > 0xFF else ord(ch_)) for ch_ in pv_) + b'\0' * 8)[:w_], 'big' if getattr(self, 'big_endian_host', False) else 'little')     # (gx writes a byte that is not UTF-8 as U+FFFD)
                return self.load(pv_)
            if op == '&':
                t = _strip_casts(e.child('sub'))
                if t.k == 'DeclRefExpr' and t.dk in ('local', 'param'):
                    if isinstance(env.get(t.n), Ptr):
                        return env[t.n]
                    if isinstance(env.get(t.n), (Obj, Vector)) and self.obj_store:
                        return env[t.n]         # the address of a struct / vector (or of what a reference to one denotes) is that object
                    return Ref(env, t.n)
                if t.k == 'ArraySubscriptExpr':
                    b, i = self.ev(t.child('base') or t.c[0], env), self.ev(t.child('idx') or t.c[1], env)
                    return type(b)(b.arr, b.i + i)
                if t.k == 'MemberExpr' and self.obj_store:
                    v_ = self.ev(t, env)
                    if isinstance(v_, (Obj, Vector)):
                        return v_           # a pointer to a struct / vector member is that object
                raise AnalysisBroken('mini-interpreter: address of `%s`' % t.text()[:40])
            if op in ('++', '--', 'post++', 'post--'):
                t = _strip_casts(e.child('sub'))
                if t.k == 'MemberExpr' and self.obj_store:
                    lv = self.lval_obj(t, env)
                    if lv is not None:
                        o_, f_ = lv
                        old = o_.get(f_, 0)
                        d = 1 if '+' in op else -1
                        o_[f_] = type(old)(old.arr, old.i + d) if isinstance(old, Ptr) else _mask(t.ct or t.t, old + d)
                        return old if op.startswith('post') else o_[f_]
                if t.k != 'DeclRefExpr':
                    raise AnalysisBroken('mini-interpreter: increment of `%s`' % t.text()[:40])
                old = env[t.n]
                d = 1 if '+' in op else -1
                if isinstance(old, Ref) and '*' in (t.t or '') and d == 1:
                    env[t.n] = Ptr([], 0)          # one past the single object `&x` points to: any access is out of bounds
                    return old if op.startswith('post') else env[t.n]
                env[t.n] = type(old)(old.arr, old.i + d) if isinstance(old, Ptr) else old + d
                return old if op.startswith('post') else env[t.n]
            v = self.ev(e.child('sub'), env)
            return {'-': lambda: -v, '+': lambda: v, '!': lambda: int(not v), '~': lambda: ~v}[op]()
        if k == 'ConditionalOperator':
            return self.ev(e.child('then') if self.ev(e.child('cond'), env) else e.child('else'), env)
        if k == 'BinaryOperator' and not is_assign(e):
            op = e.op
            if op == '&&':
                return int(bool(self.ev(e.child('lhs'), env)) and bool(self.ev(e.child('rhs'), env)))
            if op == '||':
                return int(bool(self.ev(e.child('lhs'), env)) or bool(self.ev(e.child('rhs'), env)))
            if op == ',':
                self.ev(e.child('lhs'), env)
                return self.ev(e.child('rhs'), env)
            a, b = self.ev(e.child('lhs'), env), self.ev(e.child('rhs'), env)
            if isinstance(a, Ptr) or isinstance(b, Ptr):
                if op == '+':
                    p, n_ = (a, b) if isinstance(a, Ptr) else (b, a)
                    return type(p)(p.arr, p.i + n_)
                if op == '-' and isinstance(a, Ptr) and not isinstance(b, Ptr):
                    return type(a)(a.arr, a.i - b)
                if op == '-':
                    return a.i - b.i
                if op in ('==', '!='):
                    return int((a == b) == (op == '=='))
                if op in ('<', '>', '<=', '>='):
                    a, b = a.i, b.i
                else:
                    raise AnalysisBroken('mini-interpreter: pointer operator %s' % op)
            import operator as O
            if op == '/' and (e.t or '') in ('double', 'float', 'long double') and self.ieee:
                a_, b_ = float(a), float(b)        # IEEE double division, rounded like the hardware
                if b_ == 0:
                    import math
                    return math.nan if (a_ == 0 or a_ != a_) else math.copysign(math.inf, a_) * math.copysign(1.0, b_)
                return a_ / b_
            if op == '/' and (e.t or '') in ('double', 'float', 'long double'):
                from fractions import Fraction
                if b == 0:
                    raise AnalysisBroken('mini-interpreter: division by zero')
                return Fraction(a) / Fraction(b)
            if op in ('/', '%'):
                if b == 0:
                    raise AnalysisBroken('mini-interpreter: division by zero')
                q = abs(a) // abs(b) * (1 if (a >= 0) == (b >= 0) else -1)
                return q if op == '/' else a - q * b
            f = {'+': O.add, '-': O.sub, '*': O.mul, '&': O.and_, '|': O.or_, '^': O.xor, '<<': O.lshift, '>>': O.rshift,
                 '<': O.lt, '>': O.gt, '<=': O.le, '>=': O.ge, '==': O.eq, '!=': O.ne}.get(op)
            if f is None:
                raise AnalysisBroken('mini-interpreter: operator %s' % op)
            if self.c_ints and op in ('<<', '>>') and isinstance(a, int) and isinstance(b, int):
                t_ = (e.ct or e.t or '').replace('const ', '').strip()
                width = 64 if _UMASK.get(t_) == 0xFFFFFFFFFFFFFFFF or _SBITS.get(t_) == 64 else 32
                if b < 0 or b >= width:
                    raise UndefinedShift('`%s` shifts a %d-bit operand by %d' % (e.text()[:60], width, b))
            r_ = f(a, b)
            from fractions import Fraction
            if isinstance(r_, Fraction) and r_.denominator != 1:
                return r_
            if isinstance(r_, float) and not isinstance(r_, bool):
                return r_           # (floating values come from hooks that answer libm calls)
            r_ = int(r_)
            if self.c_ints and op in ('+', '-', '*', '<<', '>>', '&', '|', '^') and isinstance(a, int) and isinstance(b, int):
                r_ = _wrap(e.ct or e.t, r_)      # the operation is carried out in its C type: `int << 35` does not reach bit 35
            return r_
        if is_assign(e) or k == 'CompoundAssignOperator':
            t = _strip_casts(e.child('lhs'))
            if t.k == 'MemberExpr' and self.member_store and e.op == '=' and not (self.obj_store and self.lval_obj(t, env) is not None):
                r = self.ev(e.child('rhs'), env)
                self.members[' '.join(t.text().split())] = r
                return r
            if t.k == 'MemberExpr' and t.n and self.obj_store:
                lv = self.lval_obj(t, env)
                if lv is not None:
                    o_, f_ = lv
                    r = self.ev(e.child('rhs'), env)
                    if e.op != '=':
                        import operator as O
                        cur_ = o_.get(f_, 0)
                        if isinstance(cur_, Ptr) and e.op in ('+=', '-='):
                            r = type(cur_)(cur_.arr, cur_.i + (int(r) if e.op == '+=' else -int(r)))      # a pointer member advanced
                        else:
                            r = {'+=': O.add, '-=': O.sub, '*=': O.mul, '|=': O.or_, '&=': O.and_, '^=': O.xor}[e.op](cur_, r)
                    o_[f_] = Obj(r) if isinstance(r, Obj) and '*' not in (t.t or '') else _mask(t.ct or t.t, r)
                    return r
            if t.k == 'MemberExpr' and t.n:
                # a field of a struct object held in a local (or handed in by non-const reference)
                b_ = t.child('base')
                while b_ is not None and b_.k == 'MemberExpr' and not b_.n and b_.child('base') is not None:
                    b_ = b_.child('base')
                b0 = _strip_casts(b_)
                o_ = env.get(b0.n) if b0 is not None and b0.k == 'DeclRefExpr' and b0.dk in ('local', 'param') and 'const' not in (b0.t or '') else None
                if isinstance(o_, Ref):
                    o_ = o_.env.get(o_.name)
                if isinstance(o_, Obj):
                    r = self.ev(e.child('rhs'), env)
                    if e.op != '=':
                        import operator as O
                        r = {'+=': O.add, '-=': O.sub, '*=': O.mul}[e.op](o_[t.n], r)
                    o_[t.n] = r
                    return r
            if t.k in ('UnaryOperator', 'ArraySubscriptExpr') and (t.k == 'ArraySubscriptExpr' or t.op == '*'):
                # store through a pointer into an array declared by the interpreted code itself
                if t.k == 'UnaryOperator':
                    p_ = self.ev(t.child('sub'), env)
                else:
                    b, i = self.ev(t.child('base') or t.c[0], env), self.ev(t.child('idx') or t.c[1], env)
                    p_ = type(b)(b.arr, b.i + i) if isinstance(b, Ptr) else None
                r = self.ev(e.child('rhs'), env)
                if isinstance(p_, DPtr) and id(p_.arr) in self.writable:
                    if not (0 <= p_.i < 2 * len(p_.arr)):
                        raise OutOfBounds('mini-interpreter: store outside the array (double %d of %d) at %s' % (p_.i, 2 * len(p_.arr), e.loc()))
                    if e.op != '=':
                        raise AnalysisBroken('mini-interpreter: compound store through a double view')
                    p_.arr[p_.i // 2]['xy'[p_.i % 2]] = r
                    return r
                if isinstance(p_, Ref):
                    cur = p_.env.get(p_.name, 0)
                elif isinstance(p_, Ptr) and id(p_.arr) in self.writable:
                    if not (0 <= p_.i < len(p_.arr)):
                        raise OutOfBounds('mini-interpreter: store outside the local array (index %d of %d) at %s' % (p_.i, len(p_.arr), e.loc()))
                    cur = p_.arr[p_.i]
                else:
                    raise AnalysisBroken('mini-interpreter: store to `%s` (inputs are read-only)' % t.text()[:40])
                if e.op != '=':
                    import operator as O
                    r = {'+=': O.add, '-=': O.sub, '*=': O.mul, '|=': O.or_, '&=': O.and_, '^=': O.xor, '<<=': O.lshift, '>>=': O.rshift}[e.op](cur, r)
                r = _mask(t.ct or t.t, r)
                if isinstance(p_, Ref):
                    p_.env[p_.name] = r
                else:
                    p_.arr[p_.i] = r
                return r
            if t.k != 'DeclRefExpr':
                raise AnalysisBroken('mini-interpreter: store to `%s` (inputs are read-only)' % t.text()[:40])
            r = self.ev(e.child('rhs'), env)
            tgt_env, tgt_name = env, t.n
            if isinstance(env.get(t.n), Ref) and '*' not in (t.t or ''):
                tgt_env, tgt_name = env[t.n].env, env[t.n].name        # write through a reference parameter
            if e.op != '=':
                cur = tgt_env[tgt_name]
                import operator as O
                if isinstance(cur, Ptr):
                    r = type(cur)(cur.arr, cur.i + (r if e.op == '+=' else -r))
                elif isinstance(cur, Obj) and 'x' in cur and e.op in ('+=', '-=', '*=', '/='):
                    r = _vec2_op(e.op[0], [cur, r])
                    if r is None:
                        raise AnalysisBroken('mini-interpreter: Vec2 operator `%s`' % e.text()[:50])
                else:
                    if e.op == '/=' and (isinstance(cur, float) or isinstance(r, float)):
                        r = (float(cur) / float(r)) if r != 0 else (float('nan') if cur == 0 or cur != cur else (float('inf') if (cur > 0) == (str(float(r))[0] != '-') else float('-inf')))
                    elif e.op == '/=':
                        from fractions import Fraction as _F
                        if r == 0:
                            raise AnalysisBroken('mini-interpreter: division by zero in `%s`' % e.text()[:40])
                        r = (_F(cur) / _F(r)) if 'double' in (t.t or '') or 'float' in (t.t or '') else int(_F(cur) / _F(r))
                    else:
                        r = {'+=': O.add, '-=': O.sub, '*=': O.mul, '|=': O.or_, '&=': O.and_, '^=': O.xor, '<<=': O.lshift, '>>=': O.rshift}[e.op](cur, r)
            tgt_env[tgt_name] = Obj(r) if isinstance(r, Obj) and e.op == '=' and '*' not in (t.t or '') else r      # (a struct is copied, a pointer to one is not)
            return r
        if k == 'InitListExpr' and self.obj_store and not _is_vec2(e.t) and self.db.records.get((e.ct or e.t or '').replace('const ', '').strip()) is not None \
                and not (e.t or '').replace('const ', '').replace('gdstk::', '').startswith('Array<'):
            rec_ = self.db.records[(e.ct or e.t or '').replace('const ', '').strip()]
            names_ = [f_['n'] for f_ in rec_.get('fields', []) if f_.get('n')]
            vals_ = [self.ev(c_, env) if c_ is not None and c_.k not in ('ImplicitValueInitExpr',) else 0 for c_ in e.c]
            if e.j.get('filler'):
                vals_ += [0] * (len(names_) - len(vals_))
            o_ = Obj()
            for n_, v_ in zip(names_, vals_ + [0] * (len(names_) - len(vals_))):
                o_[n_] = v_
            return o_
        if k == 'InitListExpr' and self.obj_store and (e.t or '').replace('const ', '').replace('gdstk::', '').startswith('Array<') and \
                all(c is None or c.k in ('ImplicitValueInitExpr', 'CXXScalarValueInitExpr') or c.cv == 0 or (c.k == 'InitListExpr' and not [y for y in c.c if y is not None]) for c in e.c):
            return Obj(capacity=0, count=0, items=0)
        if k == 'InitListExpr' and self.obj_store and '[' not in (e.t or '') and '*' not in (e.t or '') and e.c and all(c is not None and c.k == 'ImplicitValueInitExpr' for c in e.c) \
                and self.db.records.get((e.ct or e.t or '').replace('const ', '').strip()) is None and (e.ct or e.t or '').replace('const ', '').strip() in ('tm', 'struct tm'):
            return Obj(tm_sec=0, tm_min=0, tm_hour=0, tm_mday=0, tm_mon=0, tm_year=0, tm_wday=0, tm_yday=0, tm_isdst=0)     # `tm now = {}`
        if k in ('CXXScalarValueInitExpr', 'ImplicitValueInitExpr') or (k == 'InitListExpr' and not [c for c in e.c if c is not None] and not _is_vec2(e.t)):
            return 0
        if k == 'LambdaExpr':
            return ('closure', e.id)       # the body is the lambda's call operator in the fact base; captures are by reference to env
        if k == 'CXXThisExpr':
            return env.get('this', ('opaque', 'this'))
        if k in ('CXXConstructExpr', 'CXXTemporaryObjectExpr', 'MaterializeTemporaryExpr', 'CXXBindTemporaryExpr', 'ExprWithCleanups', 'CXXFunctionalCastExpr', 'CompoundLiteralExpr') or (k == 'InitListExpr' and _is_vec2(e.t)):
            a = [c for c in e.c if c is not None]
            while k == 'InitListExpr' and len(a) == 1 and a[0].k == 'InitListExpr':
                a = [c for c in a[0].c if c is not None]        # {{{x, y}}}: the anonymous union and struct around the coordinates
            if len(a) == 1 and k != 'InitListExpr':
                v = self.ev(a[0], env)
                return Obj(v) if isinstance(v, Obj) else v        # struct copy
            if not a and self.obj_store and not _is_vec2(e.t):
                return Obj()                    # `T local;` of a record type: fields are written before they are read
            if self.obj_store and k in ('CXXConstructExpr', 'CXXTemporaryObjectExpr') and len(a) == 2 and (e.t or '').replace('const ', '').strip().endswith('IntPoint'):
                return Obj(X=self.ev(a[0], env), Y=self.ev(a[1], env))
            if self.obj_store and not _is_vec2(e.t) and k in ('CXXConstructExpr', 'CXXTemporaryObjectExpr') and len(a) > 1:
                return Obj()                    # an object of a class outside the analysed sources (its fields: what the code stores)
            if _is_vec2(e.t) and len(a) in (0, 2):
                return Obj(x=self.ev(a[0], env), y=self.ev(a[1], env)) if a else Obj(x=0, y=0)
            raise AnalysisBroken('mini-interpreter: construction `%s`' % e.text()[:50])
        if k == 'CXXOperatorCallExpr' and (e.callee or '').endswith('::operator()') and any(getattr(x, 'is_lambda', False) for x in (self.db.fn(e.callee, required=False, all=True) or [])):
            k = 'CallExpr'
        if k == 'CXXOperatorCallExpr' and self.obj_store and ('__normal_iterator' in (e.callee or '') or (e.callee or '').startswith('__gnu_cxx::operator')) and not is_assign(e):
            ops_ = e.args
            op_ = e.op or (e.callee or '').split('operator')[-1]
            if op_ in ('++', '--'):
                t = _strip_casts(ops_[0])
                d_ = 1 if op_ == '++' else -1
                if t.k == 'DeclRefExpr' and isinstance(env.get(t.n), Ptr):
                    old = env[t.n]
                    env[t.n] = type(old)(old.arr, old.i + d_)
                    return old if len(ops_) == 2 else env[t.n]
                lv = self.lval_obj(t, env)
                if lv is not None and isinstance(lv[0].get(lv[1]), Ptr):
                    old = lv[0][lv[1]]
                    lv[0][lv[1]] = type(old)(old.arr, old.i + d_)
                    return old if len(ops_) == 2 else lv[0][lv[1]]
                raise AnalysisBroken('mini-interpreter: iterator step on `%s`' % t.text()[:40])
            vals = [self.ev(a, env) for a in ops_]
            if op_ == '->':
                return vals[0]
            if op_ == '*' and len(vals) == 1:
                return self.load(vals[0])
            if op_ in ('==', '!=') and len(vals) == 2:
                return int((vals[0] == vals[1]) == (op_ == '=='))
            if op_ == '+' and len(vals) == 2 and isinstance(vals[0], Ptr):
                return type(vals[0])(vals[0].arr, vals[0].i + vals[1])
            if op_ == '-' and len(vals) == 2 and isinstance(vals[0], Ptr):
                return (vals[0].i - vals[1].i) if isinstance(vals[1], Ptr) else type(vals[0])(vals[0].arr, vals[0].i - vals[1])
            if op_ in ('<', '>', '<=', '>=') and len(vals) == 2 and all(isinstance(v, Ptr) for v in vals):
                import operator as O
                return int({'<': O.lt, '>': O.gt, '<=': O.le, '>=': O.ge}[op_](vals[0].i, vals[1].i))
            raise AnalysisBroken('mini-interpreter: iterator operator `%s`' % e.text()[:50])
        if k == 'CXXMemberCallExpr' and self.obj_store and (e.callee or '').startswith('std::vector<') and e.child('obj') is not None:
            o = self.ev(e.child('obj'), env)
            if isinstance(o, Ref):
                o = o.env.get(o.name)
            if isinstance(o, Ptr):
                o = self.load(o)
            if isinstance(o, Vector):
                m = e.callee.split('::')[-1]
                args = [self.ev(a, env) for a in e.args]
                if m == 'begin':
                    return Ptr(o.lst, 0)
                if m == 'end':
                    return Ptr(o.lst, len(o.lst))
                if m == 'size':
                    return len(o.lst)
                if m == 'reserve':
                    return None
                if m in ('front', 'back') and o.lst:
                    return o.lst[0 if m == 'front' else -1]
                if m == 'empty':
                    return int(not o.lst)
                if m == 'push_back':
                    o.lst.append(Obj(args[0]) if isinstance(args[0], Obj) else args[0])
                    return None
                if m == 'insert' and len(args) == 2 and isinstance(args[0], Ptr) and args[0].arr is o.lst:
                    o.lst.insert(args[0].i, Obj(args[1]) if isinstance(args[1], Obj) else args[1])
                    return Ptr(o.lst, args[0].i)
                if m == 'insert' and len(args) == 3 and all(isinstance(a, Ptr) for a in args) and args[0].arr is o.lst and args[1].arr is args[2].arr:
                    chunk = [Obj(x) if isinstance(x, Obj) else x for x in args[1].arr[args[1].i:args[2].i]]
                    o.lst[args[0].i:args[0].i] = chunk
                    return Ptr(o.lst, args[0].i)
                raise AnalysisBroken("mini-interpreter: std::vector method `%s` with %s" % (e.text()[:50], [type(a).__name__ + (":%s" % (a.arr is o.lst) if isinstance(a, Ptr) else "") for a in args]))
        if k == 'CXXOperatorCallExpr' and not is_assign(e):
            ops_ = e.args
            name = (e.callee or '').split('::')[-1]
            if name == 'operator[]' and len(ops_) == 2:
                b, i = self.ev(ops_[0], env), self.ev(ops_[1], env)
                if isinstance(b, Obj) and isinstance(b.get('items'), Ptr):
                    if not (0 <= i < b.get('count', len(b['items'].arr))):
                        raise OutOfBounds('mini-interpreter: `%s` reads element %d of an array of %d' % (e.text()[:40], i, b.get('count', 0)))
                    return self.load(Ptr(b['items'].arr, b['items'].i + i))
            vals = [self.ev(a, env) for a in ops_]
            r = _vec2_op(name[len('operator'):], vals)
            if r is not None:
                return r
            if len(vals) == 2 and all(isinstance(v, Obj) and 'X' in v for v in vals) and name[len('operator'):] in ('==', '!='):
                same = vals[0]['X'] == vals[1]['X'] and vals[0]['Y'] == vals[1]['Y']          # ClipperLib::IntPoint
                return int(same == (name[len('operator'):] == '=='))
            raise AnalysisBroken('mini-interpreter: operator call `%s`' % e.text()[:50])
        if k == 'CXXMemberCallExpr' and (e.callee or '').startswith('gdstk::Vec2::') and e.child('obj') is not None:
            o = self.ev(e.child('obj'), env)
            args = [self.ev(a, env) for a in e.args]
            m = e.callee.split('::')[-1]
            if isinstance(o, Obj) and 'x' in o:
                if m == 'cross' and len(args) == 1:
                    return o['x'] * args[0]['y'] - o['y'] * args[0]['x']
                if m == 'inner' and len(args) == 1:
                    return o['x'] * args[0]['x'] + o['y'] * args[0]['y']
                if m == 'length_sq' and not args:
                    return o['x'] * o['x'] + o['y'] * o['y']
                if m == 'ortho' and not args:
                    return Obj(x=-o['y'], y=o['x'])
                if m in ('length', 'normalize', 'angle') and all(isinstance(o[c_], (int, float)) for c_ in 'xy'):
                    import math as _m
                    if m == 'angle' and not args:
                        return _m.atan2(float(o['y']), float(o['x']))
                    ln = _m.sqrt(float(o['x']) * float(o['x']) + float(o['y']) * float(o['y']))
                    if m == 'normalize' and not args:
                        if ln > 0:
                            o['x'], o['y'] = float(o['x']) / ln, float(o['y']) / ln
                        return ln
                    if m == 'length' and not args:
                        return ln
            raise AnalysisBroken('mini-interpreter: Vec2 method `%s`' % e.text()[:50])
        if k == 'CallExpr' and self.obj_store and (e.callee or '').split('::')[-1] == 'rotate' and (e.callee or '').startswith('std::') and len(e.args) == 3:
            a_, b_, c_ = [self.ev(x, env) for x in e.args]
            if all(isinstance(x, Ptr) for x in (a_, b_, c_)) and a_.arr is b_.arr is c_.arr and a_.i <= b_.i <= c_.i:
                seg = a_.arr[a_.i:c_.i]
                k_ = b_.i - a_.i
                a_.arr[a_.i:c_.i] = seg[k_:] + seg[:k_]
                return Ptr(a_.arr, a_.i + (c_.i - b_.i))
            raise AnalysisBroken('mini-interpreter: std::rotate on `%s`' % e.text()[:50])
        if k in ('CallExpr', 'CXXMemberCallExpr'):
            args = [self.ev(a, env) for a in e.args]
            self.cur_call = (e, env)           # a hook may ask for the object of a member call: self.call_object()
            r = self.hook(e.callee, args, e)
            if r is not None:
                return r[0]
            g = [x for x in (self.db.fn(e.callee, required=False, all=True) or []) if x.body is not None] if e.callee else []
            if len(g) > 1 and getattr(e.fn, 'targs', None) and any(x.targs == e.fn.targs for x in g):
                g = [x for x in g if x.targs == e.fn.targs]        # the instantiation for the template arguments of the function being interpreted
            if len(g) > 1 and len({(x.file, x.line) for x in g}) == 1:
                g = g[:1]           # an inline / template function seen in several units
            if len({(x.file, x.line) for x in g}) > 1 and not getattr(e.fn, 'targs', None):
                # overloads: the one whose parameter types are the (converted) argument types
                def _tk(t_):
                    return (t_ or '').replace('gdstk::', '').replace('struct ', '').replace(' ', '')
                ov = [x for x in g if len(x.params) == len(e.args) and all(_tk(p_.get('t')) == _tk(a_.t) for p_, a_ in zip(x.params, e.args))]
                if len({(x.file, x.line) for x in ov}) == 1:
                    g = ov[:1]
            if len(g) >= 1 and all(getattr(x, 'is_lambda', False) for x in g):
                # a local lambda: among several of one function, the one defined inside the function being interpreted and before the call
                inside = [x for x in g if x.file == e.fn.file and e.fn.line <= x.line <= (e.l or x.line)] or g
                h_ = max(inside, key=lambda x: x.line)
                if e.j.get('lambda_line') is not None and any(x.line == e.j['lambda_line'] for x in g):
                    h_ = next(x for x in g if x.line == e.j['lambda_line'])
                elif e.k == 'CXXOperatorCallExpr':
                    from . import normal as _N
                    h2 = _N.lambda_of(self.db, e)
                    if h2 is not None:
                        h_ = h2
                a_nodes = e.args
                if len(a_nodes) == len(h_.params) + 1:
                    a_nodes, args = a_nodes[1:], args[1:]          # operator() on the closure object
                saved = {p['n']: env[p['n']] for p in h_.params if p['n'] in env}
                for p, a in zip(h_.params, args):
                    env[p['n']] = Obj(a) if isinstance(a, Obj) and '&' not in (p.get('t') or '') and '*' not in (p.get('t') or '') else a
                try:
                    self.run(h_.body, env)            # captures by reference: the body works on the caller's variables
                    rv = None
                except Return as rr:
                    rv = rr.v
                for p in h_.params:
                    env.pop(p['n'], None)
                env.update(saved)
                return rv
            if len(g) == 1 and k == 'CXXMemberCallExpr' and e.child('obj') is not None:
                try:
                    o_ = self.ev(e.child('obj'), env)
                except AnalysisBroken:
                    o_ = None
                if isinstance(o_, Obj):
                    en = {p['n']: (Obj(a) if isinstance(a, Obj) and '&' not in (p.get('t') or '') and '*' not in (p.get('t') or '') else a) for p, a in zip(g[0].params, args)}
                    en['this'] = o_
                    try:
                        self.run(g[0].body, en)
                    except Return as rr:
                        return rr.v
                    return None
            if len(g) > 1 and k == 'CallExpr' and getattr(e.fn, 'targs', None):
                same = [x for x in g if x.targs == e.fn.targs and len(x.params) == len(args)]
                if len({(x.file, x.line) for x in same}) == 1:
                    g = same[:1]        # the instantiation for the template arguments of the function being interpreted
            if not e.callee and k == 'CallExpr' and e.child('fn') is not None:
                fv = self.ev(e.child('fn'), env)
                if callable(fv):
                    return fv(*args)
                if isinstance(fv, tuple) and fv and fv[0] == 'function':
                    g = [x for x in (self.db.fn(fv[1], required=False, all=True) or []) if x.body is not None][:1]
            if len(g) == 1 and k == 'CallExpr':
                en = {p['n']: a for p, a in zip(g[0].params, args)}
                for p, a_node in zip(g[0].params, e.args):
                    a0 = _strip_casts(a_node)
                    if '&' in (p.get('t') or '') and 'const' not in (p.get('t') or '') and a0 is not None and a0.k == 'DeclRefExpr' and a0.dk in ('local', 'param'):
                        cur_ = env.get(a0.n)
                        en[p['n']] = cur_ if isinstance(cur_, Ref) else Ref(env, a0.n)     # non-const reference parameter: the callee writes the caller's variable
                        env.setdefault(a0.n, 0)
                    elif '&' in (p.get('t') or '') and 'const' not in (p.get('t') or '') and a0 is not None and a0.k == 'ArraySubscriptExpr':
                        b_, i_ = self.ev(a0.child('base') or a0.c[0], env), self.ev(a0.child('idx') or a0.c[1], env)
                        if isinstance(b_, Ptr) and not isinstance(b_, DPtr):
                            en[p['n']] = Ref(ListView(b_.arr), b_.i + i_)          # a reference to an array element
                try:
                    self.run(g[0].body, en)
                except Return as rr:
                    return rr.v
                return None
            raise AnalysisBroken('mini-interpreter: call of `%s`' % e.callee)
        raise AnalysisBroken('mini-interpreter: expression %s `%s`' % (k, e.text()[:50]))

    def lval_obj(self, t, env):
        """(struct object, field) for a member lvalue `o.f` / `p->f` / `this->f`, or None"""
        if t is None or t.k != 'MemberExpr' or not t.n:
            return None
        b_ = t.child('base')
        while b_ is not None and b_.k == 'MemberExpr' and not b_.n and b_.child('base') is not None:
            b_ = b_.child('base')
        try:
            o_ = self.ev(b_, env)
        except AnalysisBroken:
            return None
        if isinstance(o_, Ref):
            o_ = o_.env.get(o_.name)
        if isinstance(o_, Ptr):
            o_ = self.load(o_)
        if isinstance(o_, Obj) and t.n in _VEC2_ALIAS and t.n not in o_ and (_VEC2_ALIAS[t.n] in o_ or _is_vec2(_strip_casts(b_).t if _strip_casts(b_) is not None else '')):
            return (o_, _VEC2_ALIAS[t.n])
        return (o_, t.n) if isinstance(o_, Obj) else None

    def call_object(self):
        """the object a member call being hooked is made on"""
        e, env = self.cur_call
        return self.ev(e.child('obj'), env) if e.child('obj') is not None else None

    def load(self, p):
        if isinstance(p, Ref):
            return p.env.get(p.name, 0)
        if isinstance(p, DPtr):
            if not (0 <= p.i < 2 * len(p.arr)):
                raise OutOfBounds('mini-interpreter: read outside the array (double %d of %d)' % (p.i, 2 * len(p.arr)))
            return p.arr[p.i // 2].get('xy'[p.i % 2], 0)
        if not isinstance(p, Ptr) or not (0 <= p.i < len(p.arr)):
            raise (OutOfBounds if isinstance(p, Ptr) else AnalysisBroken)('mini-interpreter: read outside the input array (index %s of %s)' % (getattr(p, 'i', '?'), len(getattr(p, 'arr', []))))
        return p.arr[p.i]

    # ---- statements
    def run(self, s, env):
        self.tick()
        if s is None:
            return
        k = s.k
        if k == 'CompoundStmt':
            for c in s.c:
                self.run(c, env)
        elif k == 'DeclStmt':
            for v in s.c:
                if v is not None and v.k == 'VarDecl':
                    import re as _re
                    am = _re.fullmatch(r'(?:const )?([\w: ]+?)\s*\[(\d+)\]', (v.ct or v.t or '').strip())
                    if am and int(am.group(2)) <= 4096:
                        arr = [0] * int(am.group(2))
                        i_ = _strip_casts(v.child('init')) if v.child('init') is not None else None
                        if i_ is not None and i_.k == 'InitListExpr':
                            for j_, c_ in enumerate(x for x in i_.c if x is not None):
                                if j_ < len(arr) and c_.k != 'ImplicitValueInitExpr':
                                    arr[j_] = _mask(am.group(1), self.ev(c_, env))
                        elif i_ is not None:
                            raise AnalysisBroken('mini-interpreter: array initialiser `%s`' % i_.text()[:40])
                        self.writable.add(id(arr))
                        env[v.n] = Ptr(arr, 0)
                        continue
                    i0_ = _strip_casts(v.child('init')) if v.child('init') is not None else None
                    if '&' in (v.t or '') and '&&' not in (v.t or '') and i0_ is not None and i0_.k in ('ArraySubscriptExpr', 'UnaryOperator') and (i0_.k == 'ArraySubscriptExpr' or i0_.op == '*'):
                        # a reference bound to an array element is that element (not a copy of it)
                        if i0_.k == 'ArraySubscriptExpr':
                            b_, ix_ = self.ev(i0_.child('base') or i0_.c[0], env), self.ev(i0_.child('idx') or i0_.c[1], env)
                            p_ = type(b_)(b_.arr, b_.i + ix_) if isinstance(b_, Ptr) else None
                        else:
                            p_ = self.ev(i0_.child('sub'), env)
                        if isinstance(p_, Ptr) and not isinstance(p_, DPtr) and not isinstance(self.load(p_), Obj):
                            env[v.n] = Ref(ListView(p_.arr), p_.i)
                            continue
                    if v.child('init') is None and self.obj_store and self.db.records.get((v.ct or v.t or '').replace('const ', '').strip()) is not None:
                        env[v.n] = Obj()
                        continue
                    env[v.n] = self.ev(v.child('init'), env) if v.child('init') is not None else 0
        elif k == 'IfStmt':
            self.run(s.child('then') if self.ev(s.child('cond'), env) else s.child('else'), env)
        elif k in ('ForStmt', 'WhileStmt'):
            if k == 'ForStmt' and s.child('init') is not None:
                self.run(s.child('init'), env)
            while s.child('cond') is None or self.ev(s.child('cond'), env):
                try:
                    self.run(s.child('body'), env)
                except _Break:
                    break
                except _Continue:
                    pass
                if k == 'ForStmt' and s.child('inc') is not None:
                    self.ev(s.child('inc'), env)
        elif k == 'DoStmt':
            while True:
                try:
                    self.run(s.child('body'), env)
                except _Break:
                    break
                except _Continue:
                    pass
                if not self.ev(s.child('cond'), env):
                    break
        elif k == 'SwitchStmt':
            v = self.ev(s.child('cond'), env)
            body = s.child('body')
            items = [c for c in (body.c if body is not None and body.k == 'CompoundStmt' else []) if c is not None]

            def labels(c):
                out = []
                while c is not None and c.k in ('CaseStmt', 'DefaultStmt'):
                    out.append('default' if c.k == 'DefaultStmt' else (c.child('lhs').cv if c.child('lhs') is not None else None))
                    c = c.child('sub')
                return out, c
            start = next((i for i, c in enumerate(items) if v in labels(c)[0]), None)
            if start is None:
                start = next((i for i, c in enumerate(items) if 'default' in labels(c)[0]), None)
            if start is not None:
                try:
                    for c in items[start:]:
                        self.run(labels(c)[1], env)
                except _Break:
                    pass
        elif k == 'BreakStmt':
            raise _Break()
        elif k == 'ContinueStmt':
            raise _Continue()
        elif k == 'ReturnStmt':
            raise Return(self.ev(s.child('value'), env) if s.child('value') is not None else None)
        elif k == 'NullStmt':
            return
        else:
            self.ev(s, env)


# ------------------------------------------------------------------------------------------------
# value of one local at a program point, as a function of a finite-domain input

def _writes(stmt, name):
    for x in stmt.walk():
        if x.k == 'VarDecl' and x.n == name:
            return True
        if (is_assign(x) or x.k == 'CompoundAssignOperator') and x.child('lhs') is not None:
            t = _strip_casts(x.child('lhs'))
            if t is not None and t.k == 'DeclRefExpr' and t.n == name:
                return True
        if x.k == 'UnaryOperator' and x.op in ('++', '--', 'post++', 'post--'):
            t = _strip_casts(x.child('sub'))
            if t is not None and t.k == 'DeclRefExpr' and t.n == name:
                return True
    return False


def value_at(db, use, typed=None, members=None, hook=None, obj_store=False, env0=None, want_env=False):
    """Value of the expression `use` (a node inside a function body) when the inputs are bound by `typed` / `members`.
    Locals read by `use` are computed by interpreting, in source order, exactly those statements of the enclosing
    blocks that precede `use` and write one of these locals (a backward slice closed over the locals the slice itself
    reads). The form of the computation (switch, if chain, conditional expression, helper function) is irrelevant."""
    chain = []          # enclosing compound statements, innermost first, with the child that contains `use`
    x = use
    while x.parent is not None:
        if x.parent.k == 'CompoundStmt':
            chain.append((x.parent, x))
        x = x.parent
    tnames = set(typed or {})
    mnames = set(members or {})

    def reads(st):
        out = set()

        def go(n):
            if n is None:
                return
            if n.k in ('MemberExpr', 'DeclRefExpr') and (n.t or '').replace('const ', '').replace('gdstk::', '').strip() in tnames and not (n.k == 'DeclRefExpr' and n.dk == 'enum'):
                return          # an input: whatever it is reached through is not part of the slice
            if n.k == 'MemberExpr' and ' '.join(n.text().split()) in mnames:
                return
            if n.k == 'DeclRefExpr' and n.dk == 'local':
                out.add(n.n)
            for c in n.c:
                go(c)
        go(st)
        return out
    need = reads(use)
    picked = {}
    order = {}
    changed = True
    while changed:
        changed = False
        for comp, holder in chain:
            for st in comp.c:
                if st is None:
                    continue
                if st is holder:
                    break
                if st.id in picked:
                    continue
                if any(_writes(st, n) for n in need):
                    picked[st.id] = st
                    order[st.id] = (-chain.index((comp, holder)), comp.c.index(st))      # execution order: outer blocks first
                    more = reads(st)
                    if not more <= need:
                        need |= more
                    changed = True
    mi = Mini(db, hook=hook, typed=typed, members=dict(members or {}))
    mi.obj_store = obj_store
    env = dict(env0 or {})
    try:
        for sid in sorted(picked, key=lambda i_: order[i_]):
            mi.run(picked[sid], env)
    except (_Break, _Continue):
        raise AnalysisBroken('mini-interpreter: break/continue escapes the slice for `%s`' % use.text()[:40])
    v = mi.ev(use, env)
    return (v, env) if want_env else v


def array_hook(mi_ref, extra=None):
    """hook answering the methods of gdstk::Array<T> on array objects Obj(items=Ptr|0, count, capacity): ensure_slots, append,
    append_unsafe, extend, clear (operator[] and .count/.items are read by the interpreter itself). Appending beyond the capacity
    that ensure_slots reserved through append_unsafe is reported (OutOfBounds). `extra(callee, args, node)` is asked first."""
    def grow(o, n):
        it, cnt = o.get('items', 0), o.get('count', 0)
        lst = list(it.arr[it.i:it.i + cnt]) if isinstance(it, Ptr) else []
        lst += [Obj() for _ in range(max(o.get('capacity', 0) - cnt, 0) + n)]        # (the slots between count and capacity stay)
        mi_ref[0].writable.add(id(lst))
        o['items'] = Ptr(lst, 0)
        o['capacity'] = len(lst)

    def hook(callee, args, node):
        if extra is not None:
            r = extra(callee, args, node)
            if r is not None:
                return r
        c = callee or ''
        short, cls = c.split('::')[-1], c.rsplit('::', 1)[0]
        if cls.startswith('gdstk::Array<') and short == 'copy_from' and len(args) == 1 and isinstance(args[0], Obj):
            o = mi_ref[0].call_object()
            if not isinstance(o, Obj):
                raise AnalysisBroken('mini-interpreter: Array method on something that is not an array object')
            src = args[0]
            n = src.get('count', 0)
            lst = [Obj(v) if isinstance(v, Obj) else v for v in (src['items'].arr[src['items'].i:src['items'].i + n] if n else [])]
            mi_ref[0].writable.add(id(lst))
            o['items'], o['count'], o['capacity'] = (Ptr(lst, 0) if lst else 0), n, n
            return (None,)
        if cls.startswith('gdstk::Array<') and short in ('ensure_slots', 'append', 'append_unsafe', 'extend', 'clear'):
            o = mi_ref[0].call_object()
            if not isinstance(o, Obj):
                raise AnalysisBroken('mini-interpreter: Array method on something that is not an array object')
            if short == 'ensure_slots':
                if o.get('capacity', 0) < o.get('count', 0) + args[0]:
                    grow(o, o.get('count', 0) + args[0] - o.get('capacity', 0))
            elif short == 'clear':
                o['items'], o['count'], o['capacity'] = 0, 0, 0
            elif short == 'extend':
                src = args[0]
                n = src.get('count', 0)
                if o.get('capacity', 0) < o.get('count', 0) + n:
                    grow(o, o.get('count', 0) + n - o.get('capacity', 0))
                for k_ in range(n):
                    v = src['items'].arr[src['items'].i + k_]
                    o['items'].arr[o['count']] = Obj(v) if isinstance(v, Obj) else v
                    o['count'] += 1
            else:
                if o.get('capacity', 0) < o.get('count', 0) + 1:
                    if short == 'append_unsafe':
                        raise OutOfBounds('append_unsafe beyond the reserved capacity (%d of %d) at %s' % (o.get('count', 0) + 1, o.get('capacity', 0), node.loc()))
                    grow(o, 1)
                o['items'].arr[o['count']] = Obj(args[0]) if isinstance(args[0], Obj) else args[0]
                o['count'] += 1
            return (None,)
        return None
    return hook
