"""R-MINMAX — running extremum idiom: `if (A < B) B = A` etc. Name independent."""
from .flow import lvalue_key, is_assign, _strip_casts, pretty_key


def _split(n):
    """(base key, component) of an operand like v->x, vxmin.x, *c, xmin, min.x"""
    n = _strip_casts(n)
    if n is None:
        return None, None
    if n.k == 'MemberExpr' and n.n in ('x', 'y', 'u', 'v', 'X', 'Y') and n.child('base') is not None:
        b = n.child('base')
        while b is not None and b.k == 'MemberExpr' and not b.n:
            b = b.child('base')
        bk = lvalue_key(b)
        if bk is None and b is not None:
            bk = 'expr:' + ' '.join(b.text().split())      # a component of a computed vector, e.g. (min0 + offsets[i]).x
        return bk, n.n
    if n.k == 'ArraySubscriptExpr' and n.child('idx') is not None and n.child('idx').cv is not None:
        return '%s[%d]' % (lvalue_key(n.child('base')), n.child('idx').cv), None
    if n.k == 'BinaryOperator' and n.op in ('+', '-'):
        comps = {m.n for m in n.walk() if m.k == 'MemberExpr' and m.n in ('x', 'y', 'u', 'v', 'X', 'Y')}
        return 'expr:' + n.text(), (comps.pop() if len(comps) == 1 else ('mixed' if comps else None))
    return lvalue_key(n), None


def _deref_base(k):
    return k[1:] if k and k.startswith('*') else k


def find_updates(fn):
    """All running-extremum updates in fn: list of dicts(acc, comp, role, src, node)."""
    out = []
    for iff in fn.walk():
        if iff.k != 'IfStmt':
            continue
        c = _strip_casts(iff.child('cond'))
        if c is None or c.k != 'BinaryOperator' or c.op not in ('<', '>', '<=', '>='):
            continue
        th = iff.child('then')
        stmts = [th] if th is not None and th.k != 'CompoundStmt' else [x for x in (th.c if th is not None else []) if x is not None]
        if len(stmts) != 1 or not is_assign(stmts[0]) or stmts[0].op != '=':
            continue
        a = stmts[0]
        lb, lc = _split(c.child('lhs'))
        rb, rc = _split(c.child('rhs'))
        tb, tc = _split(a.child('lhs'))
        sb, sc = _split(a.child('rhs'))
        if None in (lb, rb, tb, sb):
            continue
        less = c.op in ('<', '<=')
        acc = None
        # accumulator on the right:  L op R ; R = L
        if _deref_base(tb) == _deref_base(rb) and _deref_base(sb) == _deref_base(lb):
            acc, role, acc_c, src_c, src = rb, ('min' if less else 'max'), rc, lc, lb
        elif _deref_base(tb) == _deref_base(lb) and _deref_base(sb) == _deref_base(rb):
            acc, role, acc_c, src_c, src = lb, ('max' if less else 'min'), lc, rc, rb
        if acc is None:
            continue
        out.append(dict(acc=acc, role=role, acc_comp=acc_c, src_comp=src_c, src=src, node=iff, tgt_comp=tc, asg_src_comp=sc))
    # the same update written with the library functions or a conditional expression:
    #   acc = std::min(acc, src)   acc = std::max(src, acc)   acc = (src < acc) ? src : acc
    for a in fn.walk():
        if not is_assign(a) or a.op != '=':
            continue
        r = _strip_casts(a.child('rhs'))
        while r is not None and r.k in ('MaterializeTemporaryExpr', 'ExprWithCleanups', 'CXXBindTemporaryExpr', 'ParenExpr') and r.c:
            r = _strip_casts(r.c[0])
        if r is None:
            continue
        tb, tc = _split(a.child('lhs'))
        if tb is None:
            continue
        if r.k == 'CallExpr' and (r.callee or '').split('<')[0] in ('std::min', 'std::max', 'fmin', 'fmax') and len(r.args) == 2:
            (ab, ac), (bb, bc) = _split(r.args[0]), _split(r.args[1])
            role = 'min' if 'min' in r.callee else 'max'
        elif r.k == 'ConditionalOperator':
            c = _strip_casts(r.child('cond'))
            if c is None or c.k != 'BinaryOperator' or c.op not in ('<', '>', '<=', '>='):
                continue
            (lb, lc), (rb, rc) = _split(c.child('lhs')), _split(c.child('rhs'))
            (thb, thc), (elb, elc) = _split(r.child('then')), _split(r.child('else'))
            if None in (lb, rb, thb, elb) or {(lb, lc), (rb, rc)} != {(thb, thc), (elb, elc)}:
                continue
            less = c.op in ('<', '<=')
            # value chosen when the test holds is `then`: (L < R ? L : R) = min, (L < R ? R : L) = max
            role = ('min' if less else 'max') if (thb, thc) == (lb, lc) else ('max' if less else 'min')
            (ab, ac), (bb, bc) = (lb, lc), (rb, rc)
        else:
            continue
        if None in (ab, bb):
            continue
        if _deref_base(tb) == _deref_base(ab) and tc == ac:
            acc, acc_c, src, src_c = ab, ac, bb, bc
        elif _deref_base(tb) == _deref_base(bb) and tc == bc:
            acc, acc_c, src, src_c = bb, bc, ab, ac
        else:
            continue
        out.append(dict(acc=acc, role=role, acc_comp=acc_c, src_comp=src_c, src=src, node=a, tgt_comp=tc, asg_src_comp=src_c))
    return out


def check_minmax(ctx, fn, rule='R-MINMAX', label=None):
    """Obligations: compared components agree (x with x), assigned components agree with the compared
    ones, and an accumulator keeps one role (never updated with both < and >)."""
    ups = find_updates(fn)
    roles = {}
    n = 0
    for u in ups:
        n += 1
        key = '%s/%s@%d' % (label or fn.qn, pretty_key(u['acc']) + ('.' + u['acc_comp'] if u['acc_comp'] else ''), u['node'].id)
        # compared components agree (scalar accumulators / whole-vector sources carry no component)
        ok = (u['acc_comp'] == u['src_comp']) or u['acc_comp'] is None or u['src_comp'] is None
        # the assignment writes the compared accumulator from the compared source
        ok2 = (u['tgt_comp'] == u['acc_comp'] or u['tgt_comp'] is None) and (u['asg_src_comp'] == u['src_comp'] or u['asg_src_comp'] is None)
        if u['tgt_comp'] is None and u['acc_comp'] is not None:
            ok2 = ok2 and u['asg_src_comp'] is None  # whole-vector update (vxmin = *v) must copy the whole source
        ctx.check(ok and ok2, rule, key, u['node'].loc(), 'running %s of `%s`: compared and assigned components agree' % (u['role'], pretty_key(u['acc'])),
                  'running-extremum update mixes components: compares .%s with .%s, assigns .%s from .%s' % (u['src_comp'], u['acc_comp'], u['tgt_comp'], u['asg_src_comp']))
        rk = (u['acc'], u['acc_comp'])
        if rk in roles and roles[rk][0] != u['role']:
            ctx.violation(rule, key + '/role', u['node'].loc(), '`%s` is updated as a running %s here but as a running %s at %s' % (pretty_key(u['acc']), u['role'], roles[rk][0], roles[rk][1]))
        roles.setdefault(rk, (u['role'], u['node'].loc()))
    return n, roles
