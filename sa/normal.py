"""Canonical form of the mini-AST (applied to every function when facts are loaded).

Spelling variants that cannot change behaviour are mapped to ONE representative before any rule looks at the tree,
so that no rule can depend on them. Each rewrite below is an equivalence of C++ semantics (stated with its side
condition); both directions of the variant end in the same normal form:

  N-INC    statement-level `++x` / `--x`                      -> `x++` / `x--`      (value unused)
  N-OPEQ   `a = a op b` (a: side-effect-free lvalue, op + - *) -> `a op= b`
  N-EQ     `c == x` with c a constant and x not               -> `x == c`; same for != (built-in, operands pure)
  N-NOT    `if (!c) A else B`                                  -> `if (c) B else A`
  N-COND   `const T t = e; if (t) ...` (t used nowhere else)   -> `if (e) ...`
  N-DECL   `T x; x = e;` (adjacent, scalar)                    -> `T x = e;`
  N-WHILE  `for (; c;) S`                                      -> `while (c) S`
  N-FOR    `{ i; while (c) { B; s } }` (block of exactly these two statements, no `continue` in B, s an
           increment/assignment statement)                     -> `for (i; c; s) { B }`
  N-BRACE  `{ S }` as branch/body with a single non-declaration statement -> `S`

Node ids are preserved (the clang CFG refers to them); removed wrapper nodes stay resolvable through fn.nodes.
Set GDSTK_SA_NO_NORMALISE=1 to see the raw tree (debugging only)."""
import os

PURE_SKIP = ('CallExpr', 'CXXMemberCallExpr', 'CXXOperatorCallExpr', 'CXXConstructExpr', 'CompoundAssignOperator', 'CXXNewExpr', 'CXXDeleteExpr')
CASTS = ('ImplicitCastExpr', 'CStyleCastExpr', 'CXXStaticCastExpr', 'CXXFunctionalCastExpr', 'CXXReinterpretCastExpr')
ENABLED = not os.environ.get('GDSTK_SA_NO_NORMALISE')


def strip(n):
    while n is not None and n.k in CASTS and n.child('sub') is not None:
        n = n.child('sub')
    return n


def set_children(node, pairs):
    node.c = [c for c, _ in pairs]
    node.rl = [r for _, r in pairs]
    for c, r in pairs:
        if c is not None:
            c.parent = node
            c.role = r


def pairs(node):
    return list(zip(node.c, node.rl))


def replace_child(parent, old, new):
    set_children(parent, [((new if c is old else c), r) for c, r in pairs(parent)])


def has_side_effects(n):
    for x in n.walk():
        if x.k in PURE_SKIP or (x.k == 'UnaryOperator' and x.op in ('++', '--', 'post++', 'post--')) or (x.k == 'BinaryOperator' and x.op in ('=', '+=', '-=', '*=', '/=', '%=', '&=', '|=', '^=', '<<=', '>>=')):
            return True
    return False


def is_const_expr(n):
    n = strip(n)
    if n is None:
        return False
    if n.k in ('IntegerLiteral', 'FloatingLiteral', 'CXXBoolLiteralExpr', 'GNUNullExpr', 'CXXNullPtrLiteralExpr', 'CharacterLiteral', 'StringLiteral'):
        return True
    if n.k == 'DeclRefExpr' and n.dk == 'enum':
        return True
    if n.cv is not None and n.k not in ('DeclRefExpr',) and not any(x.k in ('DeclRefExpr', 'MemberExpr') and x.dk != 'enum' for x in n.walk()):
        return True
    return False


def simple_lvalue(n):
    n = strip(n)
    if n is None:
        return False
    if n.k == 'DeclRefExpr':
        return True
    if n.k == 'MemberExpr':
        b = n.child('base')
        return b is None or strip(b).k == 'CXXThisExpr' or simple_lvalue(b)
    return False


def own_continue(s):
    if s is None:
        return False
    if s.k == 'ContinueStmt':
        return True
    if s.k in ('ForStmt', 'WhileStmt', 'DoStmt'):
        return False
    return any(own_continue(c) for c in s.c if c is not None)


def is_statement_position(n):
    p = n.parent
    if p is None:
        return False
    if p.k == 'CompoundStmt':
        return True
    if p.k == 'ForStmt' and n.role == 'inc':
        return True
    if p.k in ('IfStmt',) and n.role in ('then', 'else'):
        return True
    if p.k in ('ForStmt', 'WhileStmt', 'DoStmt') and n.role == 'body':
        return True
    if p.k in ('CaseStmt', 'DefaultStmt', 'LabelStmt') and n.role == 'sub':
        return True
    if p.k == 'BinaryOperator' and p.op == ',' and is_statement_position(p):
        return True
    return False


def setj(node, **kw):
    node.j = dict(node.j)
    node.j.update(kw)
    if 'k' in kw:
        node.k = kw['k']


def normalise(fn):
    if not ENABLED or fn.body is None:
        return
    changed = True
    rounds = 0
    while changed and rounds < 6:
        rounds += 1
        changed = False
        for n in list(fn.body.walk()):
            if n.parent is None and n is not fn.body:
                continue        # detached by an earlier rewrite
            k = n.k
            # N-INC
            if k == 'UnaryOperator' and n.op in ('++', '--') and is_statement_position(n):
                setj(n, op='post' + n.op)
                changed = True
            # N-OPEQ
            elif k == 'BinaryOperator' and n.op == '=' and is_statement_position(n):
                l, r = n.child('lhs'), strip(n.child('rhs'))
                if l is not None and r is not None and r.k == 'BinaryOperator' and r.op in ('+', '-', '*') and simple_lvalue(l) and not has_side_effects(l):
                    rl_, rr = r.child('lhs'), r.child('rhs')
                    if rl_ is not None and strip(rl_).text() == strip(l).text() and strip(rl_).k == strip(l).k:
                        setj(n, k='CompoundAssignOperator', op=r.op + '=')
                        set_children(n, [(l, 'lhs'), (rr, 'rhs')])
                        changed = True
            # N-EQ
            elif k == 'BinaryOperator' and n.op in ('==', '!='):
                l, r = n.child('lhs'), n.child('rhs')
                if l is not None and r is not None and not has_side_effects(l) and not has_side_effects(r):
                    cl, cr = is_const_expr(l), is_const_expr(r)
                    swap = (cl and not cr)
                    if not cl and not cr:
                        # neither is a constant: the simpler operand first (ties: by text), so that `a == b` and `b == a` coincide
                        kl, kr = (sum(1 for _ in strip(l).walk()), strip(l).text()), (sum(1 for _ in strip(r).walk()), strip(r).text())
                        swap = kr < kl
                    if swap:
                        set_children(n, [(r, 'lhs'), (l, 'rhs')])
                        changed = True
            # N-NOT
            elif k == 'IfStmt' and n.child('else') is not None and n.child('init') is None:
                c = strip(n.child('cond'))
                if c is not None and c.k == 'UnaryOperator' and c.op == '!' and c.child('sub') is not None:
                    new = []
                    th, el = n.child('then'), n.child('else')
                    for ch, role in pairs(n):
                        if role == 'cond':
                            new.append((c.child('sub'), 'cond'))
                        elif role == 'then':
                            new.append((el, 'then'))
                        elif role == 'else':
                            new.append((th, 'else'))
                        else:
                            new.append((ch, role))
                    set_children(n, new)
                    changed = True
            # N-WHILE
            elif k == 'ForStmt' and n.child('init') is None and n.child('inc') is None and n.child('cond') is not None:
                setj(n, k='WhileStmt')
                set_children(n, [(ch, role) for ch, role in pairs(n) if role in ('cond', 'body')])
                changed = True
            elif k == 'CompoundStmt':
                ch = [c for c in n.c if c is not None]
                # N-COND / N-DECL over adjacent statement pairs
                i = 0
                while i + 1 < len(ch):
                    a, b = ch[i], ch[i + 1]
                    v = a.c[0] if a.k == 'DeclStmt' and len([x for x in a.c if x is not None]) == 1 and a.c[0] is not None and a.c[0].k == 'VarDecl' else None
                    done = False
                    if v is not None and v.child('init') is not None and (v.t or '').startswith('const ') and b.k == 'IfStmt' and b.child('init') is None:
                        cond = strip(b.child('cond'))
                        neg = False
                        tgt = cond
                        if cond is not None and cond.k == 'UnaryOperator' and cond.op == '!':
                            tgt = strip(cond.child('sub'))
                            neg = True
                        if tgt is not None and tgt.k == 'DeclRefExpr' and tgt.d == v.d:
                            uses = [x for x in fn.body.walk() if x.k == 'DeclRefExpr' and x.d == v.d]
                            if len(uses) == 1:
                                init = v.child('init')
                                if neg:
                                    replace_child(cond, cond.child('sub'), init)
                                else:
                                    replace_child(b, b.child('cond'), init)       # the wrapper was only the load of the temporary
                                ch.pop(i)
                                done = True
                    if not done and v is not None and v.child('init') is None and '&' not in (v.t or '') and '[' not in (v.t or '') and not _const_var(v.t) \
                            and b.k == 'BinaryOperator' and b.op == '=' and strip(b.child('lhs')) is not None and strip(b.child('lhs')).k == 'DeclRefExpr' and strip(b.child('lhs')).d == v.d \
                            and not any(x.k == 'DeclRefExpr' and x.d == v.d for x in b.child('rhs').walk()) and _scalar(v.t):
                        set_children(v, pairs(v) + [(b.child('rhs'), 'init')])
                        ch.pop(i + 1)
                        done = True
                    if done:
                        changed = True
                        continue
                    i += 1
                if len(ch) != len([c for c in n.c if c is not None]):
                    set_children(n, [(c, 'x') for c in ch])
                # N-FOR: a block that holds exactly `init; while (c) {...; step}`
                if len(ch) == 2 and ch[1].k == 'WhileStmt' and n.parent is not None and n.parent.k == 'CompoundStmt' and ch[0].k in ('DeclStmt', 'BinaryOperator', 'CompoundAssignOperator', 'UnaryOperator'):
                    w = ch[1]
                    body = w.child('body')
                    if body is not None and body.k == 'CompoundStmt' and not own_continue(body):
                        bs = [c for c in body.c if c is not None]
                        inc = bs[-1] if bs and bs[-1].k in ('UnaryOperator', 'CompoundAssignOperator', 'BinaryOperator') and (bs[-1].k != 'BinaryOperator' or bs[-1].op in ('=', ',')) else None
                        if inc is not None:
                            set_children(body, [(c, 'x') for c in bs[:-1]])
                        setj(w, k='ForStmt')
                        set_children(w, [(ch[0], 'init'), (w.child('cond'), 'cond'), (inc, 'inc'), (body, 'body')])
                        # splice the for statement in place of the block
                        replace_child(n.parent, n, w)
                        changed = True
            # N-BRACE
            if n.k in ('IfStmt', 'ForStmt', 'WhileStmt', 'DoStmt'):
                for role in ('then', 'else', 'body'):
                    b = n.child(role)
                    if b is not None and b.k == 'CompoundStmt':
                        inner = [c for c in b.c if c is not None]
                        if len(inner) == 1 and inner[0].k not in ('DeclStmt', 'CompoundStmt') and not (role == 'then' and inner[0].k == 'IfStmt' and n.child('else') is not None):
                            replace_child(n, b, inner[0])
                            changed = True


def _const_var(t):
    t = (t or '').strip()
    if '*' in t:
        return t.endswith('const')
    return t.startswith('const ') or t.endswith(' const')


def _scalar(t):
    t = (t or '').replace('const', '').strip()
    if t.endswith('*'):
        return True
    return t in ('int', 'unsigned int', 'long', 'unsigned long', 'double', 'float', 'bool', 'char', 'unsigned char', 'short', 'unsigned short', 'uint8_t', 'uint16_t', 'uint32_t', 'uint64_t',
                 'int8_t', 'int16_t', 'int32_t', 'int64_t', 'size_t', 'long long', 'unsigned long long', 'gdstk::Tag', 'Tag')


# ------------------------------------------------------------------------------------------------------
# N-NAMES: names of locals carry no meaning. Rules written against the pinned tree mention some locals by name; to keep
# them independent of a renaming, the locals of each function are relabelled with the names the corresponding locals
# have in the pinned tree (sa/baseline_locals.json, produced by tools/mkbaseline.py): the declaration sequences
# (type texts) of the two versions are aligned, and every aligned local takes the pinned name. A relabelling cannot
# change what any rule decides about behaviour; unaligned locals keep their own names.
import difflib
import json

_BASE = None


def _baseline():
    global _BASE
    if _BASE is None:
        p = os.path.join(os.path.dirname(os.path.abspath(__file__)), 'baseline_locals.json')
        try:
            with open(p) as fh:
                _BASE = json.load(fh)
        except (OSError, ValueError):
            _BASE = {}
    return _BASE


def fkey(fn):
    return '%s|%s|%s' % (fn.qn, fn.targs or '', fn.sig or '')


def locals_of(fn):
    out = []
    seen = set()
    for v in fn.body.walk():
        if v.k == 'VarDecl' and v.d not in seen:
            seen.add(v.d)
            out.append(v)
    return out


def _tkey(t):
    return (t or '').replace('const ', '').replace(' const', '').strip()


def rename_to_baseline(fn):
    if not ENABLED or fn.body is None or os.environ.get('GDSTK_SA_NO_RENAME'):
        return
    base = _baseline().get(fkey(fn))
    if not base:
        return
    cur = locals_of(fn)
    if [v.n for v in cur] == [b[0] for b in base]:
        return
    a = [_tkey(b[1]) for b in base]
    b = [_tkey(v.t) for v in cur]
    pairs_ = []
    if a == b:
        pairs_ = list(zip(base, cur))
    else:
        sm = difflib.SequenceMatcher(None, a, b, autojunk=False)
        for blk in sm.get_matching_blocks():
            for i in range(blk.size):
                pairs_.append((base[blk.a + i], cur[blk.b + i]))
    mapping = {}
    for (bn, bt), v in pairs_:
        if v.n != bn:
            mapping[v.d] = bn
    if not mapping:
        return
    # a new name must not collide with a local that keeps its name, nor with a parameter
    keep = {v.n for v in cur if v.d not in mapping} | {p['n'] for p in fn.params}
    targets = {}
    for d, n in mapping.items():
        targets.setdefault(n, []).append(d)
    mapping = {d: n for d, n in mapping.items() if n not in keep and len(targets[n]) == 1}
    if not mapping:
        return
    for x in fn.body.walk():
        if x.k in ('VarDecl', 'DeclRefExpr') and x.d in mapping and (x.k == 'VarDecl' or x.dk in ('local', 'static')):
            setj(x, n=mapping[x.d])
