"""Canonical form of the mini-AST (applied to every function when facts are loaded).

Spelling variants that cannot change behaviour are mapped to ONE representative before any rule looks at the tree,
so that no rule can depend on them. Each rewrite below is an equivalence of C++ semantics (stated with its side
condition); both directions of the variant end in the same normal form:

  N-INC    statement-level `++x` / `--x`                      -> `x++` / `x--`      (value unused)
  N-OPEQ   `a = a op b` (a: side-effect-free lvalue, op + - *) -> `a op= b`
  N-EQ     `c == x` with c a constant and x not               -> `x == c`; same for != (built-in, operands pure)
  N-NOT    `if (!c) A else B`                                  -> `if (c) B else A`
  N-COND   `const T t = e; if (t) ...` (t used nowhere else)   -> `if (e) ...`
  N-DECL   `T x; x = e;` (adjacent, scalar)                    -> `T x = e;`
  N-WHILE  `for (; c;) S`                                      -> `while (c) S`
  N-FOR    `{ i; while (c) { B; s } }` (block of exactly these two statements, no `continue` in B, s an
           increment/assignment statement)                     -> `for (i; c; s) { B }`
  N-BRACE  `{ S }` as branch/body with a single non-declaration statement -> `S`

Node ids are preserved (the clang CFG refers to them); removed wrapper nodes stay resolvable through fn.nodes.
Set GDSTK_SA_NO_NORMALISE=1 to see the raw tree (debugging only)."""
import os

PURE_SKIP = ('CallExpr', 'CXXMemberCallExpr', 'CXXOperatorCallExpr', 'CXXConstructExpr', 'CompoundAssignOperator', 'CXXNewExpr', 'CXXDeleteExpr')
CASTS = ('ImplicitCastExpr', 'CStyleCastExpr', 'CXXStaticCastExpr', 'CXXFunctionalCastExpr', 'CXXReinterpretCastExpr')
ARITH_TYPES = ('double', 'float', 'int', 'unsigned int', 'long', 'unsigned long', 'int64_t', 'uint64_t', 'int32_t', 'uint32_t', 'int16_t', 'uint16_t', 'uint8_t', 'int8_t', 'size_t')
ENABLED = not os.environ.get('GDSTK_SA_NO_NORMALISE')
REL_NORMALISE = bool(os.environ.get('GDSTK_SA_REL'))


def strip(n):
    while n is not None and n.k in CASTS and n.child('sub') is not None:
        n = n.child('sub')
    return n


def set_children(node, pairs):
    node.c = [c for c, _ in pairs]
    node.rl = [r for _, r in pairs]
    for c, r in pairs:
        if c is not None:
            c.parent = node
            c.role = r


def pairs(node):
    return list(zip(node.c, node.rl))


def replace_child(parent, old, new):
    set_children(parent, [((new if c is old else c), r) for c, r in pairs(parent)])


def has_side_effects(n):
    for x in n.walk():
        if x.k in PURE_SKIP or (x.k == 'UnaryOperator' and x.op in ('++', '--', 'post++', 'post--')) or (x.k == 'BinaryOperator' and x.op in ('=', '+=', '-=', '*=', '/=', '%=', '&=', '|=', '^=', '<<=', '>>=')):
            return True
    return False


def is_const_expr(n):
    n = strip(n)
    if n is None:
        return False
    if n.k in ('IntegerLiteral', 'FloatingLiteral', 'CXXBoolLiteralExpr', 'GNUNullExpr', 'CXXNullPtrLiteralExpr', 'CharacterLiteral', 'StringLiteral'):
        return True
    if n.k == 'DeclRefExpr' and n.dk == 'enum':
        return True
    if n.cv is not None and n.k not in ('DeclRefExpr',) and not any(x.k in ('DeclRefExpr', 'MemberExpr') and x.dk != 'enum' for x in n.walk()):
        return True
    return False


def simple_lvalue(n):
    n = strip(n)
    if n is None:
        return False
    if n.k == 'DeclRefExpr':
        return True
    if n.k == 'MemberExpr':
        b = n.child('base')
        return b is None or strip(b).k == 'CXXThisExpr' or simple_lvalue(b)
    return False


def own_continue(s):
    if s is None:
        return False
    if s.k == 'ContinueStmt':
        return True
    if s.k in ('ForStmt', 'WhileStmt', 'DoStmt'):
        return False
    return any(own_continue(c) for c in s.c if c is not None)


def is_statement_position(n):
    p = n.parent
    if p is None:
        return False
    if p.k == 'CompoundStmt':
        return True
    if p.k == 'ForStmt' and n.role == 'inc':
        return True
    if p.k in ('IfStmt',) and n.role in ('then', 'else'):
        return True
    if p.k in ('ForStmt', 'WhileStmt', 'DoStmt') and n.role == 'body':
        return True
    if p.k in ('CaseStmt', 'DefaultStmt', 'LabelStmt') and n.role == 'sub':
        return True
    if p.k == 'BinaryOperator' and p.op == ',' and is_statement_position(p):
        return True
    return False


def setj(node, **kw):
    node.j = dict(node.j)
    node.j.update(kw)
    if 'k' in kw:
        node.k = kw['k']


PURE_CALLS = {'gdstk::gdsii_real_to_double', 'gdstk::gdsii_real_from_double', 'strlen', 'fabs', 'sqrt', 'cos', 'sin', 'tan', 'atan2', 'acos', 'asin', 'atan', 'llround', 'lround', 'round', 'floor', 'ceil', 'exp', 'log', 'pow', 'hypot', 'fmod',
              'gdstk::get_layer', 'gdstk::get_type', 'gdstk::make_tag', 'gdstk::cplx_from_angle', 'gdstk::cross', 'gdstk::hash', 'strcmp', 'memcmp'}
PURE_METHODS = ('length', 'length_sq', 'inner', 'cross', 'angle', 'ortho')
_clone_id = [0]


def pure_expr(e):
    for x in e.walk():
        if x.k in ('CompoundAssignOperator', 'CXXNewExpr', 'CXXDeleteExpr', 'CXXConstructExpr') and not (x.k == 'CXXConstructExpr' and 'Vec2' in (x.t or '')):
            return False
        if x.k == 'UnaryOperator' and x.op in ('++', '--', 'post++', 'post--'):
            return False
        if x.k == 'BinaryOperator' and x.op in ('=', '+=', '-=', '*=', '/=', '%=', '&=', '|=', '^=', '<<=', '>>=', ','):
            return False
        if x.k == 'CallExpr' and (x.callee or '') not in PURE_CALLS:
            return False
        if x.k == 'CXXMemberCallExpr' and (x.callee or '').split('::')[-1] not in PURE_METHODS:
            return False
        if x.k == 'CXXOperatorCallExpr' and x.op in ('=', '+=', '-=', '*=', '/=', '()'):
            return False
    return True


def mk_node(fn, kind, line, **attrs):
    from .facts import Node
    c = Node.__new__(Node)
    _clone_id[0] -= 1
    c.j = dict(attrs)
    c.j.update({'id': _clone_id[0], 'k': kind, 'l': line})
    c.id, c.k, c.l, c.fn, c.parent, c.role, c.rl, c.c = _clone_id[0], kind, line, fn, None, None, [], []
    fn.nodes[c.id] = c
    return c


def clone_node(n, fn, parent=None, role=None):
    from .facts import Node
    c = Node.__new__(Node)
    _clone_id[0] -= 1
    c.j = dict(n.j)
    c.j['id'] = _clone_id[0]
    c.j['orig'] = n.j.get('orig', n.id)
    c.id = _clone_id[0]
    c.k = n.k
    c.l = n.l
    c.fn = fn
    c.parent = parent
    c.role = role
    c.rl = list(n.rl)
    c.c = [clone_node(x, fn, c, r) if x is not None else None for x, r in zip(n.c, n.rl)]
    fn.nodes[c.id] = c
    return c


def _keys_read(e):
    from .flow import lvalue_key
    out = set()
    for x in e.walk():
        if x.k in ('DeclRefExpr', 'MemberExpr'):
            k = lvalue_key(x)
            if k:
                out.add(k)
    return out


def _reassigned(fn, v):
    for x in fn.body.walk():
        t = None
        if x.k in ('BinaryOperator', 'CompoundAssignOperator') and x.op in ('=', '+=', '-=', '*=', '/=', '%=', '&=', '|=', '^=', '<<=', '>>='):
            t = strip(x.child('lhs'))
        elif x.k == 'UnaryOperator' and x.op in ('++', '--', 'post++', 'post--', '&'):
            t = strip(x.child('sub'))
        elif x.k in ('CallExpr', 'CXXMemberCallExpr', 'CXXOperatorCallExpr'):
            # handed over by non-const reference (gx records the argument positions): the callee may write it
            args_ = x.args
            for idx in x.j.get('mutargs') or []:
                if idx < len(args_):
                    a0 = strip(args_[idx])
                    while a0 is not None and a0.k == 'MemberExpr':
                        a0 = strip(a0.child('base')) if a0.child('base') is not None else None
                    if a0 is not None and a0.k == 'DeclRefExpr' and a0.d == v.d:
                        return True
        while t is not None and t.k == 'MemberExpr':
            t = strip(t.child('base')) if t.child('base') is not None else None
        if t is not None and t.k == 'DeclRefExpr' and t.d == v.d:
            return True
    return False


def inline_temps(fn, only=None):
    """N-TEMP  `const T t = e;` where t has no counterpart among the locals of the pinned version of the function (a temporary
    introduced by an edit), e is pure and small, t is used at most four times and nothing e reads is written (and no impure call
    runs) between the declaration and the uses -> every use of t is e; the declaration disappears. Temporaries that exist in
    the pinned tree are left alone, so the tree of unchanged code is exactly what the rules were confirmed on."""
    from .flow import lvalue_key, is_assign
    changed = False
    for comp in [x for x in fn.body.walk() if x.k == 'CompoundStmt']:
        if comp.parent is None and comp is not fn.body:
            continue
        for st in [c for c in comp.c if c is not None]:
            if st.k != 'DeclStmt' or len([x for x in st.c if x is not None]) != 1:
                continue
            v = st.c[0]
            if v is None or v.k != 'VarDecl' or v.child('init') is None or '[' in (v.t or ''):
                continue
            if only is not None and v.d not in only:
                continue
            if '&' in (v.t or ''):
                # a reference bound to a fixed object (`T& r = local.member;`, `this->member`): every use of r is that object
                obj = strip(v.child('init'))
                cur = obj
                while cur is not None and cur.k == 'MemberExpr' and not (cur.arrow and strip(cur.child('base')).k != 'CXXThisExpr'):
                    cur = strip(cur.child('base'))
                through_ptr = False
                if cur is not None and cur.k == 'MemberExpr' and cur.arrow:
                    # `T& r = p->member;` with p a pointer local that is not written in this block: every use of r is p->member
                    pb = strip(cur.child('base'))
                    if pb is not None and pb.k == 'DeclRefExpr' and pb.dk in ('local', 'param') and '*' in (pb.t or ''):
                        written = False
                        for x in comp.walk():
                            t_ = None
                            if x.k in ('BinaryOperator', 'CompoundAssignOperator') and x.op in ('=', '+=', '-='):
                                t_ = strip(x.child('lhs'))
                            elif x.k == 'UnaryOperator' and x.op in ('++', '--', 'post++', 'post--', '&'):
                                t_ = strip(x.child('sub'))
                            if t_ is not None and t_.k == 'DeclRefExpr' and t_.d == pb.d:
                                written = True
                        through_ptr = not written
                if '&&' in (v.t or '') or cur is None or not (through_ptr or cur.k == 'CXXThisExpr' or (cur.k == 'DeclRefExpr' and cur.dk in ('local', 'param') and '*' not in (cur.t or '') and '&' not in (cur.t or ''))):
                    continue
                uses = [x for x in fn.body.walk() if x.k == 'DeclRefExpr' and x.d == v.d]
                if not uses or len(uses) > 24:
                    continue
                for u in uses:
                    replace_child(u.parent, u, clone_node(obj, fn))
                set_children(comp, [(c, 'x') for c in comp.c if c is not None and c is not st])
                changed = True
                continue
            if not _const_var(v.t) and _reassigned(fn, v):
                continue            # effectively const: declared once with an initialiser, never written again, address never taken
            t = (v.t or '')
            if not (_scalar(t.replace('const', '').strip()) or 'Vec2' in t or t.replace('const', '').strip().startswith('gdstk::') and t.count('::') == 1 and False):
                continue
            init = v.child('init')
            size = sum(1 for _ in init.walk())
            if size > 24 or not pure_expr(init):
                continue
            uses = [x for x in fn.body.walk() if x.k == 'DeclRefExpr' and x.d == v.d]
            if not uses or len(uses) > (24 if size <= 8 else 4):
                continue
            # nothing the initialiser reads may change, and no impure call may run, between declaration and use
            reads = _keys_read(init)
            reads_memory = any((x.k == 'UnaryOperator' and x.op == '*') or x.k == 'ArraySubscriptExpr' or (x.k == 'MemberExpr' and x.arrow and strip(x.child('base')).k != 'CXXThisExpr') or
                               (x.k == 'CXXOperatorCallExpr' and x.op == '[]') for x in init.walk())
            lo = v.id
            hi = max(u.id for u in uses)
            region = [x for x in comp.walk() if lo < x.id <= hi]
            for u in uses:
                for a in u.ancestors():
                    if a.k in ('ForStmt', 'WhileStmt', 'DoStmt') and not any(y is st for y in a.walk()):
                        region += list(a.walk())
            bad = False
            cfg = None
            try:
                cfg = fn.cfg
            except Exception:
                cfg = None
            wdecl = cfg.where_node(v) if cfg is not None else None
            wuses = [cfg.where_node(u) for u in uses] if cfg is not None else []

            def between(x):
                """can x execute after the declaration and before a use, without the declaration running again in between?"""
                if cfg is None or wdecl is None or any(w is None for w in wuses):
                    return True
                wx = cfg.where_node(x)
                if wx is None:
                    return True
                if wx == wdecl:
                    return False
                if cfg.path_avoiding(wdecl, lambda b_, i_, nid: (b_, i_) == wx, lambda b_, i_, nid: False) is None:
                    return False
                return any(wx == wu or cfg.path_avoiding(wx, lambda b_, i_, nid, wu=wu: (b_, i_) == wu, lambda b_, i_, nid: (b_, i_) == wdecl) is not None for wu in wuses)
            for x in region:
                if any(y is x for y in init.walk()):
                    continue
                if x.k in ('CallExpr', 'CXXMemberCallExpr', 'CXXOperatorCallExpr', 'BinaryOperator', 'CompoundAssignOperator', 'UnaryOperator') and not between(x):
                    continue
                if x.k in ('CallExpr', 'CXXMemberCallExpr', 'CXXOperatorCallExpr') and not pure_expr(x):
                    # an impure call in between matters only if it can change what the initialiser reads: memory behind
                    # pointers / array elements, the object itself (a call on `this`), or a local whose address it receives
                    if reads_memory or (x.k == 'CXXMemberCallExpr' and x.child('obj') is not None and strip(x.child('obj')).k == 'CXXThisExpr') or x.k == 'CallExpr' and any(
                            strip(a_).k == 'UnaryOperator' and strip(a_).op == '&' for a_ in x.args):
                        bad = True
                        break
                    if any(idx_ < len(x.args) and lvalue_key(strip(x.args[idx_])) in reads for idx_ in (x.j.get('mutargs') or [])):
                        bad = True          # the call receives something the initialiser reads by non-const reference
                        break
                tgt = None
                if x.k in ('BinaryOperator', 'CompoundAssignOperator') and x.op in ('=', '+=', '-=', '*=', '/=', '%=', '&=', '|=', '^=', '<<=', '>>='):
                    tgt = x.child('lhs')
                elif x.k == 'UnaryOperator' and x.op in ('++', '--', 'post++', 'post--'):
                    tgt = x.child('sub')
                if tgt is not None:
                    tk = lvalue_key(strip(tgt))
                    if tk is None or any(tk == r or r.startswith(tk) or tk.startswith(r.split('[')[0]) for r in reads) or strip(tgt).k in ('UnaryOperator', 'ArraySubscriptExpr'):
                        if tk is None or strip(tgt).k in ('UnaryOperator', 'ArraySubscriptExpr') or any(tk == r or r.startswith(tk) for r in reads):
                            bad = True
                            break
            if bad:
                continue
            # a copy-initialisation `const T t = e;` with e of type T: the temporary stands for e itself
            src = init
            while src.k in ('CXXConstructExpr', 'MaterializeTemporaryExpr', 'CXXBindTemporaryExpr', 'ImplicitCastExpr', 'CXXFunctionalCastExpr') and len([x for x in src.c if x is not None]) == 1 \
                    and (src.k != 'ImplicitCastExpr' or src.cast in ('NoOp', 'LValueToRValue', 'ConstructorConversion')):
                inner = [x for x in src.c if x is not None][0]
                if _tkey(inner.t).replace('gdstk::', '') != _tkey(src.t).replace('gdstk::', '') and src.k != 'ImplicitCastExpr':
                    break
                src = inner
            for u in uses:
                cl = clone_node(src, fn)
                p_ = u.parent
                # the use is usually wrapped in an lvalue-to-rvalue load: replace that wrapper
                if p_ is not None and p_.k == 'ImplicitCastExpr' and p_.cast == 'LValueToRValue' and p_.parent is not None:
                    replace_child(p_.parent, p_, cl)
                elif p_ is not None:
                    replace_child(p_, u, cl)
            set_children(comp, [(c, 'x') for c in comp.c if c is not None and c is not st])
            changed = True
    return changed


_TYPE_SPELLING = __import__('re').compile(r'\b(size_t|unsigned long|unsigned long int|std::size_t|std::uint64_t)\b')


def normalise(fn):
    if not ENABLED or fn.body is None:
        return
    # N-TYPE: one spelling for the 64-bit unsigned integer (size_t, unsigned long and uint64_t are the same type on the LP64 targets the
    # build is configured for; the canonical type recorded by clang is identical)
    for n in fn.body.walk():
        t = n.j.get('t')
        if t and ('size_t' in t or 'unsigned long' in t) and 'unsigned long long' not in t:
            n.j = dict(n.j)
            n.j['t'] = _TYPE_SPELLING.sub('uint64_t', t)
    _normalise(fn)
    if not os.environ.get('GDSTK_SA_NO_TEMPS'):
        new = new_locals(fn)
        if new and inline_temps(fn, only=new):
            _normalise(fn)


def _cursor_block(fn, comp):
    """N-CURSOR: `p[0] = e0; ...; p[n-1] = e(n-1); p += n;` (consecutive statements, the e's do not mention p) is
    `*p++ = e0; ...; *p++ = e(n-1);` - a write cursor advanced once per block or once per store"""
    ch = pairs(comp)
    for idx, (st, _r) in enumerate(ch):
        if st is None or st.k != 'CompoundAssignOperator' or st.op != '+=':
            continue
        l = strip(st.child('lhs'))
        r = strip(st.child('rhs'))
        if l is None or r is None or l.k != 'DeclRefExpr' or '*' not in (l.t or '') or r.cv is None or r.cv < 1 or r.cv > 8 or idx < r.cv:
            continue
        n = r.cv
        stores = [c for c, _ in ch[idx - n:idx]]
        ok = True
        for i, x in enumerate(stores):
            if x is None or x.k != 'BinaryOperator' or x.op != '=':
                ok = False
                break
            t = strip(x.child('lhs'))
            if t is None or t.k != 'ArraySubscriptExpr':
                ok = False
                break
            b, ix = strip(t.child('base') or t.c[0]), strip(t.child('idx') or t.c[1])
            if b is None or b.k != 'DeclRefExpr' or b.d != l.d or ix is None or ix.cv != i:
                ok = False
                break
            if any(y.k == 'DeclRefExpr' and y.d == l.d for y in x.child('rhs').walk()):
                ok = False
                break
        if not ok:
            continue
        for x in stores:
            t = strip(x.child('lhs'))
            base = strip(t.child('base') or t.c[0])
            inc = mk_node(fn, 'UnaryOperator', x.l, op='post++', t=base.t, ct=base.ct, cfgat=x.j.get('cfgat', x.id))
            set_children(inc, [(base, 'sub')])
            der = mk_node(fn, 'UnaryOperator', x.l, op='*', t=t.t, ct=t.ct, cfgat=x.j.get('cfgat', x.id))
            set_children(der, [(inc, 'sub')])
            set_children(x, [(der, 'lhs'), (x.child('rhs'), 'rhs')])
        set_children(comp, [(c, r_) for j, (c, r_) in enumerate(ch) if j != idx])
        return True
    return False


def _normalise(fn):
    changed = True
    rounds = 0
    while changed and rounds < 6:
        rounds += 1
        changed = False
        for n in list(fn.body.walk()):
            if n.parent is None and n is not fn.body:
                continue        # detached by an earlier rewrite
            k = n.k
            # N-CURSOR
            if k == 'CompoundStmt' and _cursor_block(fn, n):
                changed = True
                continue
            # N-INC
            if k == 'UnaryOperator' and n.op in ('++', '--') and is_statement_position(n):
                setj(n, op='post' + n.op)
                changed = True
            # N-OPEQ
            elif k == 'BinaryOperator' and n.op == '=' and is_statement_position(n):
                l, r = n.child('lhs'), strip(n.child('rhs'))
                if l is not None and r is not None and r.k == 'BinaryOperator' and r.op in ('+', '-', '*') and simple_lvalue(l) and not has_side_effects(l):
                    rl_, rr = r.child('lhs'), r.child('rhs')
                    if rl_ is not None and strip(rl_).text() == strip(l).text() and strip(rl_).k == strip(l).k:
                        setj(n, k='CompoundAssignOperator', op=r.op + '=')
                        set_children(n, [(l, 'lhs'), (rr, 'rhs')])
                        changed = True
                    elif r.op in ('+', '*') and rr is not None and strip(rr).text() == strip(l).text() and strip(rr).k == strip(l).k \
                            and not has_side_effects(rl_) and '*' not in (l.t or '') and (l.t or '').replace('const ', '').strip() in ARITH_TYPES:
                        # `a = b op a` with op commutative on arithmetic operands (IEEE addition and multiplication commute exactly)
                        setj(n, k='CompoundAssignOperator', op=r.op + '=')
                        set_children(n, [(l, 'lhs'), (rl_, 'rhs')])
                        changed = True
            # N-EQ
            elif k == 'BinaryOperator' and n.op in ('==', '!='):
                l, r = n.child('lhs'), n.child('rhs')
                if l is not None and r is not None and not has_side_effects(l) and not has_side_effects(r):
                    cl, cr = is_const_expr(l), is_const_expr(r)
                    swap = (cl and not cr)
                    if not cl and not cr:
                        # neither is a constant: the simpler operand first (ties: by text), so that `a == b` and `b == a` coincide
                        kl, kr = (sum(1 for _ in strip(l).walk()), strip(l).text()), (sum(1 for _ in strip(r).walk()), strip(r).text())
                        swap = kr < kl
                    if swap:
                        set_children(n, [(r, 'lhs'), (l, 'rhs')])
                        changed = True
            # N-REL: `a > b` -> `b < a`, `a >= b` -> `b <= a` (built-in comparison, operands without side effects)
            elif k == 'BinaryOperator' and n.op in ('>', '>=') and REL_NORMALISE:
                l, r = n.child('lhs'), n.child('rhs')
                if l is not None and r is not None and not has_side_effects(l) and not has_side_effects(r):
                    setj(n, op='<' if n.op == '>' else '<=')
                    set_children(n, [(r, 'lhs'), (l, 'rhs')])
                    changed = True
            # N-NOT
            elif k == 'IfStmt' and n.child('else') is not None and n.child('init') is None:
                c = strip(n.child('cond'))
                if c is not None and c.k == 'UnaryOperator' and c.op == '!' and c.child('sub') is not None:
                    new = []
                    th, el = n.child('then'), n.child('else')
                    for ch, role in pairs(n):
                        if role == 'cond':
                            new.append((c.child('sub'), 'cond'))
                        elif role == 'then':
                            new.append((el, 'then'))
                        elif role == 'else':
                            new.append((th, 'else'))
                        else:
                            new.append((ch, role))
                    set_children(n, new)
                    changed = True
            # N-DOWHILE: `if (c) do B while (c);` with the same pure condition and nothing else under the if  ->  `while (c) B`
            elif k == 'IfStmt' and n.child('else') is None and n.child('init') is None and n.child('then') is not None and \
                    (n.child('then').k == 'DoStmt' or (n.child('then').k == 'CompoundStmt' and len([x for x in n.child('then').c if x is not None]) == 1 and [x for x in n.child('then').c if x is not None][0].k == 'DoStmt')):
                do = n.child('then') if n.child('then').k == 'DoStmt' else [x for x in n.child('then').c if x is not None][0]
                c1, c2 = n.child('cond'), do.child('cond')
                if c1 is not None and c2 is not None and pure_expr(c1) and ' '.join(c1.text().split()) == ' '.join(c2.text().split()) and n.parent is not None:
                    w = mk_node(fn, 'WhileStmt', n.l)
                    w.j['id'] = n.id
                    w.id = n.id
                    fn.nodes[n.id] = w
                    set_children(w, [(c1, 'cond'), (do.child('body'), 'body')])
                    replace_child(n.parent, n, w)
                    changed = True
            # N-WHILE
            elif k == 'ForStmt' and n.child('init') is None and n.child('inc') is None:
                cond = n.child('cond')
                if cond is None:
                    cond = mk_node(fn, 'CXXBoolLiteralExpr', n.l, v=True, t='bool', cv=1)      # for (;;) == while (true)
                setj(n, k='WhileStmt')
                set_children(n, [(cond, 'cond'), (n.child('body'), 'body')])
                changed = True
            elif k == 'CompoundStmt':
                ch = [c for c in n.c if c is not None]
                # N-COND / N-DECL over adjacent statement pairs
                i = 0
                while i + 1 < len(ch):
                    a, b = ch[i], ch[i + 1]
                    v = a.c[0] if a.k == 'DeclStmt' and len([x for x in a.c if x is not None]) == 1 and a.c[0] is not None and a.c[0].k == 'VarDecl' else None
                    done = False
                    if v is not None and v.child('init') is not None and (v.t or '').startswith('const ') and b.k == 'IfStmt' and b.child('init') is None:
                        cond = strip(b.child('cond'))
                        neg = False
                        tgt = cond
                        if cond is not None and cond.k == 'UnaryOperator' and cond.op == '!':
                            tgt = strip(cond.child('sub'))
                            neg = True
                        if tgt is not None and tgt.k == 'DeclRefExpr' and tgt.d == v.d:
                            uses = [x for x in fn.body.walk() if x.k == 'DeclRefExpr' and x.d == v.d]
                            if len(uses) == 1:
                                init = v.child('init')
                                if neg:
                                    replace_child(cond, cond.child('sub'), init)
                                else:
                                    replace_child(b, b.child('cond'), init)       # the wrapper was only the load of the temporary
                                ch.pop(i)
                                done = True
                    if not done and v is not None and v.child('init') is None and '&' not in (v.t or '') and '[' not in (v.t or '') and not _const_var(v.t) \
                            and b.k == 'BinaryOperator' and b.op == '=' and strip(b.child('lhs')) is not None and strip(b.child('lhs')).k == 'DeclRefExpr' and strip(b.child('lhs')).d == v.d \
                            and not any(x.k == 'DeclRefExpr' and x.d == v.d for x in b.child('rhs').walk()) and _scalar(v.t):
                        set_children(v, pairs(v) + [(b.child('rhs'), 'init')])
                        ch.pop(i + 1)
                        done = True
                    if done:
                        changed = True
                        continue
                    i += 1
                if len(ch) != len([c for c in n.c if c is not None]):
                    set_children(n, [(c, 'x') for c in ch])
                # N-FOR: a block that holds exactly `init; while (c) {...; step}`
                if len(ch) == 2 and ch[1].k == 'WhileStmt' and n.parent is not None and n.parent.k == 'CompoundStmt' and ch[0].k in ('DeclStmt', 'BinaryOperator', 'CompoundAssignOperator', 'UnaryOperator'):
                    w = ch[1]
                    body = w.child('body')
                    if body is not None and body.k == 'CompoundStmt' and not own_continue(body):
                        bs = [c for c in body.c if c is not None]
                        inc = bs[-1] if bs and bs[-1].k in ('UnaryOperator', 'CompoundAssignOperator', 'BinaryOperator') and (bs[-1].k != 'BinaryOperator' or bs[-1].op in ('=', ',')) else None
                        if inc is not None:
                            set_children(body, [(c, 'x') for c in bs[:-1]])
                        setj(w, k='ForStmt')
                        set_children(w, [(ch[0], 'init'), (w.child('cond'), 'cond'), (inc, 'inc'), (body, 'body')])
                        # splice the for statement in place of the block
                        replace_child(n.parent, n, w)
                        changed = True
            # N-BRACE
            if n.k in ('IfStmt', 'ForStmt', 'WhileStmt', 'DoStmt'):
                for role in ('then', 'else', 'body'):
                    b = n.child(role)
                    if b is not None and b.k == 'CompoundStmt':
                        inner = [c for c in b.c if c is not None]
                        if len(inner) == 1 and inner[0].k not in ('DeclStmt', 'CompoundStmt') and not (role == 'then' and inner[0].k == 'IfStmt' and n.child('else') is not None):
                            replace_child(n, b, inner[0])
                            changed = True


def _const_var(t):
    t = (t or '').strip()
    if '*' in t:
        return t.endswith('const')
    return t.startswith('const ') or t.endswith(' const')


def _scalar(t):
    t = (t or '').replace('const', '').strip()
    if t.endswith('*'):
        return True
    return t in ('int', 'unsigned int', 'long', 'unsigned long', 'double', 'float', 'bool', 'char', 'unsigned char', 'short', 'unsigned short', 'uint8_t', 'uint16_t', 'uint32_t', 'uint64_t',
                 'int8_t', 'int16_t', 'int32_t', 'int64_t', 'size_t', 'long long', 'unsigned long long', 'gdstk::Tag', 'Tag')


# ------------------------------------------------------------------------------------------------------
# N-NAMES: names of locals carry no meaning. Rules written against the pinned tree mention some locals by name; to keep
# them independent of a renaming, the locals of each function are relabelled with the names the corresponding locals
# have in the pinned tree (sa/baseline_locals.json, produced by tools/mkbaseline.py): the declaration sequences
# (type texts) of the two versions are aligned, and every aligned local takes the pinned name. A relabelling cannot
# change what any rule decides about behaviour; unaligned locals keep their own names.
import difflib
import json

_BASE = None


def _baseline():
    global _BASE
    if _BASE is None:
        p = os.path.join(os.path.dirname(os.path.abspath(__file__)), 'baseline_locals.json')
        try:
            with open(p) as fh:
                _BASE = json.load(fh)
        except (OSError, ValueError):
            _BASE = {}
    return _BASE


def fkey(fn):
    return '%s|%s|%s' % (fn.qn, fn.targs or '', fn.sig or '')


def locals_of(fn):
    out = []
    seen = set()
    for v in fn.body.walk():
        if v.k == 'VarDecl' and v.d not in seen:
            seen.add(v.d)
            out.append(v)
    return out


def _tkey(t):
    return (t or '').replace('const ', '').replace(' const', '').strip()


def init_shape(v):
    """coarse shape of a local's initialiser (root operator / callee), used together with the type to align locals"""
    i = strip(v.child('init')) if v.child('init') is not None else None
    if i is None:
        return '-'
    if i.k in ('BinaryOperator', 'UnaryOperator', 'CompoundAssignOperator', 'CXXOperatorCallExpr'):
        return i.k[:3] + (i.op or '')
    if i.k in ('CallExpr', 'CXXMemberCallExpr'):
        return 'call:' + (i.callee or '').split('::')[-1]
    if i.k in ('IntegerLiteral', 'FloatingLiteral', 'CXXBoolLiteralExpr', 'GNUNullExpr', 'InitListExpr', 'ImplicitValueInitExpr'):
        return 'lit'
    if i.k in ('MemberExpr', 'DeclRefExpr'):
        return 'ref:' + (i.n or '')
    return i.k[:6]


def _akey(t, shape):
    return _tkey(t) + '|' + shape


def align(fn):
    """[(baseline (name, type), current VarDecl)] for the locals that correspond, and the list of current locals"""
    base = _baseline().get(fkey(fn))
    if not base:
        return None, []
    cur = locals_of(fn)
    out = []
    if [_tkey(b[1]) for b in base] == [_tkey(v.t) for v in cur]:
        out = list(zip(base, cur))       # same declaration sequence: only names can differ
    else:
        # first the locals that kept their name and type (in order), then the gaps between them by type and initialiser shape
        an = [b[0] + '|' + _tkey(b[1]) for b in base]
        bn = [v.n + '|' + _tkey(v.t) for v in cur]
        sm = difflib.SequenceMatcher(None, an, bn, autojunk=False)
        anchors = [(blk.a + i, blk.b + i) for blk in sm.get_matching_blocks() for i in range(blk.size)]
        for ia, ib in anchors:
            out.append((base[ia], cur[ib]))
        pa, pb = 0, 0
        for ia, ib in anchors + [(len(base), len(cur))]:
            ga, gb = list(range(pa, ia)), list(range(pb, ib))
            if ga and gb:
                a = [_akey(base[i][1], base[i][2] if len(base[i]) > 2 else '-') for i in ga]
                b = [_akey(cur[i].t, init_shape(cur[i])) for i in gb]
                sm2 = difflib.SequenceMatcher(None, a, b, autojunk=False)
                for blk in sm2.get_matching_blocks():
                    for i in range(blk.size):
                        out.append((base[ga[blk.a + i]], cur[gb[blk.b + i]]))
            pa, pb = ia + 1, ib + 1
    return out, cur


def new_locals(fn):
    """decl ids of the locals that have no counterpart in the pinned version of the function"""
    if os.environ.get('GDSTK_SA_NO_RENAME'):
        return set()
    pr, cur = align(fn)
    if pr is None:
        return set()
    matched = {v.d for _, v in pr}
    return {v.d for v in cur if v.d not in matched}


def rename_to_baseline(fn):
    if not ENABLED or fn.body is None or os.environ.get('GDSTK_SA_NO_RENAME'):
        return
    pairs_, cur = align(fn)
    if not pairs_:
        return
    mapping = {}
    for bt_, v in pairs_:
        bn = bt_[0]
        if v.n != bn:
            mapping[v.d] = bn
    if not mapping:
        return
    # a new name must not collide with a local that keeps its name, nor with a parameter
    keep = {v.n for v in cur if v.d not in mapping} | {p['n'] for p in fn.params}
    targets = {}
    for d, n in mapping.items():
        targets.setdefault(n, []).append(d)
    mapping = {d: n for d, n in mapping.items() if n not in keep and len(targets[n]) == 1}
    if not mapping:
        return
    for x in fn.body.walk():
        if x.k in ('VarDecl', 'DeclRefExpr') and x.d in mapping and (x.k == 'VarDecl' or x.dk in ('local', 'static')):
            setj(x, n=mapping[x.d])


# ------------------------------------------------------------------------------------------------------
# N-ORIENT: `a < b` and `b > a` (and, on integers, `!(a >= b)`) are one comparison. Rules written against the pinned tree
# mention some comparisons by text; every relational comparison is therefore oriented the way the same comparison is
# written in the pinned version of the function (the set of its comparison texts is part of sa/baseline_locals.json).
# A comparison that has no counterpart there keeps the form it was written in.
_INTS = ('int', 'unsigned int', 'long', 'unsigned long', 'char', 'unsigned char', 'short', 'unsigned short', 'uint8_t', 'uint16_t', 'uint32_t', 'uint64_t',
         'int8_t', 'int16_t', 'int32_t', 'int64_t', 'size_t', 'long long', 'unsigned long long', 'gdstk::Tag', 'Tag')
_FLIP = {'<': '>', '>': '<', '<=': '>=', '>=': '<='}
_NEG = {'<': '>=', '>': '<=', '<=': '>', '>=': '<', '==': '!=', '!=': '=='}


def rel_text(n):
    return ' '.join(n.text().split())


def relations_of(fn):
    return sorted({rel_text(n) for n in fn.body.walk() if n.k == 'BinaryOperator' and n.op in _FLIP})


def _is_int(e):
    t = (e.ct or e.t or '').replace('const', '').strip()
    return t in _INTS or t.endswith('*')


def _flip(n):
    l, r = n.child('lhs'), n.child('rhs')
    setj(n, op=_FLIP[n.op])
    set_children(n, [(r, 'lhs'), (l, 'rhs')])


def orient_to_baseline(fn):
    if not ENABLED or fn.body is None or os.environ.get('GDSTK_SA_NO_ORIENT'):
        return 0
    base = _baseline().get('__relations__', {}).get(fkey(fn))
    if base is None:
        return 0
    base = set(base)
    done = 0
    # `!(a OP b)` on integers (and `!(a == b)` on anything): the negated operator, when the pinned text has that form
    for u in [x for x in fn.body.walk() if x.k == 'UnaryOperator' and x.op == '!']:
        inner = strip(u.child('sub'))
        while inner is not None and inner.k == 'ParenExpr':
            inner = strip(inner.c[0])
        if inner is None or inner.k != 'BinaryOperator' or inner.op not in _NEG or u.parent is None:
            continue
        l, r = inner.child('lhs'), inner.child('rhs')
        if l is None or r is None or has_side_effects(l) or has_side_effects(r):
            continue
        if inner.op in _FLIP and not (_is_int(strip(l)) and _is_int(strip(r))):
            continue            # with floating-point operands `!(a < b)` and `a >= b` differ on NaN
        old = inner.op
        setj(inner, op=_NEG[old])
        t1 = rel_text(inner)
        hit = t1 in base
        if not hit and inner.op in _FLIP:
            _flip(inner)
            hit = rel_text(inner) in base
            if not hit:
                _flip(inner)
        if hit:
            replace_child(u.parent, u, inner)
            done += 1
        else:
            setj(inner, op=old)
    for n in [x for x in fn.body.walk() if x.k == 'BinaryOperator' and x.op in _FLIP]:
        if rel_text(n) in base:
            continue
        l, r = n.child('lhs'), n.child('rhs')
        if l is None or r is None or not ((pure_expr(l) and pure_expr(r)) or not has_side_effects(l) or not has_side_effects(r)):
            continue            # (the operands of a built-in comparison are unsequenced: swapping two pure ones, or one with effects and one without, changes nothing)
        _flip(n)
        if rel_text(n) in base:
            done += 1
        else:
            _flip(n)
    return done


# ------------------------------------------------------------------------------------------------------
# N-INLINE: a file-local helper that does not exist in the pinned tree (a block extracted by an edit) is put back where it is called

def _base_functions():
    return set(_baseline().get('__functions__', []))


def _is_new_helper(h, caller):
    return (h.body is not None and h.rec is None and h.file == caller.file and h.linkage in ('static', 'inline') and fkey(h) not in _base_functions()
            and '__functions__' in _baseline())


def _param_written(h, d):
    for x in h.body.walk():
        t = None
        if x.k in ('BinaryOperator', 'CompoundAssignOperator') and x.op in ('=', '+=', '-=', '*=', '/=', '%=', '&=', '|=', '^=', '<<=', '>>='):
            t = strip(x.child('lhs'))
        elif x.k == 'UnaryOperator' and x.op in ('++', '--', 'post++', 'post--'):
            t = strip(x.child('sub'))
        if t is not None and t.k == 'DeclRefExpr' and t.d == d:
            return True
    return False


def _subst_clone(n, fn, binding, at):
    """clone of n (a subtree of the helper) for insertion into fn: parameters are replaced by clones of the arguments"""
    if n.k == 'DeclRefExpr' and n.dk == 'param' and n.d in binding:
        c = clone_node(binding[n.d], fn)
    else:
        from .facts import Node
        c = Node.__new__(Node)
        _clone_id[0] -= 1
        c.j = dict(n.j)
        c.j['id'] = _clone_id[0]
        c.j['orig'] = n.j.get('orig', n.id)
        c.id, c.k, c.l, c.fn, c.parent, c.role = _clone_id[0], n.k, at.l, fn, None, None
        c.j['l'] = at.l
        c.rl = list(n.rl)
        c.c = []
        for x, r in zip(n.c, n.rl):
            if x is None:
                c.c.append(None)
            else:
                y = _subst_clone(x, fn, binding, at)
                y.parent, y.role = c, r
                c.c.append(y)
        fn.nodes[c.id] = c
    for y in c.walk():
        y.j = dict(y.j)
        y.j['cfgat'] = at.id          # control-flow position of everything that was inlined: the call it replaces
    # `(*e).f` (a reference parameter bound to `*this` or `*ptr`) is `e->f`
    for y in list(c.walk()):
        if y.k == 'MemberExpr' and not y.arrow and y.child('base') is not None:
            b = strip(y.child('base'))
            if b is not None and b.k == 'UnaryOperator' and b.op == '*' and b.child('sub') is not None:
                setj(y, arrow=True)
                set_children(y, [((b.child('sub') if ch is y.child('base') else ch), r) for ch, r in pairs(y)])
    return c


def _subst_clone_folded(n, fn, binding, at):
    return fold_consts(_subst_clone(n, fn, binding, at), fn)


def _const_of(n):
    n0 = strip(n)
    while n0 is not None and n0.k in CASTS + ('ParenExpr',) and n0.c and n0.c[0] is not None and n0.cv is None:
        n0 = n0.c[0]
    if n0 is not None and n0.cv is not None and n0.k != 'DeclRefExpr':
        return n0.cv
    return None


def fold_consts(root, fn):
    """N-FOLD (only on code put back from a helper, where substituting `i + 1` or `0` for a parameter leaves `(i + 1) + 1`, `0 + 1`):
    integer `c1 + c2` -> literal, `(x + c1) + c2` -> `x + (c1 + c2)`, `x + 0` -> x. Integer addition is associative modulo 2^n."""
    changed = True
    while changed:
        changed = False
        for n in list(root.walk()):
            if n.k != 'BinaryOperator' or n.op not in ('+', '-') or n.parent is None:
                continue
            t = (n.ct or n.t or '').replace('const ', '').strip()
            if t not in _INTS:
                continue
            l, r = n.child('lhs'), n.child('rhs')
            cl, cr = _const_of(l), _const_of(r)
            new = None
            if cl is not None and cr is not None:
                new = mk_node(fn, 'IntegerLiteral', n.l, cv=(cl + cr) if n.op == '+' else (cl - cr), t=n.t, ct=n.ct, cfgat=n.j.get('cfgat'))
            elif cr is not None:
                l0 = strip(l)
                if cr == 0:
                    new = l
                elif l0 is not None and l0.k == 'BinaryOperator' and l0.op in ('+', '-') and _const_of(l0.child('rhs')) is not None and (l0.ct or l0.t or '').replace('const ', '').strip() in _INTS:
                    c1 = _const_of(l0.child('rhs')) * (1 if l0.op == '+' else -1)
                    tot = c1 + (cr if n.op == '+' else -cr)
                    if tot == 0:
                        new = l0.child('lhs')
                    else:
                        lit = mk_node(fn, 'IntegerLiteral', n.l, cv=abs(tot), t=n.t, ct=n.ct, cfgat=n.j.get('cfgat'))
                        new = mk_node(fn, 'BinaryOperator', n.l, op='+' if tot > 0 else '-', t=n.t, ct=n.ct, cfgat=n.j.get('cfgat'))
                        set_children(new, [(l0.child('lhs'), 'lhs'), (lit, 'rhs')])
            elif cl == 0 and n.op == '+':
                new = r
            if new is not None:
                if n is root:
                    return new
                replace_child(n.parent, n, new)
                changed = True
                break
    return root


def _structure(stmts, f, binding, at, assign, cont=()):
    """Statements of a helper whose returns sit in tail positions of if-chains -> (cloned statements in which `return e` became
    assign(e), every path assigns?). The code that follows an `if` containing a return (`cont`: the rest of the enclosing lists) is
    pushed into every branch that falls through, so a path that has returned never reaches it. None when a return sits elsewhere
    (inside a loop or switch)."""
    out = []
    stmts = list(stmts)
    for i, s in enumerate(stmts):
        if s.k == 'ReturnStmt':
            v = s.child('value')
            if v is None:
                if assign is not None:
                    return None
                return out, True            # `return;` of a void helper: nothing more on this path
            if assign is None:
                return None
            out.append(assign(_subst_clone_folded(v, f, binding, at)))
            return out, True
        if not any(x.k == 'ReturnStmt' for x in s.walk()):
            out.append(_subst_clone_folded(s, f, binding, at))
            continue
        if s.k != 'IfStmt' or any(r not in ('cond', 'then', 'else') for c_, r in pairs(s) if c_ is not None):
            return None
        follow = stmts[i + 1:] + list(cont)
        a = _structure(s.child('then').stmts(), f, binding, at, assign, follow)
        b = _structure(s.child('else').stmts() if s.child('else') is not None else [], f, binding, at, assign, follow)
        if a is None or b is None:
            return None
        (tl, tc), (el, ec) = a, b
        n = mk_node(f, 'IfStmt', at.l, cfgat=at.id)
        kids = [(_subst_clone_folded(s.child('cond'), f, binding, at), 'cond')]
        for lst, role in ((tl, 'then'), (el, 'else')):
            if not lst and role == 'else':
                continue
            comp = mk_node(f, 'CompoundStmt', at.l, cfgat=at.id)
            set_children(comp, [(x, 'x') for x in lst])
            kids.append((comp, role))
        set_children(n, kids)
        out.append(n)
        return out, tc and ec
    if cont:
        r = _structure(list(cont), f, binding, at, assign, ())
        if r is None:
            return None
        return out + r[0], r[1]
    return out, False


def _branch_free_of_effects(h):
    """A helper with several exits is put back as nested if/else only when its body calls nothing with effects on the outside
    (streams, allocation, logging ...): the code that is put back has no CFG of its own, and the path rules (open/close pairing,
    null checks, error-code propagation) must keep seeing such calls where they really are - they follow the helper instead."""
    for x in h.body.walk():
        if x.k in ('CallExpr', 'CXXMemberCallExpr', 'CXXNewExpr', 'CXXDeleteExpr') and not pure_expr(x):
            return False
    return True


def _inline_structured(f, c, h, binding, prefix=()):
    """`T v = h(..);`, `x = h(..);` or `return h(..);` with a helper whose returns are structured: the body replaces the
    statement, each return becoming the initialisation / assignment / return."""
    body = [x for x in h.body.c if x is not None]
    if (h.ret or '').strip() == 'void':
        # a call statement of a void helper with early returns: the code after an `if (...) return;` moves into the else branch
        if c.parent is None or c.parent.k != 'CompoundStmt':
            return False
        r = _structure(body, f, binding, c, None)
        if r is None:
            return False
        out = []
        for ch, role in pairs(c.parent):
            if ch is c:
                out += [(n_, 'x') for n_ in list(prefix) + r[0]]
            else:
                out.append((ch, role))
        set_children(c.parent, out)
        return True
    up = c.parent
    while up is not None and up.k in CASTS:
        up = up.parent
    top = c
    while top.parent is not up:
        top = top.parent
    if up is None:
        return False
    if up.k == 'VarDecl' and top.role == 'init' and up.parent is not None and up.parent.k == 'DeclStmt' and len([x for x in up.parent.c if x is not None]) == 1 \
            and up.parent.parent is not None and up.parent.parent.k == 'CompoundStmt':
        stmt = up.parent
        ty = (up.t or '').replace('const ', '').strip()

        def assign(v):
            a = mk_node(f, 'BinaryOperator', c.l, op='=', t=ty, cfgat=c.id)
            ref = mk_node(f, 'DeclRefExpr', c.l, n=up.n, d=up.d, dk='local', t=ty, ct=(up.ct or ty).replace('const ', '').strip(), cfgat=c.id)
            set_children(a, [(ref, 'lhs'), (v, 'rhs')])
            return a
        r = _structure(body, f, binding, c, assign)
        if r is None or not r[1]:
            return False
        setj(up, t=ty, ct=(up.ct or ty).replace('const ', '').strip())
        set_children(up, [(x, ro) for x, ro in pairs(up) if ro != 'init'])
        keep = True
    elif up.k == 'BinaryOperator' and up.op == '=' and top.role == 'rhs' and up.parent is not None and up.parent.k == 'CompoundStmt' and simple_lvalue(strip(up.child('lhs'))):
        stmt = up
        lhs = up.child('lhs')

        def assign(v):
            a = mk_node(f, 'BinaryOperator', c.l, op='=', t=up.t, cfgat=c.id)
            set_children(a, [(clone_node(lhs, f), 'lhs'), (v, 'rhs')])
            return a
        r = _structure(body, f, binding, c, assign)
        if r is None or not r[1]:
            return False
        keep = False
    elif up.k == 'ReturnStmt' and up.parent is not None and up.parent.k == 'CompoundStmt':
        stmt = up

        def assign(v):
            a = mk_node(f, 'ReturnStmt', c.l, cfgat=c.id)
            set_children(a, [(v, 'value')])
            return a
        r = _structure(body, f, binding, c, assign)
        if r is None or not r[1]:
            return False
        keep = False
    else:
        # nested in an expression statement (`x |= h(a) << 2;`): the result goes through a fresh local declared in front of
        # the statement - the same evaluation when this call is the statement's only call and the variables it is handed
        # by reference do not occur elsewhere in the statement
        stmt = c

        def _hosted(n_):
            """n_ is a statement of a block, directly or as the first statement after case labels of a switch body"""
            p_ = n_.parent
            while p_ is not None and p_.k in ('CaseStmt', 'DefaultStmt') and n_.role == 'sub':
                n_, p_ = p_, p_.parent
            return p_ is not None and p_.k == 'CompoundStmt'
        while stmt.parent is not None and not _hosted(stmt):
            if stmt.parent.k == 'IfStmt' and stmt.role == 'cond' and _hosted(stmt.parent):
                if not _branch_free_of_effects(h):
                    return False        # (a helper that closes streams / logs / allocates and reports through its result stays a call)
                stmt = stmt.parent      # the condition of an `if` that sits in a block: the call runs once, before the branch
                break
            if stmt.parent.k not in ('BinaryOperator', 'CompoundAssignOperator', 'UnaryOperator', 'ConditionalOperator', 'VarDecl', 'DeclStmt', 'InitListExpr', 'CXXConstructExpr',
                                     'MaterializeTemporaryExpr', 'ExprWithCleanups', 'CXXBindTemporaryExpr') + CASTS:
                return False
            if stmt.parent.k == 'DeclStmt' and len([x for x in stmt.parent.c if x is not None]) != 1:
                return False
            if stmt.parent.k == 'ConditionalOperator' or (stmt.parent.k == 'BinaryOperator' and stmt.parent.op in ('&&', '||', ',')):
                return False            # conditionally evaluated
            stmt = stmt.parent
        if stmt.parent is None or stmt is c:
            return False
        scope_ = stmt.child('cond') if stmt.k == 'IfStmt' else stmt
        others = [x for x in scope_.walk() if x.k in ('CallExpr', 'CXXMemberCallExpr', 'CXXOperatorCallExpr', 'CXXNewExpr', 'CXXDeleteExpr') and not any(y is x for y in c.walk())]
        if any(not pure_expr(x) for x in others):
            return False            # (copy constructors of iterators / vectors are taken to be free of effects)
        inside = {x.id for x in c.walk()}
        byref = set()
        for p_, a in zip(h.params, c.args):
            if '&' in (p_.get('t') or '') or '*' in (p_.get('t') or ''):
                byref |= {x.d for x in a.walk() if x.k == 'DeclRefExpr'}
        if any(x.k == 'DeclRefExpr' and x.d in byref and x.id not in inside for x in scope_.walk()):
            return False
        ty = (h.ret or c.t or '').replace('const ', '').strip()
        if not ty or ty == 'void':
            return False
        _clone_id[0] -= 1
        did = _clone_id[0]
        name = '__%s_result%d' % (h.name, -did)
        var = mk_node(f, 'VarDecl', c.l, n=name, d=did, dk='local', t=ty, ct=ty, cfgat=c.id)
        decl = mk_node(f, 'DeclStmt', c.l, cfgat=c.id)
        set_children(decl, [(var, 'var')])

        def ref():
            return mk_node(f, 'DeclRefExpr', c.l, n=name, d=did, dk='local', t=ty, ct=ty, cfgat=c.id)

        def assign(v):
            a = mk_node(f, 'BinaryOperator', c.l, op='=', t=ty, cfgat=c.id)
            set_children(a, [(ref(), 'lhs'), (v, 'rhs')])
            return a
        r = _structure(body, f, binding, c, assign)
        if r is None or not r[1]:
            return False
        if stmt.parent.k in ('CaseStmt', 'DefaultStmt'):
            # first statement after case labels: the hoisted statements take its place under the label, it follows them in the switch body
            seq = [decl] + list(prefix) + r[0] + [stmt]
            inner = stmt.parent
            top = inner
            while top.parent is not None and top.parent.k in ('CaseStmt', 'DefaultStmt') and top.role == 'sub':
                top = top.parent
            host = top.parent
            replace_child(inner, stmt, seq[0])
            out = []
            for ch, role in pairs(host):
                out.append((ch, role))
                if ch is top:
                    out += [(n_, 'x') for n_ in seq[1:]]
            set_children(host, out)
            replace_child(c.parent, c, ref())
            return True
        out = []
        for ch, role in pairs(stmt.parent):
            if ch is stmt:
                out.append((decl, 'x'))
                out += [(n_, 'x') for n_ in list(prefix) + r[0]]
            out.append((ch, role))
        set_children(stmt.parent, out)
        replace_child(c.parent, c, ref())
        return True
    out = []
    for ch, role in pairs(stmt.parent):
        if ch is stmt:
            if keep:
                out.append((ch, role))
            out += [(n_, 'x') for n_ in list(prefix) + r[0]]
        else:
            out.append((ch, role))
    set_children(stmt.parent, out)
    return True


def lambda_of(db, call):
    """the lambda a closure call `name(args)` runs: among the lambdas of the enclosing function (they share one qualified name),
    the one whose closure object `name` was initialised with"""
    hs = [h for h in db.by_qn.get(call.callee or '', []) if getattr(h, 'is_lambda', False) and h.body is not None]
    hs = list({(h.file, h.line): h for h in hs}.values())
    if not hs:
        return None
    a = [x for x, r in pairs(call) if r == 'arg']
    obj = strip(a[0]) if a else None
    if obj is None or obj.k != 'DeclRefExpr':
        return hs[0] if len(hs) == 1 else None
    decl = next((v for v in call.fn.body.walk() if v.k == 'VarDecl' and v.d == obj.d), None)
    if decl is None:
        return hs[0] if len(hs) == 1 else None
    init = decl.child('init')
    lam = next((x for x in (init.walk() if init is not None else []) if x.k == 'LambdaExpr'), None)
    line = lam.l if lam is not None else decl.l
    same = [h for h in hs if h.file == call.fn.file and h.line == line]
    if len(same) == 1:
        return same[0]
    return hs[0] if len(hs) == 1 else None


def inline_new_helpers(db):
    if not ENABLED or os.environ.get('GDSTK_SA_NO_INLINE') or '__functions__' not in _baseline():
        return 0
    done = 0
    for f in db.functions:
        if f.body is None or not (relsrc(f.file)):
            continue
        # N-LAMBDA: `name(args)` on a local lambda is an operator call on the closure object; read it as a call of the body
        for c in [x for x in f.body.walk() if x.k == 'CXXOperatorCallExpr' and (x.callee or '').endswith('::operator()')]:
            h = lambda_of(db, c)
            a = [(x, r) for x, r in pairs(c) if r == 'arg']
            if h is not None and a and len(a) - 1 == len(h.params):
                set_children(c, a[1:])
                c.j = dict(c.j)
                c.k = c.j['k'] = 'CallExpr'
                c.j['lambda_line'] = h.line
        for _round in range(2):
            changed = False
            for c in [x for x in f.body.walk() if x.k == 'CallExpr' and x.callee]:
                if c.parent is None:
                    continue
                hs = [h for h in db.by_qn.get(c.callee, []) if _is_new_helper(h, f) and len(h.params) == len(c.args)]
                if c.j.get('lambda_line') is not None:
                    hs = [h for h in hs if h.line == c.j['lambda_line']][:1]      # (several lambdas of one function share a name)
                if len(hs) != 1 or hs[0] is f:
                    continue
                h = hs[0]
                binding = {}
                prefix = []
                ok = True
                for p_, a in zip(h.params, c.args):
                    isref = '&' in (p_.get('t') or '')
                    a0 = strip(a)
                    # (an explicit cast that changes what a pointer points to - `(double*)vec2_ptr` - is part of the argument: the
                    # helper indexes it in units of the new type)
                    x_ = a
                    while x_ is not None and x_.k == 'ImplicitCastExpr' and x_.child('sub') is not None:
                        x_ = x_.child('sub')
                    if x_ is not None and x_.k in ('CStyleCastExpr', 'CXXReinterpretCastExpr', 'CXXStaticCastExpr') and '*' in (x_.t or '') and x_.child('sub') is not None \
                            and (strip(x_.child('sub')).t or '').replace('const ', '').strip() != (x_.t or '').replace('const ', '').strip():
                        a0 = x_
                    if a0 is None:
                        ok = False
                        break
                    if isref or (not _param_written(h, p_['d']) and pure_expr(a0) and sum(1 for _ in a0.walk()) <= 12):
                        binding[p_['d']] = a0
                    elif pure_expr(a0) and '*' not in (p_.get('t') or '') and '[' not in (p_.get('t') or ''):
                        # a by-value parameter the helper assigns to (or a larger argument): a local copy initialised with the argument
                        _clone_id[0] -= 1
                        did = _clone_id[0]
                        ty = (p_.get('t') or '').replace('const ', '').strip()
                        nm = '__%s_%s%d' % (h.name, p_['n'], -did)
                        var = mk_node(f, 'VarDecl', c.l, n=nm, d=did, dk='local', t=ty, ct=ty, cfgat=c.id)
                        set_children(var, [(clone_node(a0, f), 'init')])
                        dst = mk_node(f, 'DeclStmt', c.l, cfgat=c.id)
                        set_children(dst, [(var, 'var')])
                        prefix.append(dst)
                        binding[p_['d']] = mk_node(f, 'DeclRefExpr', c.l, n=nm, d=did, dk='local', t=ty, ct=ty, cfgat=c.id)
                    else:
                        ok = False
                        break
                if not ok:
                    continue
                body = [x for x in h.body.c if x is not None]
                rets = [x for x in h.body.walk() if x.k == 'ReturnStmt']
                if not prefix and len(body) == 1 and body[0].k == 'ReturnStmt' and body[0].child('value') is not None:
                    new = _subst_clone_folded(body[0].child('value'), f, binding, c)
                    replace_child(c.parent, c, new)
                    changed = True
                    done += 1
                elif not rets and is_statement_position(c) and c.parent.k != 'CompoundStmt' and not (c.parent.k == 'BinaryOperator'):
                    news = prefix + [_subst_clone_folded(x, f, binding, c) for x in body]
                    comp = mk_node(f, 'CompoundStmt', c.l)
                    comp.j['cfgat'] = c.id
                    set_children(comp, [(n_, 'x') for n_ in news])
                    replace_child(c.parent, c, comp if len(news) != 1 else news[0])
                    changed = True
                    done += 1
                elif rets and _inline_structured(f, c, h, binding, prefix):
                    changed = True
                    done += 1
                elif not rets and c.parent.k == 'CompoundStmt':
                    news = prefix + [_subst_clone_folded(x, f, binding, c) for x in body]
                    if prefix:
                        comp = mk_node(f, 'CompoundStmt', c.l)
                        comp.j['cfgat'] = c.id
                        set_children(comp, [(n_, 'x') for n_ in news])
                        news = [comp]
                    out = []
                    for ch, role in pairs(c.parent):
                        if ch is c:
                            out += [(n_, 'x') for n_ in news]
                        else:
                            out.append((ch, role))
                    set_children(c.parent, out)
                    changed = True
                    done += 1
            if not changed:
                break
            _normalise(f)
            orient_to_baseline(f)
    return done


def relsrc(path):
    return '/src/' in path or '/include/gdstk/' in path
