"""The signature accumulator of the OASIS writer, decided by interpretation of its source."""


def accumulator_model(db):
    """oasis_write and oasis_putc interpreted (sa/minieval, C integer widths) in each state of the stream - buffering into the
    CBLOCK buffer (room left, exact fit, overflow; with no scheme, CRC32 or CHECKSUM32 selected), CRC32, CHECKSUM32, both requested
    (CRC32 has precedence, as in the END record), no validation - on small byte strings and, for the CRC
    chunking, on virtual buffers of UINT_MAX, UINT_MAX + 1 and 2 UINT_MAX + 5 bytes. reallocate / memcpy / crc32 / fwrite / putc
    are answered by the harness: crc32 registers the bytes (or the byte range) it is fed after those of the signature value it
    continues; checksum32 is interpreted itself. Returns the list of problems."""
    from . import minieval as M
    problems = []
    UMAX = 0xFFFFFFFF

    class Virt(list):
        """a byte buffer too large to materialise: only offsets are tracked"""

    def run(fq, kind, payload, used=2, cap=8, sig0=0x11, size=1):
        f = db.fn(fq)
        chains = {sig0: ()}          # signature value -> the byte segments it stands for
        nxt = [0x1000]
        filelog = []
        ref = [None]

        def seg(ptr, n):
            if isinstance(ptr, M.Ref):
                return (('bytes', (int(ref[0].load(ptr)) & 0xFF,)),) if n == 1 else (('bad', n),)
            if isinstance(ptr.arr, Virt):
                return (('range', ptr.i, ptr.i + n),)
            if ptr.i + n > len(ptr.arr):
                raise M.OutOfBounds('%d bytes read from a buffer of %d' % (n, len(ptr.arr) - ptr.i))
            return (('bytes', tuple(int(b) & 0xFF for b in ptr.arr[ptr.i:ptr.i + n])),)

        def extra(callee, args, node):
            c = callee or ''
            short = c.split('::')[-1]
            if short == 'reallocate':
                old, n = args[0], int(args[1])
                lst = (list(old.arr[old.i:]) if isinstance(old, M.Ptr) else []) + [0xEE] * n
                lst = lst[:n]
                ref[0].writable.add(id(lst))
                return (M.Ptr(lst, 0),)
            if short == 'memcpy':
                d, s_, n = args[0], args[1], int(args[2])
                if d.i + n > len(d.arr):
                    raise M.OutOfBounds('memcpy of %d bytes into the %d left of the buffer at %s' % (n, len(d.arr) - d.i, node.loc()))
                for k_ in range(n):
                    d.arr[d.i + k_] = int(s_.arr[s_.i + k_]) & 0xFF
                return (d,)
            if short == 'crc32' and len(args) == 3:
                sg, ptr, n = int(args[0]), args[1], int(args[2])
                if n > UMAX:
                    problems.append('%s: crc32 is handed a length of %d, more than an unsigned int holds' % (fq, n))
                if sg not in chains:
                    problems.append('%s: crc32 continues from a value that is not the stream signature' % fq)
                    chains[sg] = (('lost',),)
                nxt[0] += 1
                chains[nxt[0]] = chains[sg] + (seg(ptr, n) if n else ())
                return (nxt[0],)
            if short == 'fwrite':
                ptr, sz, cnt, fl = args
                filelog.append(seg(ptr, int(sz) * int(cnt))[0] if int(sz) * int(cnt) else ('bytes', ()))
                if fl != 'FILE':
                    problems.append('%s: fwrite to something that is not the stream file' % fq)
                return (int(cnt),)
            if short in ('putc', 'fputc'):
                filelog.append(('bytes', (int(args[0]) & 0xFF,)))
                if args[1] != 'FILE':
                    problems.append('%s: putc to something that is not the stream file' % fq)
                return (int(args[0]) & 0xFF,)
            return None
        mi = M.Mini(db, hook=extra, budget=200000, c_ints=True)
        mi.obj_store = True
        ref[0] = mi
        buf = [0xAA] * used + [0xEE] * (cap - used)
        mi.writable.add(id(buf))
        label = kind
        buffered = kind.startswith('buffer')
        out = M.Obj(file='FILE', data=M.Ptr(buf, 0) if buffered else 0, cursor=M.Ptr(buf, used) if buffered else 0, data_size=cap if buffered else 0,
                    signature=sig0, crc32=int(kind in ('crc', 'both', 'buffer+crc')), checksum32=int(kind in ('sum', 'both', 'buffer+sum')), error_code=0)
        if kind == 'both':
            kind = 'crc'            # both schemes requested: CRC32 has precedence everywhere (oasis_write, the END record), so it must here
        if buffered:
            kind = 'buffer'
        if fq.endswith('oasis_putc'):
            env = {f.params[0]['n']: payload, f.params[1]['n']: out}
            n_bytes, want = 1, (payload & 0xFF,)
        else:
            if isinstance(payload, int):
                src, n_bytes, want = M.Ptr(Virt(), 0), payload, None
            else:
                src, n_bytes, want = M.Ptr(list(payload), 0), len(payload), tuple(payload)
            env = {f.params[0]['n']: src, f.params[1]['n']: size, f.params[2]['n']: n_bytes // size, f.params[3]['n']: out}
        try:
            mi.run(f.body, env)
            rv = None
        except M.Return as r:
            rv = r.v
        except M.OutOfBounds as ex:
            problems.append('%s in state %s, %s bytes: %s' % (fq.replace('gdstk::', ''), label, n_bytes, ex))
            return

        def flat(segs):
            o, rng = [], []
            for s_ in segs:
                if s_[0] == 'bytes':
                    o += list(s_[1])
                elif s_[0] == 'range':
                    rng.append((s_[1], s_[2]))
                else:
                    o.append(s_)
            return tuple(o), rng
        tag = '%s in state %s, %s bytes' % (fq.replace('gdstk::', ''), label, n_bytes)
        if kind == 'buffer':
            d, cu = out['data'], out['cursor']
            if filelog or out['signature'] != sig0:
                problems.append(tag + ': the file or the signature is touched while the CBLOCK buffer is armed')
            if not (isinstance(d, M.Ptr) and isinstance(cu, M.Ptr) and cu.arr is d.arr and cu.i - d.i == used + n_bytes):
                problems.append(tag + ': the cursor is not %d bytes past the start of the buffer afterwards' % (used + n_bytes))
            elif tuple(d.arr[d.i:d.i + used + n_bytes]) != tuple([0xAA] * used) + want:
                problems.append(tag + ': the buffer holds %s, expected the %d earlier bytes followed by %s' % (d.arr[d.i:d.i + used + n_bytes], used, list(want)))
            elif out['data_size'] != len(d.arr) - d.i or out['data_size'] < used + n_bytes:
                problems.append(tag + ': data_size %s does not describe the buffer of %d bytes' % (out['data_size'], len(d.arr) - d.i))
            return
        fb, fr = flat(filelog)
        if want is not None and fb != want:
            problems.append(tag + ': the file receives %s, expected %s' % (list(fb), list(want)))
        if want is None and fr != [(0, n_bytes)]:
            problems.append(tag + ': the file receives the ranges %s' % fr)
        if kind == 'crc':
            ch = chains.get(out['signature'])
            if ch is None:
                problems.append(tag + ': the signature is not a value crc32 returned')
            else:
                cb, cr = flat(ch)
                if want is not None and cb != want:
                    problems.append(tag + ': the CRC is fed %s, the bytes written are %s' % (list(cb), list(want)))
                if want is None:
                    pos = 0
                    for a_, b_ in cr:
                        if a_ != pos or b_ <= a_:
                            break
                        pos = b_
                    else:
                        a_ = None
                    if pos != n_bytes or a_ is not None:
                        problems.append(tag + ': the CRC is fed the byte ranges %s, not 0..%d once in order' % (cr[:4], n_bytes))
        elif kind == 'sum':
            exp = (sig0 + sum(want)) & 0xFFFFFFFF
            if out['signature'] != exp:
                problems.append(tag + ': CHECKSUM32 %s after %s from %s, expected %s' % (out['signature'], list(want), sig0, exp))
        elif out['signature'] != sig0:
            problems.append(tag + ': the signature changes although no validation scheme is selected')
    W, P = 'gdstk::oasis_write', 'gdstk::oasis_putc'
    runs = 0
    for kind in ('buffer', 'buffer+crc', 'buffer+sum', 'crc', 'sum', 'both', 'none'):
        for payload in ([7], [1, 2, 3], [250, 251, 252, 253, 254, 255], []):
            for used in ((2, 5, 6) if kind.startswith('buffer') else (0,)):
                run(W, kind, payload, used=used, sig0=0xFFFFFF00 if kind == 'sum' else 0x11)
                runs += 1
        run(W, kind, [9, 8, 7, 6, 5, 4, 3, 2], size=4, sig0=0x11)
        runs += 1
        for c in (0x41, 0x1FF, 0):
            for used in ((2, 7, 8) if kind.startswith('buffer') else (0,)):
                run(P, kind, c, used=used, sig0=0xFFFFFFFF if kind == 'sum' else 0x11)
                runs += 1
    for big in (UMAX, UMAX + 1, 2 * UMAX + 5):
        run(W, 'crc', big)
        runs += 1
    run(W, 'crc', 8 * (UMAX // 8 + 3), size=8)
    runs += 1
    return problems, runs
