"""R-FIELDSEQ — OASIS per-record field sequences: reader arms (ordered info-bit tests and primitive
codec calls) and writer blocks (abstractly interpreted under predicate atoms), compared with the
SEMI P39 record rows."""
import re
from . import tables
from .facts import AnalysisBroken
from .flow import lvalue_key, is_assign, _strip_casts

READ_CODEC = {'gdstk::oasis_read_unsigned_integer': 'uint', 'gdstk::oasis_read_integer': 'sint', 'gdstk::oasis_read_real': 'real', 'gdstk::oasis_read_string': 'string',
              'gdstk::oasis_read_point_list': 'plist', 'gdstk::oasis_read_repetition': 'rep', 'gdstk::oasis_read_1delta': '1delta', 'gdstk::oasis_read': 'byte',
              'gdstk::oasis_read_gdelta': 'gdelta', 'gdstk::oasis_read_real_by_type': 'real_by_type'}
WRITE_CODEC = {'gdstk::oasis_write_unsigned_integer': 'uint', 'gdstk::oasis_write_integer': 'sint', 'gdstk::oasis_write_real': 'real', 'gdstk::oasis_write': 'bytes',
               'gdstk::oasis_write_point_list': 'plist', 'gdstk::oasis_write_repetition': 'rep', 'gdstk::oasis_write_1delta': '1delta', 'gdstk::oasis_putc': 'byte',
               'gdstk::oasis_write_gdelta': 'gdelta', 'gdstk::properties_to_oas': 'props'}


def norm(t):
    return re.sub(r'<[A-Za-z]+:(?!:)[^>]*>', '', t).replace('gdstk::', '')


def info_mask(c, var='info'):
    """`info & MASK` (possibly `(info & M) == V` / `!= 0`): returns (mask, want) or None"""
    c = _strip_casts(c)
    if c.k == 'BinaryOperator' and c.op == '&':
        l, r = _strip_casts(c.child('lhs')), _strip_casts(c.child('rhs'))
        if l.k == 'DeclRefExpr' and l.n == var and r.cv is not None:
            return r.cv
    return None


def reads_in(node):
    """ordered primitive reads in an expression/statement subtree (evaluation order ~ pre-order of calls, args first)"""
    out = []

    def go(n):
        if n is None:
            return
        if n.k in ('CallExpr',) and n.callee in READ_CODEC:
            for a in n.args:
                go(a)
            out.append(READ_CODEC[n.callee])
            return
        for c in n.c:
            go(c)
    go(node)
    return out


def seq_of(stmts, var='info'):
    """Canonical field-sequence string of a reader arm: reads in order, `M?(...)` for tests of info
    bits, `M?(...):(...)` with else part; loops as `{...}*`; other conditions as `?(..)`."""
    parts = []
    for s in stmts:
        if s is None:
            continue
        parts.extend(_seq(s, var))
    return ' '.join(parts)


def _seq(s, var):
    if s.k == 'CompoundStmt':
        out = []
        for c in s.c:
            if c is not None:
                out.extend(_seq(c, var))
        return out
    if s.k == 'IfStmt':
        m = info_mask(s.child('cond'), var)
        pre = reads_in(s.child('cond')) if m is None else []
        th = _seq(s.child('then'), var)
        el = _seq(s.child('else'), var) if s.child('else') is not None else []
        if not th and not el and not pre:
            return []
        tag = ('0x%02X' % m) if m is not None else ''
        body = '%s?(%s)' % (tag, ' '.join(th))
        if el:
            body += ':(%s)' % ' '.join(el)
        return pre + [body]
    if s.k in ('ForStmt', 'WhileStmt', 'DoStmt'):
        b = _seq(s.child('body'), var)
        pre = reads_in(s.child('cond')) if s.child('cond') is not None else []
        if s.k == 'ForStmt' and s.child('init') is not None:
            pre = reads_in(s.child('init')) + pre
        return pre + (['{%s}*' % ' '.join(b)] if b else [])
    if s.k == 'SwitchStmt':
        arms = []
        for labels, stmts, top in tables.switch_arms(s):
            b = []
            for x in stmts:
                b.extend(_seq(x, var))
            if b:
                arms.append('%s:(%s)' % ('|'.join(str(l) for l in labels), ' '.join(b)))
        m = info_mask(s.child('cond'), var)
        pre = reads_in(s.child('cond')) if m is None else []
        return pre + (['switch%s[%s]' % (('(0x%02X)' % m) if m is not None else '', ' '.join(arms))] if arms else [])
    return reads_in(s)


# ------------------------------------------------------------------------------------------------
# structure trees + simulation (robust against re-nesting of the tests)

def tree_of(stmts, var='info'):
    out = []
    for s in stmts:
        if s is not None:
            out.extend(_tree(s, var))
    return out


COND_NODES = {}       # text of a non-mask condition -> its expression node (for evaluation by record_test)


def _reads(node):
    """reads of an expression / simple statement in evaluation order; a conditional expression with reads in its branches is a
    condition node like an `if`"""
    out = []

    def go(n):
        if n is None:
            return
        if n.k == 'ConditionalOperator' and (reads_in(n.child('then')) or reads_in(n.child('else'))):
            go(n.child('cond'))
            th, el = _reads(n.child('then')), _reads(n.child('else'))
            m = info_mask(n.child('cond'), 'info')
            if m is not None:
                out.append(('mask', m, th, el))
            else:
                t = norm(n.child('cond').text())
                COND_NODES[t] = n.child('cond')
                out.append(('cond', t, th, el))
            return
        if n.k in ('CallExpr',) and n.callee in READ_CODEC:
            for a in n.args:
                go(a)
            out.append(('read', READ_CODEC[n.callee]))
            return
        for c in n.c:
            go(c)
    go(node)
    return out


def record_test(text, rec, enum_values):
    """truth of a condition that only compares `record` with OasisRecord enumerators (==, !=, &&, ||, !, named through const
    bool locals), for the record `rec`; None when it is something else"""
    from .flow import _strip_casts
    node = COND_NODES.get(text)
    if node is None:
        return None

    def ev(e, depth=0):
        e = _strip_casts(e)
        while e is not None and e.k == 'ParenExpr':
            e = _strip_casts(e.c[0])
        if e is None or depth > 8:
            return None
        if e.k == 'UnaryOperator' and e.op == '!':
            v = ev(e.child('sub'), depth + 1)
            return None if v is None else (not v)
        if e.k == 'BinaryOperator' and e.op in ('&&', '||'):
            a, b = ev(e.child('lhs'), depth + 1), ev(e.child('rhs'), depth + 1)
            if a is None or b is None:
                return None
            return (a and b) if e.op == '&&' else (a or b)
        if e.k == 'BinaryOperator' and e.op in ('==', '!='):
            l, r = _strip_casts(e.child('lhs')), _strip_casts(e.child('rhs'))
            if r is not None and r.k == 'DeclRefExpr' and r.n == 'record':
                l, r = r, l
            if l is not None and l.k == 'DeclRefExpr' and l.n == 'record' and r is not None and r.k == 'DeclRefExpr' and r.dk == 'enum' and 'OasisRecord::' in (r.qn or ''):
                same = r.qn.split('::')[-1] == rec
                return same == (e.op == '==')
            return None
        if e.k == 'DeclRefExpr' and e.dk == 'local' and (e.t or '').replace('const ', '').strip() == 'bool':
            d = next((v for v in e.fn.body.walk() if v.k == 'VarDecl' and v.d == e.d and v.child('init') is not None and (v.t or '').startswith('const ')), None)
            return ev(d.child('init'), depth + 1) if d is not None else None
        return None
    return ev(node)


def _tree(s, var):
    if s.k == 'CompoundStmt':
        out = []
        for c in s.c:
            if c is not None:
                out.extend(_tree(c, var))
        return out
    if s.k == 'IfStmt':
        m = info_mask(s.child('cond'), var)
        th = _tree(s.child('then'), var)
        el = _tree(s.child('else'), var) if s.child('else') is not None else []
        if m is not None:
            return [('mask', m, th, el)] if (th or el) else []
        pre = _reads(s.child('cond'))
        if not th and not el:
            return pre
        COND_NODES[norm(s.child('cond').text())] = s.child('cond')
        return pre + [('cond', norm(s.child('cond').text()), th, el)]
    if s.k in ('ForStmt', 'WhileStmt', 'DoStmt'):
        pre = []
        if s.k == 'ForStmt' and s.child('init') is not None:
            pre += _reads(s.child('init'))
        if s.child('cond') is not None:
            pre += _reads(s.child('cond'))
        b = _tree(s.child('body'), var)
        return pre + ([('loop', b)] if b else [])
    if s.k == 'SwitchStmt':
        arms = {}
        for labels, stmts, top in tables.switch_arms(s):
            b = []
            for x in stmts:
                b.extend(_tree(x, var))
            arms[tuple(labels)] = b
        if not any(arms.values()):
            return _reads(s.child('cond'))
        m = info_mask(s.child('cond'), var)
        return _reads(s.child('cond')) + [('switch', ('0x%02X' % m) if m is not None else norm(s.child('cond').text()), m, arms)]
    return _reads(s)


def simulate(tree, info, choose):
    """codec sequence for one info byte; choose(kind, text) decides non-mask conditions / switches."""
    out = []
    for n in tree:
        if n[0] == 'read':
            out.append(n[1])
        elif n[0] == 'mask':
            out.extend(simulate(n[2] if (info & n[1]) else n[3], info, choose))
        elif n[0] == 'cond':
            out.extend(simulate(n[2] if choose('cond', n[1]) else n[3], info, choose))
        elif n[0] == 'loop':
            out.append('{' + ' '.join(simulate(n[1], info, choose)) + '}*')
        elif n[0] == 'switch':
            if n[2] is not None:
                v = info & n[2]
                arm = next((b for labs, b in n[3].items() if v in labs), None)
                if arm is None:
                    arm = next((b for labs, b in n[3].items() if 'default' in labs), [])
                out.extend(simulate(arm, info, choose))
            else:
                out.append('switch[%s]' % n[1])
    return out


def show_tree(tree):
    parts = []
    for n in tree:
        if n[0] == 'read':
            parts.append(n[1])
        elif n[0] == 'mask':
            parts.append('0x%02X?(%s)%s' % (n[1], show_tree(n[2]), (':(%s)' % show_tree(n[3])) if n[3] else ''))
        elif n[0] == 'cond':
            parts.append('[%s]?(%s)%s' % (n[1][:40], show_tree(n[2]), (':(%s)' % show_tree(n[3])) if n[3] else ''))
        elif n[0] == 'loop':
            parts.append('{%s}*' % show_tree(n[1]))
        elif n[0] == 'switch':
            parts.append('switch(%s)[%s]' % (n[1][:30], ' '.join('%s:(%s)' % ('|'.join(map(str, k)), show_tree(v)) for k, v in n[3].items() if v)))
    return ' '.join(parts)


# SEMI P39 record rows as structure trees (same node format). Geometry bits: X 0x10, Y 0x08, R 0x04, D 0x02, L 0x01.
def R(c):
    return ('read', c)


def M(m, th, el=()):
    return ('mask', m, list(th), list(el))


GEOM_TAIL = [M(0x10, [R('sint')]), M(0x08, [R('sint')]), M(0x04, [R('rep')])]
LD = [M(0x01, [R('uint')]), M(0x02, [R('uint')])]
SPEC = {
    'PLACEMENT': [R('byte'), M(0x80, [M(0x40, [R('uint')], [R('string')])]), M(0x20, [R('sint')]), M(0x10, [R('sint')]), M(0x08, [R('rep')])],
    'PLACEMENT_TRANSFORM': [R('byte'), M(0x80, [M(0x40, [R('uint')], [R('string')])]), M(0x04, [R('real')]), M(0x02, [R('real')]), M(0x20, [R('sint')]), M(0x10, [R('sint')]), M(0x08, [R('rep')])],
    'TEXT': [R('byte'), M(0x40, [M(0x20, [R('uint')], [R('string')])])] + LD + GEOM_TAIL,
    'RECTANGLE': [R('byte')] + LD + [M(0x40, [R('uint')]), M(0x20, [R('uint')])] + GEOM_TAIL,
    'POLYGON': [R('byte')] + LD + [M(0x20, [R('plist')])] + GEOM_TAIL,
    'PATH': [R('byte')] + LD + [M(0x40, [R('uint')]), M(0x80, [R('byte'), ('ext', )]), M(0x20, [R('plist')])] + GEOM_TAIL,
    'TRAPEZOID_AB': [R('byte')] + LD + [M(0x40, [R('uint')]), M(0x20, [R('uint')]), R('1delta'), R('1delta')] + GEOM_TAIL,
    'TRAPEZOID_A': [R('byte')] + LD + [M(0x40, [R('uint')]), M(0x20, [R('uint')]), R('1delta')] + GEOM_TAIL,
    'TRAPEZOID_B': [R('byte')] + LD + [M(0x40, [R('uint')]), M(0x20, [R('uint')]), R('1delta')] + GEOM_TAIL,
    'CTRAPEZOID': [R('byte')] + LD + [M(0x80, [R('byte')]), M(0x40, [R('uint')]), M(0x20, [R('uint')])] + GEOM_TAIL,
    'CIRCLE': [R('byte')] + LD + [M(0x20, [R('uint')])] + GEOM_TAIL,
    'XGEOMETRY': [R('byte'), R('uint')] + LD + [R('string')] + GEOM_TAIL,
}
NAME_RECORDS = {'CELLNAME_IMPLICIT': 'string', 'CELLNAME': 'string uint', 'TEXTSTRING_IMPLICIT': 'string', 'TEXTSTRING': 'string uint', 'PROPNAME_IMPLICIT': 'string',
                'PROPNAME': 'string uint', 'PROPSTRING_IMPLICIT': 'string', 'PROPSTRING': 'string uint', 'XNAME_IMPLICIT': 'uint string', 'XNAME': 'uint string uint', 'XELEMENT': 'uint string'}
RECORD_NUMBERS = {'PAD': 0, 'START': 1, 'END': 2, 'CELLNAME_IMPLICIT': 3, 'CELLNAME': 4, 'TEXTSTRING_IMPLICIT': 5, 'TEXTSTRING': 6, 'PROPNAME_IMPLICIT': 7, 'PROPNAME': 8,
                  'PROPSTRING_IMPLICIT': 9, 'PROPSTRING': 10, 'LAYERNAME_DATA': 11, 'LAYERNAME_TEXT': 12, 'CELL_REF_NUM': 13, 'CELL': 14, 'XYABSOLUTE': 15, 'XYRELATIVE': 16,
                  'PLACEMENT': 17, 'PLACEMENT_TRANSFORM': 18, 'TEXT': 19, 'RECTANGLE': 20, 'POLYGON': 21, 'PATH': 22, 'TRAPEZOID_AB': 23, 'TRAPEZOID_A': 24, 'TRAPEZOID_B': 25,
                  'CTRAPEZOID': 26, 'CIRCLE': 27, 'PROPERTY': 28, 'LAST_PROPERTY': 29, 'XNAME_IMPLICIT': 30, 'XNAME': 31, 'XELEMENT': 32, 'XGEOMETRY': 33, 'CBLOCK': 34}


def spec_sequence(record, info):
    """expected codec sequence for a record and info byte; PATH extension scheme left symbolic as 'ext'"""
    out = []

    def go(tree):
        for n in tree:
            if n[0] == 'read':
                out.append(n[1])
            elif n[0] == 'mask':
                go(n[2] if (info & n[1]) else n[3])
            elif n[0] == 'ext':
                out.append('ext')
    go(SPEC[record])
    return out


def field_roles(record, info):
    """expected (codec, role) list: role names the semantic field behind a bit (layer, datatype, x, y, w, h) or None"""
    if record.startswith('PLACEMENT'):
        names = {0x20: 'x', 0x10: 'y'}
    else:
        names = {0x01: 'layer', 0x02: 'datatype', 0x10: 'x', 0x08: 'y'}
        if record in ('RECTANGLE', 'TRAPEZOID_AB', 'TRAPEZOID_A', 'TRAPEZOID_B', 'CTRAPEZOID'):
            names.update({0x40: 'w', 0x20: 'h'})
    out = []

    def go(tree, role):
        for n in tree:
            if n[0] == 'read':
                out.append((n[1], role))
            elif n[0] == 'mask':
                go(n[2] if (info & n[1]) else n[3], names.get(n[1]) if len(n[2]) == 1 and n[2][0][0] == 'read' else None)
            elif n[0] == 'ext':
                out.append(('ext', None))
    go(SPEC[record], None)
    return out


# ------------------------------------------------------------------------------------------------
# writer side: abstract interpretation of a statement region into primitive-write sequences

class NeedAtom(Exception):
    def __init__(self, key):
        self.key = key


def cond_key(c):
    c = _strip_casts(c)
    if c.k == 'BinaryOperator' and c.op in ('&&', '||'):
        return '(%s %s %s)' % (cond_key(c.child('lhs')), c.op, cond_key(c.child('rhs')))
    if c.k == 'UnaryOperator' and c.op == '!':
        return '!' + cond_key(c.child('sub'))
    return tables.atom_text(c)


def helper_constants(db, callee):
    """sorted constants a small repo function may return, when every return value is a constant or a conditional
    expression over constants; None otherwise"""
    g = [x for x in (db.fn(callee, required=False, all=True) or []) if x.body is not None]
    if len(g) != 1:
        return None
    out = set()

    def leaves(v):
        v = _strip_casts(v)
        if v is None:
            return False
        if v.k == 'ConditionalOperator':
            return leaves(v.child('then')) and leaves(v.child('else'))
        if v.cv is not None and v.k != 'DeclRefExpr' or (v.k == 'DeclRefExpr' and v.dk == 'enum'):
            out.add(v.cv)
            return True
        return False
    rets = [r for r in g[0].walk() if r.k == 'ReturnStmt']
    if not rets or not all(r.child('value') is not None and leaves(r.child('value')) for r in rets):
        return None
    return sorted(out)


class WInterp:
    def __init__(self, fn, env, record_enum, conc=None):
        self.fn = fn
        self.db = getattr(fn, 'db', None)
        self.conc = conc or {}      # variable name -> concrete integer (enumerated by the caller)
        self.env = env
        self.rec = record_enum      # value -> name
        self.scal = {}              # key -> (known value, unknown-bit mask) or None
        self.zero = {}              # integer local -> 'Z' | 'NZ' (refined by `v == 0` tests and `v = 0`)
        self.ops = []

    def relevant(self, s):
        for x in s.walk():
            if x.k == 'ReturnStmt':
                return True
            if x.k == 'CallExpr' and x.callee in WRITE_CODEC:
                return True
            if is_assign(x):
                l = _strip_casts(x.child('lhs'))
                if l.k == 'DeclRefExpr' and (l.ct or l.t or '').replace('const ', '').strip() in ('uint8_t', 'unsigned char'):
                    return True
        return False

    def bits(self, e):
        """(value, unknown mask) of a small unsigned expression"""
        e = _strip_casts(e)
        if e is None:
            return (0, 0xFF)
        if e.cv is not None and e.k != 'DeclRefExpr':
            return (e.cv & 0xFFFFFFFF, 0)
        if e.k == 'DeclRefExpr':
            if e.dk == 'enum':
                return (e.cv, 0)
            if e.n in self.conc:
                return (self.conc[e.n], 0)
            v = self.scal.get(lvalue_key(e))
            return v if v is not None else (0, 0xFF)
        if e.k == 'BinaryOperator':
            a, b = self.bits(e.child('lhs')), self.bits(e.child('rhs'))
            if e.op == '&':
                unk = (a[1] & (b[0] | b[1])) | (b[1] & (a[0] | a[1]))
                return ((a[0] & b[0]) & ~unk, unk)
            if e.op == '|':
                unk = a[1] | b[1]
                return ((a[0] | b[0]) & ~unk, unk)
            if e.op == '<<' and b[1] == 0:
                return ((a[0] << b[0]) & 0xFF, (a[1] << b[0]) & 0xFF)
            return (0, 0xFF)
        if e.k == 'ConditionalOperator':
            a, b = self.bits(e.child('then')), self.bits(e.child('else'))
            if a == b:
                return a
            return a if self.atom_value(e.child('cond')) else b
        if e.k == 'CallExpr' and e.callee and self.db is not None:
            # a helper that classifies its argument into one of a few constant codes: fork over the codes
            consts = helper_constants(self.db, e.callee)
            if consts:
                key = 'call:%s@%s' % (e.callee, e.loc())
                if key not in self.env:
                    raise NeedAtom((key, len(consts)))
                return (consts[self.env[key]], 0)
        return (0, 0xFF)

    def boolval(self, c):
        c = _strip_casts(c)
        if c.k == 'DeclRefExpr' and c.dk == 'local':
            v = self.scal.get(lvalue_key(c))
            return v if isinstance(v, bool) else None
        if c.k == 'UnaryOperator' and c.op == '!':
            v = self.boolval(c.child('sub'))
            return None if v is None else (not v)
        return None

    def zero_test(self, c):
        """`v == 0` / `v != 0` on a local -> (key, True if the test is '== 0')"""
        if c.k == 'BinaryOperator' and c.op in ('==', '!='):
            l, r = _strip_casts(c.child('lhs')), _strip_casts(c.child('rhs'))
            if l.k == 'DeclRefExpr' and l.dk == 'local' and r.cv == 0 and r.k != 'DeclRefExpr':
                return lvalue_key(l), c.op == '=='
        return None

    def atom_value(self, c):
        c = _strip_casts(c)
        if c.k == 'UnaryOperator' and c.op == '!':
            return not self.atom_value(c.child('sub'))
        zt = self.zero_test(c)
        if zt is not None:
            key, eq = zt
            z = self.zero.get(key)
            if z is not None:
                return (z == 'Z') == eq
            k2 = cond_key(c)
            if k2 not in self.env:
                raise NeedAtom(k2)
            bv = self.env[k2]
            self.zero[key] = 'Z' if (bv == eq) else 'NZ'
            return bv
        bv = self.boolval(c)
        if bv is None and c.k == 'BinaryOperator' and c.op in ('<', '>', '<=', '>=', '==', '!=') and self.conc:
            a, b = self.bits(c.child('lhs')), self.bits(c.child('rhs'))
            if a[1] == 0 and b[1] == 0:
                import operator as op_
                bv = {'<': op_.lt, '>': op_.gt, '<=': op_.le, '>=': op_.ge, '==': op_.eq, '!=': op_.ne}[c.op](a[0], b[0])
        if bv is None:
            key = cond_key(c)
            if key not in self.env:
                raise NeedAtom(key)
            bv = self.env[key]
        return bv

    def run_list(self, stmts):
        for s in stmts:
            if s is None:
                continue
            if not self.run(s):
                return False
        return True

    def run(self, s):
        k = s.k
        if k == 'CompoundStmt':
            return self.run_list(s.c)
        if k == 'DeclStmt':
            for v in s.c:
                if v is not None and v.k == 'VarDecl':
                    self.calls(v.child('init'))
                    key = 'v%d:%s' % (v.d, v.n)
                    t = (v.ct or v.t or '').replace('const ', '').strip()
                    i = _strip_casts(v.child('init')) if v.child('init') is not None else None
                    if i is not None and i.k == 'CXXBoolLiteralExpr':
                        self.scal[key] = bool(i.v)
                    elif t in ('uint8_t', 'unsigned char') and i is not None:
                        self.scal[key] = self.bits(i)
                    else:
                        self.scal[key] = None
                        if i is not None and i.cv is not None and i.k != 'DeclRefExpr':
                            self.zero[key] = 'Z' if i.cv == 0 else 'NZ'
            return True
        if k == 'IfStmt':
            if not self.relevant(s):
                self.skip(s)
                return True
            bv = self.atom_value(s.child('cond'))
            self.ops.append(('guard', cond_key(s.child('cond')), bv))
            br = s.child('then') if bv else s.child('else')
            return True if br is None else self.run(br)
        if k in ('ForStmt', 'WhileStmt', 'DoStmt'):
            if not self.relevant(s):
                self.skip(s)
                return True
            self.ops.append(('loop-begin',))
            self.run(s.child('body'))
            self.ops.append(('loop-end',))
            return True
        if k == 'SwitchStmt':
            if not self.relevant(s):
                self.skip(s)
                return True
            key = 'switch:' + cond_key(s.child('cond'))
            arms = tables.switch_arms(s)
            if key not in self.env:
                raise NeedAtom((key, len(arms)))
            labels, stmts, top = arms[self.env[key]]
            self.ops.append(('guard', key, '|'.join(str(l) for l in labels)))
            return self.run_list(stmts)
        if k == 'ReturnStmt':
            self.calls(s.child('value'))
            return False
        if k in ('BreakStmt', 'ContinueStmt'):
            return False
        if is_assign(s):
            self.calls(s.child('rhs'))
            l = _strip_casts(s.child('lhs'))
            if l.k == 'DeclRefExpr':
                key = lvalue_key(l)
                t = (l.ct or l.t or '').replace('const ', '').strip()
                if t in ('uint8_t', 'unsigned char'):
                    cur = self.scal.get(key) or (0, 0xFF)
                    b = self.bits(s.child('rhs'))
                    if s.op == '=':
                        self.scal[key] = b
                    elif s.op == '|=':
                        unk = cur[1] | b[1]
                        self.scal[key] = ((cur[0] | b[0]) & ~unk, unk)
                    else:
                        self.scal[key] = (0, 0xFF)
                else:
                    r = _strip_casts(s.child('rhs'))
                    self.scal[key] = bool(r.v) if (s.op == '=' and r is not None and r.k == 'CXXBoolLiteralExpr') else None
                    self.zero.pop(key, None)
                    if s.op == '=' and r is not None and r.cv is not None and r.k not in ('DeclRefExpr', 'CXXBoolLiteralExpr'):
                        self.zero[key] = 'Z' if r.cv == 0 else 'NZ'
            return True
        self.calls(s)
        return True

    def skip(self, s):
        for x in s.walk():
            tgt = None
            if is_assign(x):
                tgt = _strip_casts(x.child('lhs'))
            elif x.k == 'UnaryOperator' and x.op in ('++', '--', 'post++', 'post--'):
                tgt = _strip_casts(x.child('sub'))
            if tgt is not None and tgt.k == 'DeclRefExpr':
                self.scal[lvalue_key(tgt)] = None
                self.zero.pop(lvalue_key(tgt), None)

    def calls(self, e):
        if e is None:
            return
        for c in e.walk():
            if c.k == 'CallExpr' and c.callee in WRITE_CODEC:
                kind = WRITE_CODEC[c.callee]
                if kind == 'byte':
                    a0 = _strip_casts(c.args[0])
                    t = norm(c.args[0].text())
                    m = re.search(r'OasisRecord::(\w+)', t)
                    if m:
                        self.ops.append(('rec', m.group(1), c))
                    else:
                        self.ops.append(('byte', self.bits(c.args[0]), c, norm(a0.text())))
                elif kind in ('uint', 'sint', 'real', '1delta'):
                    self.ops.append((kind, norm(c.args[1].text()), c))
                elif kind == 'bytes':
                    self.ops.append(('bytes', norm(c.args[0].text()), c))
                elif kind == 'plist':
                    self.ops.append(('plist', norm(c.args[1].text()), c, norm(c.args[-1].text())))
                else:
                    self.ops.append((kind, '', c))


def interpret_writer(fn, region, record_enum, max_atoms=14, conc=None):
    atoms = []
    results = []
    envs = [{}]
    done = set()
    while envs:
        env = envs.pop()
        key = tuple(sorted((str(k), v) for k, v in env.items()))
        if key in done:
            continue
        done.add(key)
        it = WInterp(fn, env, record_enum, conc)
        try:
            it.run(region)
            results.append((dict(env), it.ops))
        except NeedAtom as na:
            k = na.key
            choices = (False, True)
            if isinstance(k, tuple):
                k, n = k
                choices = tuple(range(n))
            if k not in atoms:
                atoms.append(k)
                if len(atoms) > max_atoms:
                    raise AnalysisBroken('%s: more than %d write-relevant branch conditions: %s' % (fn.qn, max_atoms, atoms))
            for v in choices:
                e2 = dict(env)
                e2[k] = v
                envs.append(e2)
    return atoms, results


def fork(env, key):
    """environments that resolve a NeedAtom key: both truth values, or every arm / helper result index"""
    choices = (False, True)
    if isinstance(key, tuple):
        key, n = key
        choices = tuple(range(n))
    out = []
    for v in choices:
        e2 = dict(env)
        e2[key] = v
        out.append(e2)
    return out


def record_instances(ops):
    """split an op list into record instances: (record, info (value, unk), field codec list, ops)"""
    out = []
    cur = None
    for o in ops:
        if o[0] == 'rec':
            if cur:
                out.append(cur)
            cur = {'record': o[1], 'info': None, 'fields': [], 'ops': [], 'at': o[2]}
            continue
        if cur is None:
            continue
        if o[0] in ('guard', 'loop-begin', 'loop-end'):
            cur['ops'].append(o)
            continue
        if o[0] == 'props':
            out.append(cur)
            cur = None
            continue
        if o[0] == 'byte' and cur['info'] is None and cur['record'] in SPEC or (o[0] == 'byte' and cur['info'] is None and cur['record'] in ('PROPERTY',)):
            cur['info'] = o[1]
            cur['fields'].append('byte')
            cur['ops'].append(o)
            continue
        cur['fields'].append(o[0])
        cur['ops'].append(o)
    if cur:
        out.append(cur)
    return out


def normalise_fields(fields, expected):
    """collapse writer idioms to spec codecs: uint+bytes -> string; byte [sint] [sint] after the
    PATH scheme byte -> byte ext"""
    out = []
    i = 0
    j = 0
    while i < len(fields):
        f = fields[i]
        want = expected[j] if j < len(expected) else None
        if want == 'string' and f == 'uint' and i + 1 < len(fields) and fields[i + 1] == 'bytes':
            out.append('string')
            i += 2
            j += 1
            continue
        if want == 'ext':
            while i < len(fields) and fields[i] == 'sint' and (j + 1 >= len(expected) or expected[j + 1] != 'sint' or True) and len([x for x in out if x == 'ext-sint']) < 2 and _is_ext_position(fields, i, expected, j):
                out.append('ext-sint')
                i += 1
            out = [x for x in out if x != 'ext-sint'] + ['ext']
            j += 1
            continue
        out.append(f)
        i += 1
        j += 1
    if j < len(expected) and expected[j] == 'ext':
        out.append('ext')
    return out


def _is_ext_position(fields, i, expected, j):
    # remaining expected after 'ext' must still be matchable by the remaining fields
    rest_exp = [e for e in expected[j + 1:]]
    rest_fld = fields[i + 1:]
    # crude: an extension sint is followed (eventually) by the point list
    return 'plist' in rest_fld
