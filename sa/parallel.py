"""R-PARALLEL — look-ahead iterators advance with their loop: a pointer local initialised as
`<pointer> + 1` (or `.items + k`) that is dereferenced in a for-loop and is never written in the
loop (body or increment) while the loop's increment advances at least one sibling iterator."""
from .flow import lvalue_key, is_assign, _strip_casts, pretty_key


def _written(loop, key):
    for x in loop.walk():
        if is_assign(x) and lvalue_key(x.child('lhs')) == key:
            return True
        if x.k == 'UnaryOperator' and x.op in ('++', '--', 'post++', 'post--') and lvalue_key(x.child('sub')) == key:
            return True
    return False


def check_function(ctx, fn, rule='R-PARALLEL'):
    n = 0
    look = {}
    for v in fn.walk():
        if v.k == 'VarDecl' and '*' in (v.t or '') and v.child('init') is not None:
            i = _strip_casts(v.child('init'))
            if i.k == 'BinaryOperator' and i.op == '+' and i.child('rhs').cv is not None and i.child('rhs').cv >= 1 and '*' in (i.child('lhs').t or ''):
                look['v%d:%s' % (v.d, v.n)] = v
    if not look:
        return 0
    for L in fn.walk():
        if L.k != 'ForStmt' or L.child('inc') is None:
            continue
        adv = set()
        for x in L.child('inc').walk():
            if x.k == 'UnaryOperator' and x.op in ('++', 'post++') and '*' in (x.child('sub').t or ''):
                adv.add(lvalue_key(x.child('sub')))
        if not adv:
            continue
        body = L.child('body')
        for key, v in look.items():
            if v.pos > L.pos:
                continue
            used = any(x.k == 'UnaryOperator' and x.op == '*' and lvalue_key(x.child('sub')) == key for x in body.walk()) or \
                any(x.k == 'MemberExpr' and x.arrow and lvalue_key(x.child('base')) == key for x in body.walk())
            if not used:
                continue
            # only loops directly following the declaration scope (same compound) are instances
            n += 1
            ok = _written(L, key)
            ctx.check(ok, rule, '%s/%s@loop%d' % (fn.qn.replace('gdstk::', ''), pretty_key(key), L.id), L.loc(),
                      'look-ahead iterator `%s` is advanced/reassigned inside the loop that dereferences it' % pretty_key(key),
                      'look-ahead iterator `%s` (initialised one past its sibling) is dereferenced in this loop but never advanced, while %s advance: it stays on the second element for every later iteration' % (
                          pretty_key(key), sorted(pretty_key(a) for a in adv)))
    return n


def check_steps(ctx, fn, rule='R-PARALLEL'):
    """Trailing cursors of parallel arrays move together: in a block where one trailing cursor jumps to
    its look-ahead partner (`sub0 = sub1`), every trailing cursor declared in the same scope jumps to its
    own partner (`offset0 = offset1`), not by a fixed step."""
    n = 0
    pairs = {}   # scope id -> list of (trail VarDecl, lead VarDecl)
    for v in fn.walk():
        if v.k == 'VarDecl' and '*' in (v.t or '') and v.child('init') is not None:
            i = _strip_casts(v.child('init'))
            if i.k == 'BinaryOperator' and i.op == '+' and i.child('rhs').cv == 1:
                l = _strip_casts(i.child('lhs'))
                if l.k == 'DeclRefExpr' and l.dk == 'local':
                    scope = v.parent.parent if v.parent is not None else None
                    tv = next((t for t in fn.walk() if t.k == 'VarDecl' and 'v%d:%s' % (t.d, t.n) == lvalue_key(l)), None)
                    if scope is not None and tv is not None:
                        pairs.setdefault(id(scope), []).append((tv, v))
    for ps in pairs.values():
        if len(ps) < 2:
            continue
        keys = {lvalue_key_of(t): lvalue_key_of(l) for t, l in ps}
        for blk in fn.walk():
            if blk.k != 'CompoundStmt':
                continue
            jumps = {}
            steps = {}
            for s in blk.c:
                if s is None:
                    continue
                if is_assign(s) and s.op == '=':
                    lk, rk = lvalue_key(s.child('lhs')), lvalue_key(_strip_casts(s.child('rhs')))
                    if lk in keys:
                        jumps[lk] = rk
                if s.k == 'UnaryOperator' and s.op in ('++', 'post++') and lvalue_key(s.child('sub')) in keys:
                    steps[lvalue_key(s.child('sub'))] = s
            if not any(jumps.get(k) == v for k, v in keys.items()):
                continue
            n += 1
            bad = []
            for k, v in keys.items():
                if jumps.get(k) != v:
                    bad.append('`%s` %s' % (pretty_key(k), 'is stepped by one' if k in steps else ('is assigned from `%s`' % pretty_key(jumps[k]) if k in jumps else 'is left behind')))
            ctx.check(not bad, rule, '%s/cursors-jump-together@%s' % (fn.qn.replace('gdstk::', ''), blk.loc()), blk.loc(), 'all %d trailing cursors jump to their look-ahead partners in the same block' % len(keys),
                      'in the block where a trailing cursor jumps to its look-ahead partner, %s: after a section is skipped the cursors no longer address the same section' % ', '.join(bad))
    return n


def lvalue_key_of(v):
    return 'v%d:%s' % (v.d, v.n)


def check_cursors(ctx, fn, rule='R-PARALLEL'):
    """An element cursor (pointer local initialised from an array start: `.items`, `->elements`, optionally + k)
    that is dereferenced inside a counting loop must move in that loop (be advanced/reassigned) or be indexed;
    otherwise every iteration works on the same element."""
    n = 0
    curs = {}
    for v in fn.walk():
        if v.k == 'VarDecl' and '*' in (v.t or '') and v.child('init') is not None:
            i = _strip_casts(v.child('init'))
            if i.k == 'BinaryOperator' and i.op == '+' and i.child('rhs').cv is not None:
                i = _strip_casts(i.child('lhs'))
            if i.k == 'MemberExpr' and i.n in ('items', 'elements'):
                curs['v%d:%s' % (v.d, v.n)] = v
    for key, v in curs.items():
        scope = v.parent.parent if v.parent is not None else None
        if scope is None:
            continue
        ders = [x for x in scope.walk() if x.pos > v.pos and ((x.k == 'UnaryOperator' and x.op == '*' and lvalue_key(x.child('sub')) == key) or (x.k == 'MemberExpr' and x.arrow and lvalue_key(x.child('base')) == key))]
        tops = []
        for x in ders:
            loops = [a for a in x.ancestors() if a.k in ('ForStmt', 'WhileStmt', 'DoStmt') and any(y is a for y in scope.walk()) and a is not scope]
            if loops:
                top = loops[-1]   # outermost loop inside the declaration's scope
                if not any(t is top for t in tops):
                    tops.append(top)
        for L in tops:
            n += 1
            idx = any(x.k == 'ArraySubscriptExpr' and lvalue_key(_strip_casts(x.child('base') or x.c[0])) == key for x in L.walk())
            ok = _written(L, key) or idx
            ctx.check(ok, rule, '%s/cursor-moves:%s@loop%d' % (fn.qn.replace('gdstk::', ''), pretty_key(key), L.id), L.loc(), 'element cursor `%s` moves in the loop that dereferences it' % pretty_key(key),
                      'element cursor `%s` (set to the start of an array) is dereferenced in this loop but never advanced: every iteration works on the first element' % pretty_key(key))
    return n
