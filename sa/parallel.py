"""R-PARALLEL — look-ahead iterators advance with their loop: a pointer local initialised as
`<pointer> + 1` (or `.items + k`) that is dereferenced in a for-loop and is never written in the
loop (body or increment) while the loop's increment advances at least one sibling iterator."""
from .flow import lvalue_key, is_assign, _strip_casts, pretty_key


def _written(loop, key):
    for x in loop.walk():
        if is_assign(x) and lvalue_key(x.child('lhs')) == key:
            return True
        if x.k == 'UnaryOperator' and x.op in ('++', '--', 'post++', 'post--') and lvalue_key(x.child('sub')) == key:
            return True
    return False


def check_function(ctx, fn, rule='R-PARALLEL'):
    n = 0
    look = {}
    for v in fn.walk():
        if v.k == 'VarDecl' and '*' in (v.t or '') and v.child('init') is not None:
            i = _strip_casts(v.child('init'))
            if i.k == 'BinaryOperator' and i.op == '+' and i.child('rhs').cv is not None and i.child('rhs').cv >= 1 and '*' in (i.child('lhs').t or ''):
                look['v%d:%s' % (v.d, v.n)] = v
    if not look:
        return 0
    for L in fn.walk():
        if L.k != 'ForStmt' or L.child('inc') is None:
            continue
        adv = set()
        for x in L.child('inc').walk():
            if x.k == 'UnaryOperator' and x.op in ('++', 'post++') and '*' in (x.child('sub').t or ''):
                adv.add(lvalue_key(x.child('sub')))
        if not adv:
            continue
        body = L.child('body')
        for key, v in look.items():
            if v.id > L.id:
                continue
            used = any(x.k == 'UnaryOperator' and x.op == '*' and lvalue_key(x.child('sub')) == key for x in body.walk()) or \
                any(x.k == 'MemberExpr' and x.arrow and lvalue_key(x.child('base')) == key for x in body.walk())
            if not used:
                continue
            # only loops directly following the declaration scope (same compound) are instances
            n += 1
            ok = _written(L, key)
            ctx.check(ok, rule, '%s/%s@loop%d' % (fn.qn.replace('gdstk::', ''), pretty_key(key), L.id), L.loc(),
                      'look-ahead iterator `%s` is advanced/reassigned inside the loop that dereferences it' % pretty_key(key),
                      'look-ahead iterator `%s` (initialised one past its sibling) is dereferenced in this loop but never advanced, while %s advance: it stays on the second element for every later iteration' % (
                          pretty_key(key), sorted(pretty_key(a) for a in adv)))
    return n
