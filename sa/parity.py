"""Parity (even/odd) of integer locals, by structured abstract interpretation of the canonical AST (works on code that N-INLINE put
back from a helper, which has no CFG of its own). Domain per variable: 'E' | 'O' | absent (unknown). Branch conditions that test
the parity refine the state; joins keep what both sides agree on; a loop forgets what its body writes.

    snap = Parity(fn).run()      # statement id -> state before the statement
"""
from .flow import lvalue_key, is_assign, _strip_casts
from . import tables

FLIP = {'E': 'O', 'O': 'E'}


def _leaves(s):
    return tables._always_leaves(s)


class Parity:
    def __init__(self, fn):
        self.fn = fn
        self.snap = {}

    # ---- expressions
    @staticmethod
    def key_of(e):
        """what a parity fact is recorded for: a variable, or a call of a pure length function on variables (`strlen(name)`)"""
        e = _strip_casts(e)
        while e is not None and e.k == 'ParenExpr':
            e = _strip_casts(e.c[0])
        if e is None:
            return None
        k = lvalue_key(e)
        if k:
            return k
        if e.k == 'CallExpr' and e.callee in ('strlen',) and all(lvalue_key(_strip_casts(a)) for a in e.args):
            return 'expr:' + ' '.join(e.text().split())
        return None

    def par(self, e, st):
        e = _strip_casts(e)
        if e is None:
            return None
        if e.k == 'ParenExpr':
            return self.par(e.c[0], st)
        if e.k == 'CallExpr' and self.key_of(e) in st:
            return st[self.key_of(e)]
        if e.cv is not None and e.k != 'DeclRefExpr':
            return 'E' if e.cv % 2 == 0 else 'O'
        if e.k == 'DeclRefExpr':
            return st.get(lvalue_key(e))
        if e.k == 'BinaryOperator':
            a, b = self.par(e.child('lhs'), st), self.par(e.child('rhs'), st)
            if e.op in ('+', '-'):
                if a and b:
                    return 'E' if a == b else 'O'
                # x + x % 2, x + (x & 1)
                l, r = _strip_casts(e.child('lhs')), _strip_casts(e.child('rhs'))
                if e.op == '+' and self._odd_test_of(r) is not None and self.key_of(l) == self._odd_test_of(r):
                    return 'E'
                return None
            if e.op == '*':
                if a == 'E' or b == 'E':
                    return 'E'
                if a == 'O' and b == 'O':
                    return 'O'
                return None
            if e.op == '&':
                m = _strip_casts(e.child('rhs')).cv
                if m is not None and m % 2 == 0:
                    return 'E'          # low bit masked off
                return None
            if e.op == '<<':
                s = _strip_casts(e.child('rhs')).cv
                return 'E' if s is not None and s >= 1 else None
        if e.k == 'ConditionalOperator':
            c = e.child('cond')
            a = self.par(e.child('then'), self.refine(c, st, True))
            b = self.par(e.child('else'), self.refine(c, st, False))
            return a if a is not None and a == b else None
        if e.k == 'UnaryExprOrTypeTraitExpr' and e.cv is not None:
            return 'E' if e.cv % 2 == 0 else 'O'
        return None

    def _odd_test_of(self, c):
        """`x % 2` / `x & 1` -> key of x"""
        c = _strip_casts(c)
        while c is not None and c.k == 'ParenExpr':
            c = _strip_casts(c.c[0])
        if c is not None and c.k == 'BinaryOperator' and ((c.op == '%' and _strip_casts(c.child('rhs')).cv == 2) or (c.op == '&' and _strip_casts(c.child('rhs')).cv == 1)):
            return self.key_of(c.child('lhs'))
        return None

    def _set(self, st, key, p):
        """record the parity of key, and of everything known to be equal to it"""
        st[key] = p
        for k_, v_ in list(st.items()):
            if isinstance(k_, str) and k_.startswith('~'):
                if v_ == key and st.get(k_[1:]) != p:
                    st[k_[1:]] = p
                elif k_[1:] == key and st.get(v_) != p:
                    st[v_] = p

    def _kill(self, st, key):
        st.pop(key, None)
        st.pop('~' + key, None)
        for k_, v_ in list(st.items()):
            if isinstance(k_, str) and k_.startswith('~') and v_ == key:
                st.pop(k_, None)

    def refine(self, cond, st, truth):
        """state on the edge where cond evaluates to `truth`"""
        c = _strip_casts(cond)
        while c is not None and c.k == 'ParenExpr':
            c = _strip_casts(c.c[0])
        st = dict(st)
        if c is None:
            return st
        if c.k == 'DeclRefExpr' and c.dk == 'local' and (c.t or '').replace('const ', '').strip() == 'bool':
            # a named condition (`const bool odd = n % 2 != 0;`, never reassigned): what it was defined as holds / fails
            d = next((v for v in self.fn.body.walk() if v.k == 'VarDecl' and v.d == c.d and v.child('init') is not None), None)
            if d is not None and d.pos < c.pos and not any(((is_assign(x) or x.k == 'CompoundAssignOperator') and lvalue_key(_strip_casts(x.child('lhs'))) == lvalue_key(c)) for x in self.fn.body.walk()):
                deps = {lvalue_key(y) for y in d.child('init').walk() if y.k == 'DeclRefExpr' and y.dk in ('local', 'param') and lvalue_key(y)}
                written_between = any(((is_assign(x) or x.k == 'CompoundAssignOperator') and lvalue_key(_strip_casts(x.child('lhs'))) in deps) or
                                      (x.k == 'UnaryOperator' and x.op in ('++', '--', 'post++', 'post--') and lvalue_key(_strip_casts(x.child('sub'))) in deps)
                                      for x in self.fn.body.walk() if d.pos < x.pos < c.pos)
                if not written_between:
                    return self.refine(d.child('init'), st, truth)
            return st
        if c.k == 'UnaryOperator' and c.op == '!':
            return self.refine(c.child('sub'), st, not truth)
        if c.k == 'BinaryOperator' and c.op == '&&' and truth:
            return self.refine(c.child('rhs'), self.refine(c.child('lhs'), st, True), True)
        if c.k == 'BinaryOperator' and c.op == '||' and not truth:
            return self.refine(c.child('rhs'), self.refine(c.child('lhs'), st, False), False)
        key = self._odd_test_of(c)
        if key is not None:
            self._set(st, key, 'O' if truth else 'E')
            return st
        if c.k == 'BinaryOperator' and c.op in ('==', '!='):
            k2 = self._odd_test_of(c.child('lhs'))
            v = _strip_casts(c.child('rhs')).cv
            if k2 is not None and v in (0, 1):
                odd = (v == 1) == (c.op == '==')
                self._set(st, k2, ('O' if odd else 'E') if truth else ('E' if odd else 'O'))
        return st

    # ---- statements
    def effects(self, e, st):
        """apply the writes inside an expression / expression statement"""
        if e is None:
            return st
        for x in e.walk():
            if x.k == 'UnaryOperator' and x.op in ('++', 'post++', '--', 'post--'):
                k = lvalue_key(_strip_casts(x.child('sub')))
                p0 = st.get(k)
                self._kill(st, k)
                if p0 in FLIP:
                    st[k] = FLIP[p0]
            elif is_assign(x) or x.k == 'CompoundAssignOperator':
                l = _strip_casts(x.child('lhs'))
                k = lvalue_key(l) if l is not None and l.k == 'DeclRefExpr' else None
                if k is None:
                    continue
                op = x.op
                r = x.child('rhs')
                if op == '=':
                    p = self.par(r, st)
                elif op in ('+=', '-='):
                    p = None
                    pr = self.par(r, st)
                    if k in st and pr:
                        p = st[k] if pr == 'E' else FLIP[st[k]]
                    elif self._odd_test_of(r) == k and op == '+=':
                        p = 'E'                     # x += x % 2
                elif op == '*=':
                    pr = self.par(r, st)
                    p = 'E' if pr == 'E' or st.get(k) == 'E' else ('O' if pr == 'O' and st.get(k) == 'O' else None)
                elif op == '<<=':
                    p = 'E'
                elif op == '&=':
                    m = _strip_casts(r).cv
                    p = 'E' if m is not None and m % 2 == 0 else None
                else:
                    p = None
                self._kill(st, k)
                if p:
                    st[k] = p
                elif op == '=' and self.key_of(r) is not None and self.key_of(r) != k:
                    st['~' + k] = self.key_of(r)        # equal to another variable whose parity may be learnt later
            elif x.k in ('CallExpr', 'CXXMemberCallExpr'):
                # a local handed over by address or non-const reference may be written
                for a in x.args:
                    a0 = _strip_casts(a)
                    if a0 is not None and a0.k == 'UnaryOperator' and a0.op == '&':
                        st.pop(lvalue_key(_strip_casts(a0.child('sub'))), None)
        return st

    def written(self, s):
        out = set()
        for x in s.walk():
            t = None
            if x.k == 'UnaryOperator' and x.op in ('++', 'post++', '--', 'post--'):
                t = _strip_casts(x.child('sub'))
            elif is_assign(x) or x.k == 'CompoundAssignOperator':
                t = _strip_casts(x.child('lhs'))
            elif x.k == 'VarDecl':
                out.add('v%d:%s' % (x.d, x.n))
            if t is not None and t.k == 'DeclRefExpr':
                out.add(lvalue_key(t))
        return out

    def stmt(self, s, st):
        """state after s (None: control never falls out of s)"""
        if s is None:
            return st
        self.snap[s.id] = dict(st)
        k = s.k
        if k == 'CompoundStmt':
            for c in s.c:
                if c is None:
                    continue
                st = self.stmt(c, st)
                if st is None:
                    return None
            return st
        if k == 'DeclStmt':
            for v in s.c:
                if v is not None and v.k == 'VarDecl':
                    key = 'v%d:%s' % (v.d, v.n)
                    st = self.effects(v.child('init'), st)
                    p = self.par(v.child('init'), st) if v.child('init') is not None else None
                    self._kill(st, key)
                    if p:
                        st[key] = p
                    elif v.child('init') is not None and self.key_of(v.child('init')) is not None:
                        st['~' + key] = self.key_of(v.child('init'))
            return st
        if k == 'IfStmt':
            st = self.effects(s.child('cond'), st)
            a = self.stmt(s.child('then'), self.refine(s.child('cond'), st, True))
            b = self.stmt(s.child('else'), self.refine(s.child('cond'), st, False)) if s.child('else') is not None else self.refine(s.child('cond'), st, False)
            if a is None:
                return b
            if b is None:
                return a
            return {kk: v for kk, v in a.items() if b.get(kk) == v}
        if k in ('ForStmt', 'WhileStmt', 'DoStmt'):
            if s.child('init') is not None:
                st = self.stmt(s.child('init'), st)
            w = self.written(s)
            st = {kk: v for kk, v in st.items() if kk not in w and not (isinstance(kk, str) and kk.startswith('~') and (kk[1:] in w or v in w))}
            body_in = self.refine(s.child('cond'), st, True) if s.child('cond') is not None and k != 'DoStmt' else dict(st)
            self.stmt(s.child('body'), body_in)
            return self.refine(s.child('cond'), st, False) if s.child('cond') is not None else dict(st)
        if k == 'SwitchStmt':
            w = self.written(s)
            base = {kk: v for kk, v in st.items() if kk not in w and not (isinstance(kk, str) and kk.startswith('~') and (kk[1:] in w or v in w))}
            for c in s.walk():
                if c is not s and c.k in ('CaseStmt', 'DefaultStmt'):
                    pass
            body = s.child('body')
            if body is not None:
                for c in (body.c if body.k == 'CompoundStmt' else [body]):
                    if c is not None:
                        cur = c
                        while cur is not None and cur.k in ('CaseStmt', 'DefaultStmt'):
                            cur = cur.child('sub')
                        self.stmt(cur, dict(base))
            return base
        if k in ('ReturnStmt', 'BreakStmt', 'ContinueStmt'):
            return None
        if k in ('CaseStmt', 'DefaultStmt'):
            return self.stmt(s.child('sub'), st)
        return self.effects(s, st)

    def run(self):
        if self.fn.body is not None:
            self.stmt(self.fn.body, {})
        return self.snap


def even_at(fn, node, key):
    """is the local `key` proved even just before the statement that contains `node`?"""
    snap = getattr(fn, '_parity_snap', None)
    if snap is None:
        snap = fn._parity_snap = Parity(fn).run()
    x = node
    while x is not None and x.id not in snap:
        x = x.parent
    return x is not None and snap[x.id].get(key) == 'E'
