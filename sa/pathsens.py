"""Path-sensitive forward exploration of a function's CFG over a small finite environment.

A configuration is (flags, env): `flags` a frozenset of strings, `env` a sorted tuple of (variable key, abstract value).
Abstract values are drawn from a small finite set chosen by the client (e.g. 'ok' / 'err' / 'any' for error codes,
True / False / 'any' for flags), so the set of configurations per block is finite and the exploration terminates.
Unlike the joins of cfg.forward, configurations are never merged: the correlation between e.g. "the read failed on this
path" and "the returned variable holds the failing code" survives a single exit, a result variable or a flag-controlled
loop, which are exactly the rewrites that move those facts from the statement structure into data.

    confs = explore(fn, init, transfer, branch)      # block id -> set of configurations at block entry

transfer(node, conf) -> conf                         # per CFG element, in evaluation order
branch(blk, cond, conf) -> {0: conf|None, 1: conf|None} or None   # two-way blocks; None: both edges, unchanged
enter(blk, conf) -> conf                             # optional, on entering a block (labels)
"""
from .facts import AnalysisBroken

LIMIT = 20000


def env_get(conf, key, default=None):
    for k, v in conf[1]:
        if k == key:
            return v
    return default


def env_set(conf, key, val):
    env = tuple(sorted([(k, v) for k, v in conf[1] if k != key] + [(key, val)], key=lambda kv: kv[0]))
    return (conf[0], env)


def flag(conf, *names):
    return (conf[0] | frozenset(names), conf[1])


def explore(fn, init, transfer, branch=None, enter=None):
    g = fn.cfg
    at = {g.entry: {init}}
    work = [(g.entry, init)]
    total = 0
    while work:
        b, conf = work.pop()
        total += 1
        if total > LIMIT:
            raise AnalysisBroken('path-sensitive exploration of %s exceeds %d configurations' % (fn.qn, LIMIT))
        blk = g.blocks[b]
        if enter is not None:
            conf = enter(blk, conf)
        for n in g.elements(blk):
            conf = transfer(n, conf)
            if conf is None:
                break
        if conf is None:
            continue
        outs = None
        if branch is not None and len(blk.s) == 2 and blk.tc is not None:
            cond = g.branch_cond(blk)
            if cond is not None:
                outs = branch(blk, cond, conf)
        for k, (s, u) in enumerate(zip(blk.s, blk.u)):
            if s is None or u:
                continue
            c2 = conf if outs is None else outs.get(k)
            if c2 is None:
                continue
            if c2 not in at.setdefault(s, set()):
                at[s].add(c2)
                work.append((s, c2))
    return at


def at_node(fn, confs, node, transfer, enter=None):
    """configurations just before the CFG element of `node`"""
    g = fn.cfg
    w = g.where_node(node)
    if w is None:
        return None
    b, idx = w
    blk = g.blocks[b]
    out = set()
    for conf in confs.get(b, ()):
        if enter is not None:
            conf = enter(blk, conf)
        target = blk.e[idx]
        for n in g.elements(blk):
            if n.id == target:
                break
            conf = transfer(n, conf)
        out.add(conf)
    return out
