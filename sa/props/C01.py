"""C01 — GDSII save/load round trip: record table agreement writer <-> reader, field
correspondence, enum code tables, unit discipline (db-unit rounding, width x2, deg/rad), repetition
offsets reach the emitted XY, AREF lattice bookkeeping. (DESIGN §4 C01)"""
import math
import re
from .. import gdsgrammar as G, tables, clone
from ..facts import AnalysisBroken
from ..flow import lvalue_key, is_assign, _strip_casts, pretty_key
from . import C03

EXPLANATION = ('R-TABLE: every record token any GDSII writer path emits has an explicit arm in read_gds. Field correspondence: per '
               'element kind and record, the struct fields the writer\'s payload expression depends on are the fields the reader\'s arm '
               'assigns on the matching element (tag <-> set_layer/set_type; anchor <-> & 0x000F; x_reflection <-> bit 0x8000 on both '
               'sides; magnification; rotation; end_extensions.u/.v <-> BGNEXTN/ENDEXTN; text; reference name; columns/rows). Enum '
               'tables: EndType -> PATHTYPE (two sibling writers) composed with the reader\'s PATHTYPE -> EndType is the identity on '
               '{Flush, Round, HalfWidth, Extended} and Smooth -> Round. R-UNIT: every int32 coordinate/extension/width the writers '
               'store is (int32_t)lround(user x scaling); WIDTH is 2 x half-width with the sign control-dependent on scale_width and '
               'the reader halves it and sets scale_width on both signs; ANGLE is rotation x 180/pi out and pi/180 x in; reader '
               'coordinates are factor x int. R-DEP: in every element writer each per-offset value read from the get_offsets array '
               'is added into every coordinate of the element emitted in that iteration and the loop runs offsets.count times; for '
               'AREF the column/row counts written to COLROW are the same variables that scale the lattice corners, and the '
               'writer\'s count limit fits the reader\'s accessor. Numeric equality of reloaded coordinates and idempotence of '
               'repeated cycles are not decided.')
ADVISORY = [('R-CLONE', r'^read_gds/XY:polygon~path-continuation')]
ASSUMPTIONS = ['record grammar, data types and byte order are C03\'s obligations; 8-byte reals are C19\'s']
XREF_FILES = ['src/library.cpp', 'src/polygon.cpp', 'src/flexpath.cpp', 'src/robustpath.cpp', 'src/reference.cpp', 'src/label.cpp']
norm = C03.norm


def fulltext(stmts):
    from ..facts import stmt_tree_text
    return norm(' '.join(' '.join(stmt_tree_text(s).split()) for s in stmts))


def fields_in(e, fn, depth=0, seen=None):
    """this->fields (and el-> fields) an expression depends on, through local definitions"""
    seen = seen if seen is not None else set()
    out = set()
    for x in e.walk():
        if x.k == 'MemberExpr' and x.n:
            b = x.child('base')
            while b is not None and b.k == 'MemberExpr' and not b.n:
                b = b.child('base')
            if b is not None and (b.k == 'CXXThisExpr' or (b.k == 'DeclRefExpr' and b.n == 'el')):
                out.add(x.n)
            elif b is not None and b.k == 'MemberExpr' and b.n in ('repetition', 'end_extensions', 'origin', 'raith_data'):
                out.add(b.n + '.' + x.n)
        if x.k == 'DeclRefExpr' and x.dk == 'local' and x.d not in seen and depth < 5:
            seen.add(x.d)
            for v in fn.walk():
                if v.k == 'VarDecl' and v.d == x.d and v.child('init') is not None:
                    out |= fields_in(v.child('init'), fn, depth + 1, seen)
                if is_assign(v) and _strip_casts(v.child('lhs')).k == 'DeclRefExpr' and _strip_casts(v.child('lhs')).d == x.d:
                    out |= fields_in(v.child('rhs'), fn, depth + 1, seen)
                    for a in v.ancestors():  # control dependence
                        if a.k in ('IfStmt', 'SwitchStmt'):
                            out |= fields_in(a.child('cond'), fn, depth + 1, seen)
                if is_assign(v) and _strip_casts(v.child('lhs')).k == 'ArraySubscriptExpr' and lvalue_key(_strip_casts(v.child('lhs')).child('base')) == 'v%d:%s' % (x.d, x.n):
                    out |= fields_in(v.child('rhs'), fn, depth + 1, seen)
    return out


def writer_fields(db):
    """(writer function, record) -> fields, from header-buffer words and payload writes"""
    out = {}
    for qn in ('gdstk::Polygon::to_gds', 'gdstk::Label::to_gds', 'gdstk::Reference::to_gds', 'gdstk::FlexPath::to_gds', 'gdstk::RobustPath::to_gds'):
        f = db.fn(qn)
        kind = qn.split('::')[1]
        for v in f.walk():
            if v.k != 'VarDecl' or not re.match(r'^(?:const )?(uint16_t|unsigned short)\[\d+\]$', v.ct or v.t or ''):
                continue
            init = v.child('init')
            if init is None or init.k != 'InitListExpr':
                continue
            words = [c for c in init.c]
            i = 0
            while i + 1 < len(words):
                L, Tw = words[i], words[i + 1]
                tw = Tw.cv if Tw is not None else None
                if tw is None:
                    # conditional record type (PATH / RAITHMBMSPATH)
                    tw = 0x0900 if 'path_type' in norm(Tw.text()) else None
                if tw is None:
                    break
                name = G.SPEC.get(tw >> 8, ('?',))[0]
                ln = L.cv if L is not None else None
                if (tw >> 8) not in G.SPEC or (ln is not None and (ln < 4 or ln % 2)):
                    break           # not a record header (e.g. a constant lookup table of 16-bit values)
                nw = ((ln - 4) // 2) if ln is not None else 0
                payload = words[i + 2:i + 2 + nw]
                fs = set()
                for p in payload:
                    if p is not None:
                        fs |= fields_in(p, f)
                # later stores into payload words
                for s in f.walk():
                    if is_assign(s) and _strip_casts(s.child('lhs')).k == 'ArraySubscriptExpr' and lvalue_key(_strip_casts(s.child('lhs')).child('base')) == 'v%d:%s' % (v.d, v.n):
                        idx = _strip_casts(s.child('lhs')).child('idx').cv
                        if idx is not None and i + 2 <= idx < i + 2 + nw:
                            fs |= fields_in(s.child('rhs'), f)
                            for a in s.ancestors():
                                if a.k == 'IfStmt':
                                    fs |= fields_in(a.child('cond'), f)
                out.setdefault((kind, name), set()).update(fs)
                i += 2 + nw
                if ln is None:
                    break
        # payload writes following a header: fwrite(&x | arr, ...)
        calls = [c for c in f.walk() if c.k == 'CallExpr' and c.callee == 'fwrite']
        for j, c in enumerate(calls):
            a0 = _strip_casts(c.args[0])
            if a0.k == 'DeclRefExpr' and re.match(r'^(?:const )?(uint16_t|unsigned short)\[\d+\]$', a0.ct or a0.t or ''):
                # header; the next fwrite (if not a header) is its payload for the LAST record of the buffer
                d = next((v for v in f.walk() if v.k == 'VarDecl' and v.d == a0.d), None)
                if d is None or j + 1 >= len(calls):
                    continue
                nxt = _strip_casts(calls[j + 1].args[0])
                if nxt.k == 'DeclRefExpr' and re.match(r'^(?:const )?(uint16_t|unsigned short)\[\d+\]$', nxt.ct or nxt.t or ''):
                    continue
                words = d.child('init').c
                # last record header = last word pair whose payload is not inside the buffer
                tw = None
                i = 0
                while i + 1 < len(words):
                    L, Tw = words[i], words[i + 1]
                    t2 = Tw.cv if Tw is not None and Tw.cv is not None else None
                    ln = L.cv if L is not None else None
                    if ln is not None and (ln < 4 or ln % 2):
                        tw = None
                        break       # not a record header
                    nw = ((ln - 4) // 2) if ln is not None else 0
                    if ln is None or i + 2 + nw > len(words):
                        tw = t2
                        break
                    i += 2 + nw
                if tw is None:
                    continue
                name = G.SPEC.get(tw >> 8, ('?',))[0]
                out.setdefault((kind, name), set()).update(fields_in(calls[j + 1].args[0], f))
    return out


def reader_fields(db):
    """record -> {element var: fields assigned / passed to set_layer,set_type}"""
    f = db.fn('gdstk::read_gds')
    sw = C03.record_switch(f)
    names = {c['v']: c['n'] for c in db.enum('gdstk::GdsiiRecord')['consts']}
    out = {}
    for labels, stmts, top in tables.switch_arms(sw):
        acc = {}
        for s in stmts:
            for x in s.walk():
                tgt = None
                if is_assign(x):
                    tgt = _strip_casts(x.child('lhs'))
                elif x.k == 'CallExpr' and x.callee in ('gdstk::set_layer', 'gdstk::set_type', 'gdstk::set_gds_property'):
                    tgt = _strip_casts(x.args[0])
                elif x.k == 'CXXMemberCallExpr' and (x.callee or '').split('::')[-1] in ('append', 'segment', 'ensure_slots'):
                    tgt = _strip_casts(x.child('obj'))
                if tgt is None:
                    continue
                t = norm(tgt.text())
                m = re.match(r'^\(?\*?(polygon|path|reference|label|repetition)\)?(?:->|\.)(.*)$', t)
                if m:
                    fld = re.sub(r'^elements\[0\]\.', '', m.group(2))
                    fld = re.split(r'\[|->', fld)[0]
                    acc.setdefault(m.group(1), set()).add(fld)
        for l in labels:
            if l != 'default':
                out[names.get(l, l)] = acc
    return out


CORRESPONDENCE = [
    # (writer kind, record, writer fields that must be involved, reader element, reader fields)
    ('Polygon', 'LAYER', {'tag'}, 'polygon', {'tag'}), ('Polygon', 'DATATYPE', {'tag'}, 'polygon', {'tag'}), ('Polygon', 'XY', {'point_array'}, 'polygon', {'point_array.count', 'point_array'}),
    ('Label', 'LAYER', {'tag'}, 'label', {'tag'}), ('Label', 'TEXTTYPE', {'tag'}, 'label', {'tag'}), ('Label', 'PRESENTATION', {'anchor'}, 'label', {'anchor'}),
    ('Label', 'STRANS', {'x_reflection'}, 'label', {'x_reflection'}), ('Label', 'MAG', {'magnification'}, 'label', {'magnification'}), ('Label', 'ANGLE', {'rotation'}, 'label', {'rotation'}),
    ('Label', 'XY', {'origin'}, 'label', {'origin.x', 'origin.y'}), ('Label', 'STRING', {'text'}, 'label', {'text'}),
    ('Reference', 'STRANS', {'x_reflection'}, 'reference', {'x_reflection'}), ('Reference', 'MAG', {'magnification'}, 'reference', {'magnification'}),
    ('Reference', 'ANGLE', {'rotation'}, 'reference', {'rotation'}), ('Reference', 'SNAME', {'name'}, 'reference', {'name', 'type'}),
    ('Reference', 'COLROW', set(), 'repetition', {'columns', 'rows', 'type'}), ('Reference', 'XY', {'origin'}, 'reference', {'origin'}),
    ('FlexPath', 'LAYER', {'tag'}, 'path', {'tag'}), ('FlexPath', 'DATATYPE', {'tag'}, 'path', {'tag'}), ('FlexPath', 'PATHTYPE', {'end_type'}, 'path', {'end_type'}),
    ('FlexPath', 'WIDTH', {'half_width_and_offset', 'scale_width'}, 'path', {'scale_width'}), ('FlexPath', 'BGNEXTN', {'end_extensions.u'}, 'path', {'end_extensions.u'}),
    ('FlexPath', 'ENDEXTN', {'end_extensions.v'}, 'path', {'end_extensions.v'}),
    ('RobustPath', 'LAYER', {'tag'}, 'path', {'tag'}), ('RobustPath', 'DATATYPE', {'tag'}, 'path', {'tag'}), ('RobustPath', 'PATHTYPE', {'end_type'}, 'path', {'end_type'}),
    ('RobustPath', 'WIDTH', {'width_array', 'width_scale', 'scale_width'}, 'path', {'scale_width'}),
]


def check_tables(ctx, db):
    toks = set()
    for qn, nt in C03.WRITER_NT:
        atoms, res = G.interpret(db.fn(qn))
        for env, r, iss, recs in res:
            toks |= {n for n, dt, L in recs}
    f = db.fn('gdstk::read_gds')
    sw = C03.record_switch(f)
    names = {c['v']: c['n'] for c in db.enum('gdstk::GdsiiRecord')['consts']}
    arms = set()
    for labels, stmts, top in tables.switch_arms(sw):
        arms |= {names.get(l, l) for l in labels if l != 'default'}
    missing = sorted(toks - arms)
    ctx.check(not missing and len(toks) >= 24, 'R-TABLE', 'records/writer-subset-of-reader', sw.loc(), 'all %d record kinds the writers can emit have an explicit arm in read_gds' % len(toks),
              'records the writers emit but read_gds has no arm for: %s' % missing)
    wf = writer_fields(db)
    rf = reader_fields(db)
    n = 0
    for kind, rec, wneed, relem, rneed in CORRESPONDENCE:
        n += 1
        w = wf.get((kind, rec), None)
        r = rf.get(rec, {}).get(relem, set())
        if rec in ('BGNEXTN', 'ENDEXTN', 'XY', 'MAG', 'ANGLE', 'WIDTH', 'STRING', 'SNAME') and w is None:
            w = wf.get((kind, rec), set())
        okw = w is not None and all(any(x == y or x.startswith(y + '.') or y.startswith(x + '.') or x.split('.')[0] == y for x in w) for y in wneed)
        okr = all(any(x == y or x.startswith(y) for x in r) for y in rneed)
        ctx.check(okw and okr, 'R-FIELD', '%s/%s' % (kind, rec), '', 'writer payload depends on %s; reader arm assigns %s->%s' % (sorted(wneed) or '(counts)', relem, sorted(rneed)),
                  '%s %s: writer payload depends on %s (needs %s); reader arm assigns %s (needs %s)' % (kind, rec, sorted(w or []), sorted(wneed), sorted(r), sorted(rneed)))
    ctx.require('R-FIELD pairs', n, 25)


def check_strans_writer(ctx, db):
    """Reflection is STRANS bit 0x8000, set exactly under x_reflection (either `|= 0x8000` under the test or a
    conditional initialiser), and the guard of the whole transform block holds whenever the element is reflected,
    rotated or magnified (evaluated over the 8 valuations of the three attribute tests)."""
    for qn in ('gdstk::Reference::to_gds', 'gdstk::Label::to_gds'):
        g = db.fn(qn)
        ctx.touch(g)
        st = [x for x in g.walk() if x.k == 'CompoundAssignOperator' and x.op == '|=' and 'buffer_flags' in x.child('lhs').text() and x.child('rhs').cv == 0x8000]
        form_a = len(st) == 1 and any(a_.k == 'IfStmt' and norm(a_.child('cond').text()) == 'this->x_reflection' for a_ in st[0].ancestors())
        init = next((v for v in g.walk() if v.k == 'VarDecl' and v.n == 'buffer_flags' and v.child('init') is not None), None)
        form_b = False
        if init is not None and not st:
            for c in init.child('init').walk():
                if c.k == 'ConditionalOperator' and norm(c.child('cond').text()) == 'this->x_reflection' and _strip_casts(c.child('then')).cv == 0x8000 and _strip_casts(c.child('else')).cv == 0:
                    form_b = True
        ctx.check(form_a or form_b, 'R-TABLE', '%s/STRANS-bit' % qn.replace('gdstk::', ''), g.loc(), 'reflection is STRANS bit 0x8000, set exactly under x_reflection')
        tv = next((v for v in g.walk() if v.k == 'VarDecl' and v.n == 'transform_' and v.child('init') is not None), None)
        if tv is None:
            raise AnalysisBroken('%s: transform_ guard not found' % qn)
        atoms = {'(this->rotation != 0)': 'rot', '(this->magnification != 1)': 'mag', 'this->x_reflection': 'refl'}

        def ev(e, val):
            e = _strip_casts(e)
            if e.k == 'ParenExpr':
                return ev(e.c[0], val)
            if e.k == 'BinaryOperator' and e.op in ('||', '&&'):
                a_, b_ = ev(e.child('lhs'), val), ev(e.child('rhs'), val)
                return (a_ or b_) if e.op == '||' else (a_ and b_)
            if e.k == 'UnaryOperator' and e.op == '!':
                return not ev(e.child('sub'), val)
            t = norm(e.text())
            if t in atoms:
                return val[atoms[t]]
            if e.k == 'DeclRefExpr' and e.dk == 'local':
                # a named condition (`const bool has_rot = rotation != 0`): its single definition
                ds = [v for v in g.walk() if v.k == 'VarDecl' and v.d == e.d and v.child('init') is not None]
                ws = [x for x in g.walk() if (is_assign(x) or x.k == 'CompoundAssignOperator') and _strip_casts(x.child('lhs')).k == 'DeclRefExpr' and _strip_casts(x.child('lhs')).d == e.d]
                if len(ds) == 1 and not ws:
                    return ev(ds[0].child('init'), val)
            raise AnalysisBroken('%s: transform_ guard mentions `%s`' % (qn, t[:60]))
        bad = []
        for bits in range(8):
            val = {'rot': bool(bits & 1), 'mag': bool(bits & 2), 'refl': bool(bits & 4)}
            if ev(tv.child('init'), val) != (val['rot'] or val['mag'] or val['refl']):
                bad.append(val)
        ctx.explored['valuations'] += 8
        ctx.check(not bad, 'R-TABLE', '%s/transform-guard' % qn.replace('gdstk::', ''), tv.loc(), 'STRANS (and MAG/ANGLE) are written exactly when the element is rotated, magnified or reflected',
                  'for %s the transform block is %s: the attribute never reaches the file' % (bad[0] if bad else '', 'skipped' if bad and any(bad[0].values()) else 'written'))
        uses = [i for i in g.walk() if i.k == 'IfStmt' and norm(i.child('cond').text()) == 'transform_']
        ctx.check(len(uses) >= 2, 'R-TABLE', '%s/transform-guard-used' % qn.replace('gdstk::', ''), tv.loc(), 'both the preparation and the emission of STRANS/MAG/ANGLE are under that guard')


def check_enum_tables(ctx, db):
    vals = {c['v']: c['n'] for c in db.enum('gdstk::EndType')['consts']}
    from . import C07
    from .. import minieval
    a, b = C07.pathtype_table(db, db.fn('gdstk::FlexPath::to_gds')), C07.pathtype_table(db, db.fn('gdstk::RobustPath::to_gds'))
    f = db.fn('gdstk::read_gds')
    sw = C03.record_switch(f)
    names = {c['v']: c['n'] for c in db.enum('gdstk::GdsiiRecord')['consts']}
    arm = next((stmts for labels, stmts, top in tables.switch_arms(sw) if any(names.get(l) == 'PATHTYPE' for l in labels)), None)
    if arm is None:
        raise AnalysisBroken('read_gds: no PATHTYPE arm')
    # the reader's PATHTYPE -> EndType table: the arm is evaluated for every code a writer can produce (and one unknown code)
    rt = {}
    for code in sorted(set(a.values()) | set(b.values()) | {3}):
        mi = minieval.Mini(db, member_store=True)
        env = {'data16': minieval.Ptr([code], 0), 'path': 1}
        try:
            for st in arm:
                mi.run(st, env)
        except minieval._Break:
            pass
        got = [v for k, v in mi.members.items() if k.endswith('end_type')]
        rt[code] = vals.get(got[0]) if len(got) == 1 else None
    ctx.explored['valuations'] += len(rt) + len(a) + len(b)
    full = {e: rt.get(a.get(e)) for e in vals.values()}
    want = {'Flush': 'Flush', 'Round': 'Round', 'HalfWidth': 'HalfWidth', 'Extended': 'Extended', 'Smooth': 'Round'}
    ok = a == b and all(full.get(k) == v for k, v in want.items()) and a == C07.PATHTYPE_SPEC
    ctx.check(ok, 'R-TABLE', 'EndType<->PATHTYPE', arm[0].loc(), 'PATHTYPE codes 0/1/2/4 round-trip Flush/Round/HalfWidth/Extended; Smooth degrades to Round', 'writer %s / %s, reader %s, composed %s' % (a, b, rt, full))
    # STRANS bit and the guard that decides whether STRANS/MAG/ANGLE are written at all
    check_strans_writer(ctx, db)
    arm = next((stmts for labels, stmts, top in tables.switch_arms(sw) if any(names.get(l) == 'STRANS' for l in labels)), None)
    t = fulltext(arm)
    ctx.check(t.count('(data16[0] & 32768) != 0') == 2 and 'reference->x_reflection' in t and 'label->x_reflection' in t, 'R-TABLE', 'read_gds/STRANS-bit', arm[0].loc(), 'the reader tests the same bit 0x8000 for references and labels')
    arm = next((stmts for labels, stmts, top in tables.switch_arms(sw) if any(names.get(l) == 'PRESENTATION' for l in labels)), None)
    t = fulltext(arm)
    ctx.check('(Anchor)(data16[0] & 15)' in t, 'R-TABLE', 'read_gds/PRESENTATION-mask', arm[0].loc(), 'the anchor is the low nibble of PRESENTATION')


def _scaled_round(e):
    """`e` is lround / llround of a product one factor of which is the scaling - possibly times a sign that is a constant +-1 or a
    choice between the two, possibly negated, whatever the order of the factors and the casts around them"""
    e = _strip_casts(e)
    while e is not None and e.k == 'ParenExpr':
        e = _strip_casts(e.c[0])
    if e is None:
        return False
    if e.k == 'UnaryOperator' and e.op == '-':
        return _scaled_round(e.child('sub'))
    if e.k == 'BinaryOperator' and e.op == '*':
        l, r = _strip_casts(e.child('lhs')), _strip_casts(e.child('rhs'))

        def sign(x):
            while x is not None and x.k == 'ParenExpr':
                x = _strip_casts(x.c[0])
            if x is None:
                return False
            if x.cv in (1, -1):
                return True
            return x.k == 'ConditionalOperator' and all(_strip_casts(c) is not None and _const_pm1(_strip_casts(c)) for c in x.c[1:3])
        if sign(l):
            return _scaled_round(r)
        if sign(r):
            return _scaled_round(l)
        return False
    if e.k == 'CallExpr' and (e.callee or '').split('::')[-1] in ('lround', 'llround') and len(e.args) == 1:
        fac = []

        def flat(x):
            x = _strip_casts(x)
            while x is not None and x.k == 'ParenExpr':
                x = _strip_casts(x.c[0])
            if x is not None and x.k == 'BinaryOperator' and x.op == '*':
                flat(x.child('lhs'))
                flat(x.child('rhs'))
            elif x is not None:
                fac.append(x)
        flat(e.args[0])
        return any((x.k == 'DeclRefExpr' and x.n == 'scaling') or (x.k == 'MemberExpr' and x.n == 'scaling') for x in fac)
    return False


def _const_pm1(x):
    while x is not None and x.k == 'ParenExpr':
        x = _strip_casts(x.c[0])
    if x is None:
        return False
    if x.cv in (1, -1):
        return True
    return x.k == 'UnaryOperator' and x.op == '-' and _strip_casts(x.child('sub')) is not None and _strip_casts(x.child('sub')).cv == 1


def check_units(ctx, db):
    n = 0
    for qn in ('gdstk::Polygon::to_gds', 'gdstk::Label::to_gds', 'gdstk::Reference::to_gds', 'gdstk::FlexPath::to_gds', 'gdstk::RobustPath::to_gds'):
        f = db.fn(qn)
        ctx.touch(f)
        for x in f.walk():
            is_store = False
            rhs = None
            if is_assign(x) and x.op == '=':
                l = _strip_casts(x.child('lhs'))
                if (l.ct or l.t or '') in ('int32_t', 'int') and not (l.k == 'DeclRefExpr' and (l.ct or l.t) != 'int32_t'):
                    if (l.t or '') == 'int32_t':
                        is_store, rhs = True, x.child('rhs')
            elif x.k == 'VarDecl' and (x.t or '') == 'int32_t' and x.child('init') is not None:
                is_store, rhs = True, x.child('init')
            elif x.k == 'InitListExpr' and x.parent is not None and x.parent.k == 'VarDecl' and (x.parent.t or '').startswith('int32_t['):
                for c in x.c:
                    if c is None or c.cv == 0:
                        continue
                    n += 1
                    t = norm(c.text())
                    ok = _scaled_round(c)
                    ctx.check(ok, 'R-UNIT', '%s/int32@%d' % (qn.replace('gdstk::', ''), c.id), c.loc(), 'stored as (int32_t)lround(user x scaling)', 'int32 database value computed as `%s` (not lround(user x scaling))' % t[:120])
                continue
            if not is_store or rhs is None:
                continue
            t = norm(rhs.text())
            r0 = _strip_casts(rhs)
            copy_of_int32 = r0 is not None and (r0.k == 'ArraySubscriptExpr' or (r0.k == 'CXXOperatorCallExpr' and r0.op == '[]') or (r0.k == 'UnaryOperator' and r0.op == '*')) and (r0.ct or r0.t or '').replace('const ', '').replace('&', '').strip() in ('int32_t', 'int')
            if rhs.cv is not None or copy_of_int32:
                continue            # a constant, or a copy of a value that is already in database units (the closing vertex)
            n += 1
            ok = _scaled_round(rhs)
            ctx.check(ok, 'R-UNIT', '%s/int32@%d' % (qn.replace('gdstk::', ''), x.id), x.loc(), 'stored as (int32_t)lround(user x scaling)', 'int32 database value computed as `%s` (not lround(user x scaling))' % t[:120])
    ctx.require('R-UNIT int32 sinks', n, 18)
    # ANGLE out / in
    for qn in ('gdstk::Reference::to_gds', 'gdstk::Label::to_gds'):
        g = db.fn(qn)
        a = next((x for x in g.walk() if is_assign(x) and norm(x.child('lhs').text()) == 'rot_real'), None)
        r = _strip_casts(a.child('rhs')) if a is not None else None
        arg = _strip_casts(r.args[0]) if r is not None and r.k == 'CallExpr' else None
        ok = arg is not None and arg.k == 'BinaryOperator' and arg.op == '*' and norm(arg.child('lhs').text()) == 'this->rotation' and arg.child('rhs').fv is not None and abs(arg.child('rhs').fv - 180.0 / math.pi) < 1e-12
        ctx.check(ok, 'R-UNIT', '%s/ANGLE-degrees' % qn.replace('gdstk::', ''), g.loc(), 'ANGLE = rotation x 180/pi')
        m = next((x for x in g.walk() if is_assign(x) and norm(x.child('lhs').text()) == 'mag_real'), None)
        ok = m is not None and norm(m.child('rhs').text()) == 'gdsii_real_from_double(this->magnification)'
        ctx.check(ok, 'R-UNIT', '%s/MAG' % qn.replace('gdstk::', ''), g.loc(), 'MAG = magnification')
    f = db.fn('gdstk::read_gds')
    st = [x for x in f.walk() if is_assign(x) and norm(x.child('lhs').text()).endswith('->rotation')]
    ok = len(st) == 2
    for x in st:
        r = _strip_casts(x.child('rhs'))
        ok = ok and r.k == 'BinaryOperator' and r.op == '*' and r.child('lhs').fv is not None and abs(r.child('lhs').fv - math.pi / 180.0) < 1e-15 and norm(r.child('rhs').text()) == 'gdsii_real_to_double(data64[0])'
    ctx.check(ok, 'R-UNIT', 'read_gds/ANGLE-radians', f.loc(), 'rotation = pi/180 x ANGLE for references and labels')
    # WIDTH in
    sw = C03.record_switch(f)
    names = {c['v']: c['n'] for c in db.enum('gdstk::GdsiiRecord')['consts']}
    arm = next((stmts for labels, stmts, top in tables.switch_arms(sw) if any(names.get(l) == 'WIDTH' for l in labels)), None)
    t = norm(clone.canon(arm[0], f))
    keep = fulltext(arm)
    ok = 'if ((data32[0] < 0))' in keep.replace('v', 'v') or '(data32[0] < 0)' in keep
    ok = ok and '(width = (factor * (-data32[0])))' in keep and '(width = (factor * data32[0]))' in keep and 'path->scale_width = false' in keep and 'path->scale_width = true' in keep
    ctx.check(ok, 'R-UNIT', 'read_gds/WIDTH', arm[0].loc(), 'a negative WIDTH means absolute width: magnitude is used and scale_width is assigned on both signs')
    xy = [x for x in f.walk() if x.k == 'BinaryOperator' and x.op == '*' and norm(x.child('lhs').text()) == 'factor']
    ctx.check(len(xy) >= 12, 'R-UNIT', 'read_gds/factor-x-int', f.loc(), 'loaded coordinates, widths and extensions are factor x integer (%d sites)' % len(xy))


GDS_ELEMENT_HEADERS = {0x0800: 'BOUNDARY', 0x0900: 'PATH', 0x0A00: 'SREF', 0x0B00: 'AREF', 0x0C00: 'TEXT'}


def offsets_loop(f):
    """(array key, loop node, Loop) of the loop that visits every offset produced by Repetition::get_offsets exactly once,
    found through the affine loop summary (any loop form), or raises AnalysisBroken"""
    from .. import loops, deps
    from ..linear import lin_add
    go = [c for c in f.walk() if c.k == 'CXXMemberCallExpr' and (c.callee or '').endswith('Repetition::get_offsets')]
    if len(go) != 1:
        raise AnalysisBroken('%s: expected one Repetition::get_offsets call, found %d' % (f.qn, len(go)))
    ak = lvalue_key(_strip_casts(go[0].args[0]))
    D = deps.Deps(f)
    found = []
    for L in loops.loops_of(f):
        if L.pos < go[0].pos:
            continue
        lp = loops.Loop(f, L)
        trip = lp.trip()
        if trip is None or lin_add(trip, {ak + '.count': 1}, -1):
            continue
        accs = []
        for x in L.walk():
            ptr = None
            if x.k == 'UnaryOperator' and x.op == '*':
                ptr = x.child('sub')
            elif x.k == 'ArraySubscriptExpr':
                ptr = x.child('base') or x.c[0]
            elif x.k == 'MemberExpr' and x.arrow:
                ptr = x.child('base')
            elif x.k == 'CXXOperatorCallExpr' and x.op == '[]' and lvalue_key(_strip_casts(x.args[0])) == ak:
                accs.append((x, lp.addr(x)))
                continue
            if ptr is None:
                continue
            r = D.root_of_ptr(ptr)
            if r is not None and r[0] == ak:
                accs.append((x, lp.addr(x) if x.k != 'MemberExpr' else lp.lin(ptr, x)))
        if not accs:
            continue
        ok = True
        for x, lin in accs:
            if lin is None:
                ok = False
                break
            rest = lin_add(lin, {ak + '.items': 1}, -1)
            b = rest.pop(loops.K, 0)
            c = rest.pop(1, 0)
            if rest or not ((b == 1 and c == 0) or (b == 2 and c in (0, 1))):
                ok = False
        found.append((L, lp, ok, accs))
    good = [t for t in found if t[2]]
    if len(good) != 1:
        bad = [t for t in found if not t[2]]
        if bad:
            return ak, bad[0][0], bad[0][1], 'in the loop at %s the offsets are addressed as %s: iteration k does not use offset k' % (bad[0][0].loc(), [a[1] for a in bad[0][3]][:3])
        raise AnalysisBroken('%s: no counting loop over the %s offsets recognised' % (f.qn, 'repetition'))
    return ak, good[0][0], good[0][1], None


def check_offsets(ctx, db):
    """One element per repetition offset, and offset k is added - component by component, before the scaling - into every
    coordinate of element k. Decided from the affine summary of the offsets loop (sa/loops.py) and the value-flow sources
    of every rounded coordinate (sa/deps.py); loop form, temporaries and the double*/Vec2* view are irrelevant."""
    from .. import loops, deps
    nsinks = 0
    for qn in ('gdstk::Polygon::to_gds', 'gdstk::Label::to_gds', 'gdstk::Reference::to_gds', 'gdstk::FlexPath::to_gds', 'gdstk::RobustPath::to_gds'):
        f = db.fn(qn)
        key = '%s/offsets-reach-xy' % qn.replace('gdstk::', '')
        ak, L, lp, why = offsets_loop(f)
        problems = [why] if why else []
        # the element's header and ENDEL records are written once per offset
        bufs = {}
        for v in f.walk():
            if v.k == 'VarDecl' and v.child('init') is not None and v.child('init').k == 'InitListExpr':
                cvs = {c.cv for c in v.child('init').walk() if c.cv is not None}
                if 0x1100 in cvs:
                    bufs['v%d:%s' % (v.d, v.n)] = 'ENDEL'
                elif cvs & (set(GDS_ELEMENT_HEADERS) | {0x0D02}):      # an element record (or, with a computed kind, its LAYER record)
                    bufs['v%d:%s' % (v.d, v.n)] = 'header'
        for kind in ('header', 'ENDEL'):
            ws = [c for c in f.walk() if c.k == 'CallExpr' and c.callee == 'fwrite' and bufs.get(lvalue_key(_strip_casts(c.args[0]))) == kind]
            if not ws:
                raise AnalysisBroken('%s: no fwrite of the %s record found' % (qn, kind))
            inl = [c for c in ws if any(a is L for a in c.ancestors())]
            if kind == 'ENDEL' and not any(loops.unconditional_in(c, L) for c in inl):
                problems.append('the ENDEL record is not written once per offset (inside the offsets loop at %s)' % L.loc())
            if kind == 'header' and not inl:
                problems.append('the element header is not written inside the offsets loop at %s' % L.loc())
        # every rounded coordinate written inside the loop: same component of coordinate and offset, both under the same operators
        D = deps.Deps(f)
        seen = {'x': 0, 'y': 0}
        for c in L.walk():
            if c.k != 'CallExpr' or c.callee not in ('lround', 'llround'):
                continue
            src = D.sources(c.args[0])
            off = {s: t for s, t in src.items() if s[0] == ak}
            coord = {s: t for s, t in src.items() if s[0] != ak and s[1] in ('x', 'y', '?')}
            if not off and not coord:
                continue
            nsinks += 1
            comps = {s[1] for s in list(off) + list(coord)}
            if coord and not off:
                problems.append('%s: the coordinate %s is written without the repetition offset' % (c.loc(), sorted(pretty_key(s[0]) + '.' + s[1] for s in coord)))
            elif len(comps) != 1 or '?' in comps:
                problems.append('%s: mixes components: %s' % (c.loc(), sorted(pretty_key(s[0]) + '.' + str(s[1]) for s in list(off) + list(coord))))
            else:
                tags = {t for t in list(off.values()) + list(coord.values())}
                if len(tags) != 1 or 'product' in next(iter(tags)) or any(x.startswith('call:') for x in next(iter(tags))):
                    problems.append('%s: offset and coordinate are not combined by a plain sum before the common scaling (%s)' % (c.loc(), {pretty_key(s[0]): sorted(t) for s, t in list(off.items()) + list(coord.items())}))
                else:
                    seen[next(iter(comps))] += 1
        if not problems and not (seen['x'] and seen['y']):
            raise AnalysisBroken('%s: no rounded x / y coordinate with an offset found in the offsets loop (%s)' % (qn, seen))
        ctx.check(not problems, 'R-DEP', key, f.loc(), 'one element per repetition offset is emitted and both offset components are added into every coordinate (%d x, %d y sinks)' % (seen['x'], seen['y']),
                  'repetition offsets do not reach the emitted coordinates (or the element is not emitted once per offset): ' + '; '.join(problems[:3]))
    ctx.require('R-DEP offset sinks', nsinks, 10)


def check_aref(ctx, db):
    f = db.fn('gdstk::Reference::to_gds')
    st = {}
    for x in f.walk():
        if is_assign(x) and _strip_casts(x.child('lhs')).k == 'ArraySubscriptExpr' and 'buffer_array' in x.child('lhs').text():
            idx = _strip_casts(x.child('lhs')).child('idx').cv
            st.setdefault(idx, []).append(norm(x.child('rhs').text()))
    ok = sorted(st) == [2, 3] and '(uint16_t)columns' in st[2] and '(uint16_t)rows' in st[3]
    corners = {}
    for x in f.walk():
        if is_assign(x) and norm(x.child('lhs').text()) in ('x2', 'y2', 'x3', 'y3'):
            corners.setdefault(norm(x.child('lhs').text()), []).append(norm(x.child('rhs').text()))
    okc = all(len(corners.get(k, [])) == 2 for k in ('x2', 'y2', 'x3', 'y3'))
    okc = okc and all('columns *' in r for k in ('x2', 'y2') for r in corners[k]) and all('rows *' in r for k in ('x3', 'y3') for r in corners[k])
    ctx.check(ok and okc, 'R-DEP', 'Reference::to_gds/COLROW=lattice-counts', f.loc(), 'COLROW holds the same (possibly swapped) column/row variables that scale the second and third lattice corner',
              'COLROW is filled from %s while the lattice corners use `columns`/`rows` locals: after the 90-degree swap the counts and the corners disagree' % st)
    # swapped branch swaps both counts
    sw = [x for x in f.walk() if is_assign(x) and norm(x.child('lhs').text()) in ('columns', 'rows') and 'repetition' in norm(x.child('rhs').text())]
    t = sorted((norm(x.child('lhs').text()), norm(x.child('rhs').text())) for x in sw)
    ctx.check(t == [('columns', 'this->repetition.rows'), ('rows', 'this->repetition.columns')], 'R-DEP', 'Reference::to_gds/swap-counts', f.loc(), 'when the lattice vectors align with the swapped axes both counts are exchanged')
    # the counts that scale the corners are the counts that are written: inside the branch that swaps them, the swap
    # comes before every use (same reaching definition at the corner computation and at the COLROW store)
    stale = []
    for a in sw:
        blk = a.parent
        nm = norm(a.child('lhs').text())
        if blk is None or blk.k != 'CompoundStmt':
            stale.append('%s: swap of `%s` is not a statement of the aligned-axes branch' % (a.loc(), nm))
            continue
        for s_ in blk.c[:blk.c.index(a)]:
            if s_ is not None and any(x.k == 'DeclRefExpr' and x.n == nm and x.dk == 'local' for x in s_.walk()):
                stale.append('%s uses `%s` before it is exchanged at %s, but COLROW is written from the exchanged value' % (s_.loc(), nm, a.loc()))
    ctx.check(not stale and len(sw) == 2, 'R-DEP', 'Reference::to_gds/swap-before-corners', f.loc(), 'in the swapped branch the counts are exchanged before the lattice corners are computed from them', '; '.join(stale[:2]))
    lim = next((i for i in f.walk() if i.k == 'IfStmt' and 'UINT16_MAX' in i.child('cond').text() or (i.k == 'IfStmt' and '65535' in norm(i.child('cond').text()))), None)
    g = db.fn('gdstk::read_gds')
    rd = [x for x in g.walk() if is_assign(x) and norm(x.child('lhs').text()) in ('repetition->columns', 'repetition->rows')]
    okr = len(rd) == 2 and all(norm(x.child('rhs').text()).startswith('(uint16_t)data16[') for x in rd)
    ctx.check(lim is not None and okr, 'R-RANGE', 'COLROW/count-range', rd[0].loc() if rd else g.loc(), 'the writer accepts counts up to 65535 and the reader decodes COLROW as unsigned 16-bit values',
              'writer limit is 65535 but the reader decodes COLROW through a signed 16-bit accessor (counts above 32767 re-load as huge values)')
    # reader: lattice from corners divided by the counts
    xy = [x for x in g.walk() if is_assign(x) and re.match(r'^repetition->(spacing|v1|v2)\.[xy]$', norm(x.child('lhs').text()))]
    # the stored pitch components, evaluated (sa/minieval, exact rationals) for the AREF points (1, 2) (41, 12) (7, 62) with factor 1/2 and
    # 4 columns x 3 rows: second corner - origin over the columns, third corner - origin over the rows
    from .. import minieval as _M
    from fractions import Fraction as _F
    fac = _F(1, 2)
    d32 = [2, 4, 82, 24, 14, 124]
    org = (fac * d32[0], fac * d32[1])
    want = {'v1.x': (fac * d32[2] - org[0]) / 4, 'v1.y': (fac * d32[3] - org[1]) / 4, 'v2.x': (fac * d32[4] - org[0]) / 3, 'v2.y': (fac * d32[5] - org[1]) / 3}
    want['spacing.x'], want['spacing.y'] = want['v1.x'], want['v2.y']
    got = {}
    for x in xy:
        mi_ = _M.Mini(db, budget=2000)
        mi_.obj_store = True
        env_ = {'factor': fac, 'data32': _M.Ptr(list(d32), 0), 'origin': _M.Obj(x=org[0], y=org[1]), 'repetition': _M.Obj(columns=4, rows=3), 'reference': _M.Obj(origin=_M.Obj(x=org[0], y=org[1]))}
        try:
            got[norm(x.child('lhs').text()).split('->')[-1]] = mi_.ev(x.child('rhs'), env_)
        except AnalysisBroken as ex:
            got[norm(x.child('lhs').text()).split('->')[-1]] = 'not evaluable (%s)' % ex
    ok = len(got) >= 4 and all(k_ in want and isinstance(v_, (int, _F)) and _F(v_) == want[k_] for k_, v_ in got.items()) and {'spacing.x', 'spacing.y'} <= set(got) and {'v1.x', 'v1.y', 'v2.x', 'v2.y'} <= set(got)
    ctx.check(ok, 'R-DEP', 'read_gds/AREF-lattice', g.loc(), 'pitch vectors are (corner - origin) / count with columns for the second and rows for the third corner', 'for the AREF corners (1, 2) (41, 12) (7, 62), 4 columns and 3 rows the reader stores %s, expected %s' % ({k_: str(v_) for k_, v_ in got.items()}, {k_: str(v_) for k_, v_ in want.items()}))


def run(ctx):
    db = ctx.db
    ctx.attempt(check_tables, ctx, db)
    ctx.attempt(check_enum_tables, ctx, db)
    ctx.attempt(check_units, ctx, db)
    ctx.attempt(C03.check_units_arm, ctx, db)      # unit, precision, scale factor and default tolerance restored from UNITS
    ctx.attempt(check_offsets, ctx, db)
    ctx.attempt(check_aref, ctx, db)
    ctx.attempt(C03.check_xy_continuation, ctx, db)# a boundary split over several XY records re-loads completely
    ctx.attempt(C03.check_writers, ctx, db)        # what is saved is a well-formed stream: every record with its data type, length, one byte swap (the re-load reads records)
    ctx.attempt(C03.check_element_buffers, ctx, db)# one PATH record per element, from a scratch array emptied per element
    ctx.attempt(C03.check_reader_state, ctx, db)
    from . import C07   # FlexPath::to_gds starts with remove_overlapping_points: re-saving a loaded path must not merge grid-adjacent vertices
    ctx.attempt(C07.check_bookkeeping, ctx, db)# element-scoped reader state (WIDTH, ...) does not leak into the next element
    from . import C17 as _C17, C19 as _C19
    ctx.attempt(_C19.check_gds_real, ctx, db)          # the 8-byte real of UNITS / MAG / ANGLE: encoder o decoder on every power of two, sign, zero
    ctx.attempt(_C17.check_header_bytes, ctx, db)     # the bytes around the cells (HEADER ... UNITS, ENDLIB) of both writers, against the format


MANIFEST = dict(
    text='Decides structural necessary conditions of the GDSII round trip: every record kind a writer path can emit has an explicit reader arm; for 27 (element kind, record) pairs the fields the writer\'s payload depends on are the fields the reader assigns on the matching element; the EndType/PATHTYPE tables compose to the identity (Smooth -> Round), STRANS bit 0x8000 and the PRESENTATION nibble agree on both sides; every int32 database value is (int32_t)lround(user x scaling), WIDTH is twice the half-width with the scale_width sign convention handled on both signs, ANGLE is degrees out / radians in, loaded values are factor x int; every repetition offset reaches both coordinates of exactly one emitted element per offset; AREF counts written to COLROW are the variables that scale the lattice corners, both are swapped together, the count range fits the reader\'s accessor, and the reader recovers pitches as (corner - origin) / count; continuation XY records are appended (BOUNDARY and PATH alike) and the per-element scratch arrays of the PATH writers are emptied for every element. Numeric equality of coordinates and idempotence of repeated cycles are not decided.',
    note='Trusted: clang front end, gx, sa rules, sa/gdsgrammar.py. The correspondence table names struct fields (semantic anchors); a renamed field shows up as a failed pair to be re-confirmed.',
    technique='table extraction on both codec sides + dependence closure for payload expressions + unit/shape rules',
    design='§4 C01')
