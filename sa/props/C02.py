"""C02 — OASIS save/load round trip: the structural part. Writer blocks against the reader's own
arms (not against the standard: that is C04), code tables paired with their biases, unsigned sinks,
unit discipline, the signature accumulator and the CBLOCK buffer typestate."""
import re
from .. import oasfields as O, tables, clone, tagunion, linear, dims, minieval
from ..facts import AnalysisBroken
from ..flow import lvalue_key, is_assign, _strip_casts
from .C04 import reader_switch, writer_regions

EXPLANATION = ('Writer vs reader, record by record: every record instance a writer block can emit (all valuations of its branch conditions, '
               'which is what the option flags and detection switches select) is replayed against the decision tree of the reader arm with '
               'the same record id and info byte: the reader consumes exactly the fields written, in order, with the inverse codec. '
               'PROPERTY: for value counts 0..40 the count nibble and the explicit count field agree with the reader\'s `== 15` escape; '
               'value type codes pair PropertyType <-> OasisDataType. Repetitions: per type code the writer arm and the reader arm have the '
               'same field list with paired count biases (-2/+2, -1/+1) and scaling; unsigned sinks receive values proven non-negative by an '
               'enclosing guard or the sorted-difference idiom. PATH: extension-scheme nibbles pair with the signed extensions written and '
               'with the end type; the half-width sink receives a half width. PLACEMENT angle code table is inverse to the reader\'s. '
               'Coordinates reach integer sinks only through llround(x * scaling). All file bytes pass oasis_write/oasis_putc (signature '
               'accumulator), except the signature itself; the CBLOCK buffer cursor is cleared before the CBLOCK header is written and the '
               'deflate/inflate window parameters agree. Reference union members are accessed only under their tag. '
               'Equality of re-loaded geometry, compression round trip and signature value are not decided.')
ASSUMPTIONS = ['primitive codecs are inverse (C19); reader arms follow the standard (C04)', 'read_oas only creates Cell and Name references (all tag stores in the function)']
XREF_FILES = ['src/library.cpp', 'src/oasis.cpp', 'src/polygon.cpp', 'src/flexpath.cpp', 'src/robustpath.cpp', 'src/property.cpp']
norm = O.norm


def reader_arms(db):
    f = db.fn('gdstk::read_oas')
    sw = reader_switch(f)
    if sw is None:
        raise AnalysisBroken('read_oas: record switch not found')
    names = {c['v']: c['n'] for c in db.enum('gdstk::OasisRecord')['consts']}
    arms = {}
    for labels, stmts, top in tables.switch_arms(sw):
        tree = O.tree_of(stmts)
        for l in labels:
            arms[names.get(l, str(l))] = (tree, stmts, top)
    return f, names, arms


def reader_seq(arms, rec, info, prop_nibble=None):
    tree = arms[rec][0]

    def choose(kind, text):
        rt = O.record_test(text, rec, None)
        if rt is not None:
            return rt
        m = re.search(r'record == OasisRecord::(\w+)', text)
        if m:
            return m.group(1) == rec
        if text == '(num_values == 15)':
            return (info >> 4) == 15
        raise AnalysisBroken('read_oas/%s: condition `%s` is neither an info-bit test nor a record test' % (rec, text[:60]))
    return O.simulate(tree, info, choose)


def flatten_writer(inst):
    """writer field codecs with idioms folded to the reader's vocabulary"""
    out = []
    f = inst['fields']
    i = 0
    while i < len(f):
        if f[i] == 'uint' and i + 1 < len(f) and f[i + 1] == 'bytes':
            out.append('string')
            i += 2
        else:
            out.append(f[i])
            i += 1
    return out


def check_records(ctx, db):
    rf, names, arms = reader_arms(db)
    ctx.touch(rf)
    total = 0
    for label, f, region in writer_regions(db):
        if label == 'properties_to_oas':
            continue
        ctx.touch(f)
        atoms, res = O.interpret_writer(f, region, names)
        ctx.explored['valuations'] += len(res)
        bad = []
        seen = set()
        for env, ops in res:
            for inst in O.record_instances(ops):
                rec, info = inst['record'], inst['info']
                key = (rec, info, tuple(inst['fields']))
                if key in seen or rec == 'PROPERTY':
                    continue
                seen.add(key)
                if rec not in arms:
                    bad.append('record %s is written but read_oas has no arm for it' % rec)
                    continue
                if rec in O.SPEC:
                    if info is None or info[1]:
                        val, unk = info if info else (0, 0xFF)
                    val, unk = info
                    subs = [0]
                    for b in range(8):
                        if unk & (1 << b):
                            subs += [x | (1 << b) for x in subs]
                    for add in subs:
                        got = flatten_writer(inst)
                        want = reader_seq(arms, rec, val | add)
                        if rec == 'PATH':
                            # the extension-scheme sub-switch is decoded separately (check_path_extensions)
                            want = [w for w in want if not w.startswith('switch[')]
                            k = got.index('plist') if 'plist' in got else len(got)
                            j = 4 if (val | add) & 0x40 else 3
                            got = got[:j + 1] + [g for g in got[j + 1:k] if g != 'sint'] + got[k:] if (val | add) & 0x80 else got
                        if got != want:
                            bad.append('%s with info 0x%02X: written %s, read_oas consumes %s' % (rec, val | add, got, want))
                            break
                    total += 1
                else:
                    got = flatten_writer(inst)
                    want = O.simulate(arms[rec][0], 0, lambda k, t: (_ for _ in ()).throw(AnalysisBroken('read_oas/%s: unexpected condition %s' % (rec, t))))
                    if got != want:
                        bad.append('%s: written %s, read_oas consumes %s' % (rec, got, want))
                    total += 1
        ctx.check(not bad, 'R-FIELDSEQ', 'roundtrip/%s' % label, region.loc(), '%d distinct record instances over %d valuations are consumed field by field by the reader arm of the same record' % (len(seen), len(res)), '; '.join(bad[:3]))
    ctx.require('R-FIELDSEQ writer->reader record instances', total, 45)


def check_property(ctx, db):
    rf, names, arms = reader_arms(db)
    f = db.fn('gdstk::properties_to_oas')
    ctx.touch(f)
    bad = []
    n = 0
    for count in range(0, 41):
        atoms, res = O.interpret_writer(f, f.body, names, conc={'value_count': count})
        ctx.explored['valuations'] += len(res)
        for env, ops in res:
            for inst in O.record_instances(ops):
                if inst['record'] != 'PROPERTY':
                    continue
                n += 1
                info = inst['info']
                if info is None or info[1]:
                    bad.append('value count %d: info byte not fully determined (%s)' % (count, info))
                    continue
                info = info[0]
                if (info >> 4) != min(count, 15):
                    bad.append('value count %d is announced as nibble %d' % (count, info >> 4))
                head = []
                args = []
                for o in inst['ops']:
                    if o[0] == 'loop-begin':
                        break
                    if o[0] in ('uint', 'sint', 'byte', 'bytes', 'real'):
                        head.append(o[0])
                        args.append(o[1] if isinstance(o[1], str) else '')
                want = reader_seq(arms, 'PROPERTY', info)
                want_head = [w for w in want if not w.startswith('{')]
                if head != want_head:
                    bad.append('value count %d (info 0x%02X): written header %s, read_oas consumes %s' % (count, info, head, want_head))
                elif (info >> 4) == 15 and args[-1] != 'value_count':
                    bad.append('value count %d: the explicit count field is written from `%s`' % (count, args[-1]))
                if not (info & 0x04) or not (info & 0x02) or (info & 0x08):
                    bad.append('info 0x%02X: the writer always gives the name by reference number with an explicit value list (C=1, N=1, V=0)' % info)
    ctx.check(not bad and n >= 80, 'R-TABLE', 'roundtrip/PROPERTY-header', f.loc(), 'for value counts 0..40 (x standard/user property): nibble = min(count, 15), the explicit count follows exactly when the nibble is 15, which is when read_oas reads it', '; '.join(bad[:3]))
    # S bit <-> is_gds_property
    sbit = [x for x in f.walk() if x.k == 'CompoundAssignOperator' and x.op == '|=' and norm(x.child('lhs').text()) == 'info' and x.child('rhs').cv == 1]
    ok = len(sbit) == 1 and any(a.k == 'IfStmt' and norm(a.child('cond').text()).startswith('is_gds_property(') for a in sbit[0].ancestors())
    ctx.check(ok, 'R-TABLE', 'roundtrip/PROPERTY-S-bit', f.loc(), 'the standard-property bit S is set exactly for S_GDS_PROPERTY')
    # value table
    sw = next((s for s in f.walk() if s.k == 'SwitchStmt' and norm(s.child('cond').text()) == 'value->type'), None)
    if sw is None:
        raise AnalysisBroken('properties_to_oas: switch over value->type not found')
    ptypes = {c['v']: c['n'] for c in db.enum('gdstk::PropertyType')['consts']}
    dtypes = {c['v']: c['n'] for c in db.enum('gdstk::OasisDataType')['consts']}
    tables.check_exhaustive(ctx, db, f, 'gdstk::PropertyType')
    # reader value switch
    rsw = next((s for s in rf.walk() if s.k == 'SwitchStmt' and norm(s.child('cond').text()) == 'data_type'), None)
    if rsw is None:
        raise AnalysisBroken('read_oas: switch over data_type not found')
    rarm = {}
    for labels, stmts, top in tables.switch_arms(rsw):
        t = next((norm(x.child('rhs').text()) for st in stmts for x in st.walk() if is_assign(x) and norm(x.child('lhs').text()) == 'property_value->type'), None)
        unfinished = any(c.k == 'CXXMemberCallExpr' and norm(c.child('obj').text()) == 'unfinished_property_value' for st in stmts for c in st.walk())
        for l in labels:
            rarm[l] = (O.seq_of(stmts), t, unfinished)
    ctx.check(set(rarm) >= set(range(16)), 'R-EXHAUST', 'read_oas/property-value-types', rsw.loc(), 'all 16 property value type codes have a reader arm', 'missing value type codes %s' % sorted(set(range(16)) - set(rarm)))
    n = 0
    for labels, stmts, top in tables.switch_arms(sw):
        pt = [ptypes.get(l) for l in labels]
        it = O.WInterp(f, {}, names)
        res = []
        envs = [{}]
        while envs:
            env = envs.pop()
            it = O.WInterp(f, env, names)
            try:
                it.run_list(stmts)
                res.append(it.ops)
            except O.NeedAtom as na:
                envs.extend(O.fork(env, na.key))
        for ops in res:
            w = [(o[0], o[1]) for o in ops if o[0] in ('byte', 'uint', 'sint', 'real', 'bytes')]
            n += 1
            if pt == ['Real']:
                ok = [x[0] for x in w] == ['real'] and all(rarm[c][0] == 'real_by_type' and rarm[c][1] == 'PropertyType::Real' for c in range(8))
                ctx.check(ok, 'R-TABLE', 'roundtrip/PROPERTY-value/Real', top.loc(), 'a real value is written as an OASIS real (type 0-7 + payload); read_oas maps codes 0-7 to PropertyType::Real via oasis_read_real_by_type')
                continue
            code = w[0][1][0] if w and w[0][0] == 'byte' and w[0][1][1] == 0 else None
            if code is None or code not in rarm:
                ctx.violation('R-TABLE', 'roundtrip/PROPERTY-value/%s' % pt[0], top.loc(), 'value type code is not a constant known to the reader: %s' % (w[:1],))
                continue
            rseq, rtype, unf = rarm[code]
            wseq = ' '.join(x[0] for x in w[1:])
            want_type = 'PropertyType::%s' % pt[0]
            if pt == ['String']:
                ok = code in (13, 14, 15) and wseq == 'uint' and rseq == 'uint' and unf and rtype == 'PropertyType::UnsignedInteger'
                what = 'strings are written as PROPSTRING references (13 a-string / 14 b-string / 15 n-string); read_oas keeps the number and queues the value for resolution at END'
            else:
                ok = wseq == rseq and rtype == want_type and not unf
                what = 'code %d carries `%s`; read_oas arm %s reads `%s` into %s' % (code, wseq, dtypes.get(code), rseq, rtype)
            ctx.check(ok, 'R-TABLE', 'roundtrip/PROPERTY-value/%s/%d' % (pt[0], code), top.loc(), what, 'value type %s is written as code %d with fields `%s`; read_oas reads `%s` into %s%s' % (pt[0], code, wseq, rseq, rtype, ' (queued as string reference)' if unf else ''))
    ctx.require('R-TABLE property value arms', n, 6)
    # string class table: binary -> 14, space -> 13, else 15. The arm's classifier is evaluated (sa/minieval.py) on every
    # string of up to 3 bytes over the boundary values of the three byte classes; the first byte handed to oasis_putc
    # is the reference type.
    from .. import minieval as M
    import itertools
    sarm = next((stmts for labels, stmts, top in tables.switch_arms(sw) if [ptypes.get(l) for l in labels] == ['String']), [])
    reps = (0x00, 0x1F, 0x20, 0x21, 0x41, 0x7E, 0x7F, 0xFF)
    bad = None
    nrun = 0

    def putc(callee, args, node):
        if callee == 'gdstk::oasis_putc':
            raise M.Stop(args[0])
        return None
    for ln in range(0, 4):
        for bs in itertools.product(reps, repeat=ln):
            arr = list(bs)
            mi = M.Mini(db, hook=putc, members={'value->bytes': M.Ptr(arr, 0), 'value->count': len(arr)})
            got = None
            try:
                for st in sarm:
                    mi.run(st, {'value': M.Obj(bytes=M.Ptr(arr, 0), count=len(arr))})      # (the value object, should the classifier live in a helper)
            except M.Stop as sp:
                got = sp.v
            except (M._Break, M.Return):
                pass
            want = 14 if any(b < 0x20 or b > 0x7E for b in bs) else (13 if 0x20 in bs else 15)
            nrun += 1
            if got != want and bad is None:
                bad = 'the string with bytes [%s] is written with reference type %s; the format requires %d (%s)' % (' '.join('%02x' % b for b in bs), got, want, {14: 'b-string: it has a non-printable byte', 13: 'a-string: printable with a space', 15: 'n-string: printable, no space'}[want])
    ctx.explored['valuations'] += nrun
    ctx.check(bad is None, 'R-TABLE', 'roundtrip/PROPERTY-string-class', f.loc(), 'binary -> 14 (b-string reference), printable with spaces -> 13 (a-string), printable without spaces -> 15 (n-string), for all %d strings of up to 3 bytes over the class boundary values' % nrun, bad)
    # resolution at END: unfinished values become strings from the PROPSTRING table
    t = norm(clone.canon(rf.body, rf))
    ok = re.search(r'v\d+->type = PropertyType::String', t) is not None and 'property_value_table' in ' '.join(v.n for v in rf.walk() if v.k == 'VarDecl')
    ctx.check(ok, 'R-SHAPE', 'read_oas/END-resolves-propstrings', rf.loc(), 'queued reference values are replaced by the PROPSTRING bytes (type String) at END')


def check_repetition(ctx, db):
    w = db.fn('gdstk::oasis_write_repetition')
    r = db.fn('gdstk::oasis_read_repetition')
    ctx.touch(w)
    ctx.touch(r)
    rt = {c['v']: c['n'] for c in db.enum('gdstk::RepetitionType')['consts']}
    wsw = next((s for s in w.walk() if s.k == 'SwitchStmt' and norm(s.child('cond').text()) == 'repetition.type'), None)
    rsw = next((s for s in r.walk() if s.k == 'SwitchStmt' and norm(s.child('cond').text()) == 'type'), None)
    if wsw is None or rsw is None:
        raise AnalysisBroken('repetition switches not found')
    tables.check_exhaustive(ctx, db, w, 'gdstk::RepetitionType')
    # reader arms: field list with bias/scale per read
    rarms = {}
    for labels, stmts, top in tables.switch_arms(rsw):
        for l in labels:
            rarms[l] = reader_rep_fields(stmts, l)
    ctx.check(set(rarms) == set(range(1, 12)), 'R-EXHAUST', 'oasis_read_repetition/types', rsw.loc(), 'type codes 1..11 are decoded (0 = reuse the modal repetition returns early)', 'decoded type codes: %s' % sorted(rarms))
    t0 = [i for i in r.body.c if i is not None and i.k == 'IfStmt' and norm(i.child('cond').text()) == '(type == 0)']
    clr = [s for s in r.body.c if s is not None and s.k == 'CXXMemberCallExpr' and (s.callee or '').endswith('::clear')]
    ok = len(t0) == 1 and len(clr) == 1 and t0[0].pos < clr[0].pos and any(x.k == 'ReturnStmt' for x in t0[0].child('then').walk())
    ctx.check(ok, 'R-DEP', 'oasis_read_repetition/type0-keeps-modal', r.loc(), 'type 0 returns before the modal repetition is cleared')
    # writer arms
    names = {}
    n = 0
    written = set()
    for labels, stmts, top in tables.switch_arms(wsw):
        kind = [rt.get(l) for l in labels]
        envs = [{}]
        done = []
        while envs:
            env = envs.pop()
            it = O.WInterp(w, env, names)
            try:
                it.run_list(stmts)
                done.append((env, it.ops))
            except O.NeedAtom as na:
                envs.extend(O.fork(env, na.key))
        ctx.explored['valuations'] += len(done)
        for env, ops in done:
            fl = writer_rep_fields(ops)
            if fl is None:
                if any(o[0] in ('uint', 'sint', 'gdelta', 'byte') for o in ops):
                    ctx.violation('R-TABLE', 'oasis_write_repetition/%s' % kind[0], top.loc(), 'fields are written without a leading constant type code')
                continue
            code, wf = fl
            n += 1
            written.add(code)
            inst = 'repetition/%s/type%d/%s' % (kind[0], code, ','.join('%s=%d' % (k.replace('repetition.', '')[:28], v) for k, v in sorted(env.items())))
            if code not in rarms:
                ctx.violation('R-TABLE', inst, top.loc(), 'type code %d is written but not decoded' % code)
                continue
            rf_ = rarms[code]
            msg = compare_rep(wf, rf_, kind[0], code, w)
            ctx.check(msg is None, 'R-TABLE', inst, top.loc(), 'type %d: %s  <->  reader: %s' % (code, show_rep(wf), show_rep(rf_)), msg)
            # reader result kind must enumerate the same offsets: type family table
            want_kind = {1: 'Rectangular', 2: 'Rectangular', 3: 'Rectangular', 4: 'ExplicitX', 6: 'ExplicitY', 8: 'Regular', 9: 'Regular', 10: 'Explicit'}.get(code)
            ctx.check(rf_['kind'] == want_kind, 'R-TABLE', inst + '/kind', top.loc(), 'reader builds a %s repetition for type %d' % (want_kind, code), 'reader builds %s for type %d' % (rf_['kind'], code))
            # unsigned sinks
            for fld in wf:
                if fld['codec'] == 'uint' and fld.get('scaled'):
                    msg = nonneg_proof(fld, env, ops, w)
                    ctx.check(msg is None, 'R-SIGN', inst + '/unsigned:' + fld['arg'][:40], fld['node'].loc(), 'the value written through the unsigned codec is non-negative (guard or sorted difference)', msg)
    ctx.require('R-TABLE repetition writer variants', n, 12)
    ctx.check(written >= {1, 2, 3, 4, 6, 8, 9, 10}, 'R-TABLE', 'oasis_write_repetition/type-coverage', w.loc(), 'writer uses type codes %s' % sorted(written))
    # which axis each type stores
    for code, axis in ((4, 'x'), (6, 'y')):
        rk = rarms[code]['kind']
        ctx.check(rk == ('ExplicitX' if axis == 'x' else 'ExplicitY'), 'R-TABLE', 'oasis_read_repetition/type%d-axis' % code, r.loc(), 'type %d is the %s-axis list' % (code, axis))
    # callers: written only for count > 1, and read under the R bit into the modal repetition then copied
    for label, f, region in writer_regions(db):
        for c in region.walk():
            if c.k == 'CallExpr' and c.callee == 'gdstk::oasis_write_repetition':
                g = [norm(a.child('cond').text()) for a in c.ancestors() if a.k == 'IfStmt']
                ok = any(x == 'has_repetition' for x in g)
                ctx.check(ok, 'R-DEP', 'write_repetition-guard/%s@%s' % (label, c.loc()), c.loc(), 'the repetition field is written under the same flag that set the R bit')
    hr = []
    for qn in ('gdstk::Polygon::to_oas', 'gdstk::FlexPath::to_oas', 'gdstk::RobustPath::to_oas', 'gdstk::Library::write_oas'):
        f = db.fn(qn)
        for v in f.walk():
            if v.k == 'VarDecl' and v.n == 'has_repetition':
                hr.append((qn, norm(v.child('init').text()), v))
    ok = len(hr) >= 5 and all(re.fullmatch(r'\(\w+(->|\.)repetition\.get_count\(\) > 1\)|\(this->repetition\.get_count\(\) > 1\)', t) for _, t, _ in hr)
    ctx.check(ok, 'R-TABLE', 'has_repetition-definition', hr[0][2].loc() if hr else '', 'all %d writers define has_repetition as get_count() > 1 (a single instance has no repetition field)' % len(hr), 'has_repetition definitions: %s' % [t for _, t, _ in hr])


def reader_rep_fields(stmts, label):
    """ordered reads of one reader arm: codec, additive bias, scaled?, in-loop?, destination"""
    fields = []
    kind = None

    def visit(s, in_loop):
        nonlocal kind
        if s is None:
            return
        if s.k in ('ForStmt', 'WhileStmt'):
            for part in ('init', 'cond'):
                if s.child(part) is not None:
                    visit(s.child(part), in_loop)
            visit(s.child('body'), True)
            return
        if s.k == 'IfStmt':
            c = norm(s.child('cond').text())
            # a condition over the type code alone is decided for this arm's code
            try:
                taken = bool(minieval.Mini(None).ev(s.child('cond'), {'type': label}))
            except AnalysisBroken:
                raise AnalysisBroken('oasis_read_repetition: unclassified condition %s' % c)
            if taken:
                visit(s.child('then'), in_loop)
            elif s.child('else') is not None:
                visit(s.child('else'), in_loop)
            return
        if is_assign(s):
            l = norm(s.child('lhs').text())
            if l == 'repetition.type':
                rhs = _strip_casts(s.child('rhs'))
                while rhs is not None and rhs.k in ('ConditionalOperator', 'ParenExpr'):
                    if rhs.k == 'ParenExpr':
                        rhs = _strip_casts(rhs.c[0])
                        continue
                    try:
                        tk = bool(minieval.Mini(None).ev(rhs.child('cond'), {'type': label}))
                    except AnalysisBroken:
                        raise AnalysisBroken('oasis_read_repetition: repetition kind chosen by `%s`' % norm(rhs.child('cond').text()))
                    rhs = _strip_casts(rhs.child('then') if tk else rhs.child('else'))
                kind = norm(rhs.text()).split('::')[-1]
        if s.k == 'CallExpr' and s.callee in O.READ_CODEC:
            codec = O.READ_CODEC[s.callee]
            bias = 0
            scaled = False
            p = s.parent
            cur = s
            dest = None
            while p is not None and p.k not in ('CompoundStmt', 'ForStmt', 'IfStmt', 'CaseStmt', 'DeclStmt'):
                if p.k == 'BinaryOperator' and p.op == '+':
                    o = p.child('lhs') if p.child('rhs') is cur or cur in list(p.child('rhs').walk()) else p.child('rhs')
                    o = _strip_casts(o)
                    if o.cv is not None:
                        bias += o.cv
                if p.k == 'BinaryOperator' and p.op == '*':
                    scaled = True
                if p.k == 'CompoundAssignOperator' and p.op == '*=':
                    scaled = 'grid'
                if is_assign(p) or p.k == 'CompoundAssignOperator':
                    dest = norm(p.child('lhs').text())
                if p.k == 'VarDecl':
                    dest = p.n
                cur = p
                p = p.parent
            if p is not None and p.k == 'DeclStmt':
                v = next((v for v in p.c if v is not None and v.k == 'VarDecl'), None)
                dest = v.n if v is not None else dest
            fields.append({'codec': codec, 'bias': bias, 'scaled': scaled, 'loop': in_loop, 'dest': dest})
            return
        for c in s.c:
            visit(c, in_loop)
    for s in stmts:
        visit(s, False)
    # gdelta results are scaled where used (x, y locals): find `scaling * x`
    txt = ' '.join(norm(x.text()) for s in stmts if s is not None for x in s.walk() if x.k == 'BinaryOperator' and x.op == '*')
    for fd in fields:
        if fd['codec'] == 'gdelta':
            fd['scaled'] = re.search(r'\((scaling|grid_factor) \* x\)', txt) is not None and re.search(r'\((scaling|grid_factor) \* y\)', txt) is not None
    return {'fields': fields, 'kind': kind}


def writer_rep_fields(ops):
    code = None
    out = []
    depth = 0
    for o in ops:
        if o[0] == 'loop-begin':
            depth += 1
        elif o[0] == 'loop-end':
            depth -= 1
        elif o[0] == 'byte' and code is None:
            if o[1][1] != 0:
                return None
            code = o[1][0]
        elif o[0] in ('uint', 'sint', 'gdelta', 'real', 'byte'):
            if code is None:
                return None
            node = o[2]
            if o[0] == 'gdelta':
                args = [norm(a.text()) for a in node.args[1:]]
                out.append({'codec': 'gdelta', 'arg': ', '.join(args), 'scaled': all(('llround(' in a and '* scaling' in a) or a == '0' for a in args), 'loop': depth > 0, 'node': node, 'bias': 0})
            else:
                a = o[1] if isinstance(o[1], str) else ''
                m = re.fullmatch(r'\((.+) - (\d+)\)', a)
                out.append({'codec': o[0], 'arg': a, 'scaled': 'llround(' in a and '* scaling' in a, 'loop': depth > 0, 'node': node, 'bias': int(m.group(2)) if m else 0, 'base': m.group(1) if m else a})
    if code is None:
        return None
    return code, out


def show_rep(x):
    fl = x['fields'] if isinstance(x, dict) else x
    return ' '.join('%s%s%s%s' % ('{' if f['loop'] else '', f['codec'], ('%+d' % (f['bias'] if isinstance(x, dict) else -f['bias'])) if f['bias'] else '', '}*' if f['loop'] else '') for f in fl)


def axes_of(text, fn, depth=2):
    """lattice axes a writer argument depends on: 1 = columns / v1 / spacing.x, 2 = rows / v2 / spacing.y (locals resolved through their initialisers)"""
    out = set()
    if re.search(r'\bcolumns\b|\bv1\b|spacing\.x', text):
        out.add(1)
    if re.search(r'\brows\b|\bv2\b|spacing\.y', text):
        out.add(2)
    if depth:
        for v in fn.walk():
            if v.k == 'VarDecl' and v.child('init') is not None and re.search(r'(?<![\w.>])%s\b' % re.escape(v.n), text):
                out |= axes_of(norm(v.child('init').text()), fn, depth - 1)
    return out


def compare_rep(wf, rarm, kind, code, fn=None):
    rf_ = [f for f in rarm['fields']]
    # explicit lists: writer `X {X}*` (first element + differences) <-> reader `{X}*` with count = 1 + d
    w = list(wf)
    r = list(rf_)
    if code in (4, 6, 10):
        if len(w) != 3 or w[0]['codec'] != 'uint' or w[1]['loop'] or not w[2]['loop'] or w[1]['codec'] != w[2]['codec']:
            return 'explicit list is not written as `count-1, first, {difference}*`: %s' % show_rep(w)
        if len(r) != 2 or r[0]['codec'] != 'uint' or not r[1]['loop'] or r[1]['codec'] != w[1]['codec']:
            return 'reader does not consume `dimension, {element}*` with the writer\'s codec: %s' % show_rep(rarm)
        # elements written = 1 + loop trips; loop trips = base(count) - 1; dimension = count - 1; reader trips = bias + dimension
        loop = next((a for a in w[2]['node'].ancestors() if a.k == 'ForStmt'), None)
        iv = next((v for v in loop.child('init').walk() if v.k == 'VarDecl'), None) if loop is not None and loop.child('init') is not None else None
        trips = norm(iv.child('init').text()) if iv is not None else ''
        m = re.fullmatch(r'\((.+)\.count - (\d+)\)', trips)
        d = re.fullmatch(r'(.+)\.count', w[0].get('base', ''))
        if not m or not d:
            return 'cannot relate the dimension field `%s` and the loop trip count `%s` to an array count' % (w[0]['arg'], trips)
        elements_minus_count = 1 - int(m.group(2))        # written elements - count
        dim_minus_count = -w[0]['bias']                     # dimension - count
        # reader elements = r.bias + dimension
        if elements_minus_count - dim_minus_count != r[0]['bias']:
            return 'writer stores dimension = count%+d and writes count%+d elements; the reader consumes dimension%+d elements' % (dim_minus_count, elements_minus_count, r[0]['bias'])
        if not (w[1]['scaled'] and w[2]['scaled'] and r[1]['scaled']):
            return 'explicit coordinates are not scaled symmetrically'
        return None
    if [f['codec'] for f in w] != [f['codec'] for f in r]:
        return 'field codecs differ: written %s, read %s' % (show_rep(w), show_rep(rarm))
    if fn is not None:
        counts = [f for f in w if f['codec'] == 'uint' and not f['scaled']]
        vectors = [f for f in w if f['scaled']]
        if len(counts) == len(vectors):
            for c_, v_ in zip(counts, vectors):
                ac, av = axes_of(c_['arg'], fn), axes_of(v_['arg'], fn)
                if ac != av or not ac:
                    return 'the count `%s` runs along lattice axis %s but is paired with the step `%s` of axis %s' % (c_['arg'], sorted(ac), v_['arg'][:60], sorted(av))
    rdest = [(f['dest'] or '') for f in r if f['codec'] == 'uint' and not f['scaled']]
    rvec = [(f['dest'] or '') for f in r if f['codec'] == 'uint' and f['scaled']]
    for c_, v_ in zip(rdest, rvec):
        ac = {1} if 'columns' in c_ else ({2} if 'rows' in c_ else set())
        av = {1} if c_ and v_.endswith('.x') else ({2} if v_.endswith('.y') else set())
        av = {1} if v_.endswith('.x') else ({2} if v_.endswith('.y') else set())
        if ac != av:
            return 'reader stores the count in `%s` but the step in `%s`' % (c_, v_)
    for a, b in zip(w, r):
        if a['loop'] != b['loop']:
            return 'loop structure differs'
        if a['codec'] == 'uint' and not a['scaled']:
            if a['bias'] != b['bias']:
                return 'count field `%s` is stored with bias -%d but re-loaded with bias +%d' % (a['arg'], a['bias'], b['bias'])
        if a['codec'] == 'uint' and a['scaled'] != bool(b['scaled']):
            return 'field `%s`: scaling is not symmetric' % a['arg']
    return None


def nonneg_proof(fld, env, ops, fn):
    a = fld['arg']
    m = re.search(r'llround\(\((.+) \* scaling\)\)', a)
    if not m:
        return 'cannot find the scaled operand in `%s`' % a
    e = m.group(1)
    e_flat = e.replace('(', '').replace(')', '')
    for k, v in env.items():
        k2 = (norm(k) if isinstance(k, str) else '').replace('(', '').replace(')', '')
        parts = re.findall(r'([\w\.\*\->\[\]]+) (>=|<|>) 0', k2)
        # conjunctions: every conjunct holds when the composite atom is true
        if v is True:
            for lhs, op, in parts:
                if lhs == e_flat and op in ('>=', '>'):
                    return None
        if v is False and '&&' not in k2 and '||' not in k2:
            for lhs, op in parts:
                if lhs == e_flat and op == '<':
                    return None
    m2 = re.fullmatch(r'\*(\w+)(?:\+\+)? - \*(\w+)(?:\+\+)?', e_flat)
    if m2:
        # successive difference after sort(items, n): the two cursors walk the same sorted array, the minuend's never behind
        srt = [c for c in fn.walk() if c.k == 'CallExpr' and (c.callee or '').endswith('sort')]
        node = fld['node']
        arm = next((x for x in node.ancestors() if x.k == 'IfStmt' and norm(x.child('cond').text()).endswith('.count > 0)')), None)
        if arm is not None and any(s_ in list(arm.walk()) and s_.pos < node.pos for s_ in srt):
            gap = cursor_gap(arm, node, m2.group(1), m2.group(2))
            if gap is not None and gap >= 0:
                return None
    return 'the unsigned-integer sink receives `%s`, which no enclosing guard shows to be non-negative (a negative value is cast to a huge unsigned number)' % e


def cursor_gap(arm, node, hi, lo):
    """hi - lo (in elements) when `node` is evaluated, for two pointer locals of `arm` that walk one array: the difference is
    followed through declarations, assignments and increments in source order; the loop around `node` must restore it
    (loop invariant). None when it cannot be established."""
    def key(e):
        e = _strip_casts(e)
        while e is not None and e.k == 'ParenExpr':
            e = _strip_casts(e.c[0])
        return e.n if e is not None and e.k == 'DeclRefExpr' else None

    def offset_of(e, base):
        """e == base + k -> k"""
        e = _strip_casts(e)
        while e is not None and e.k == 'ParenExpr':
            e = _strip_casts(e.c[0])
        if e is None:
            return None
        if key(e) == base:
            return 0
        if e.k == 'BinaryOperator' and e.op in ('+', '-'):
            l, r = e.child('lhs'), e.child('rhs')
            if key(l) == base and _strip_casts(r).cv is not None:
                return _strip_casts(r).cv if e.op == '+' else -_strip_casts(r).cv
            if e.op == '+' and key(r) == base and _strip_casts(l).cv is not None:
                return _strip_casts(l).cv
        return None

    class Unknown(Exception):
        pass

    def apply(x, d):
        """effect of one write on d = hi - lo"""
        if x.k == 'UnaryOperator' and x.op in ('++', 'post++', '--', 'post--'):
            k = key(x.child('sub'))
            step = 1 if '++' in x.op else -1
            if k == hi:
                return None if d is None else d + step
            if k == lo:
                return None if d is None else d - step
            return d
        tgt = src = None
        if x.k == 'VarDecl' and x.n in (hi, lo):
            tgt, src = x.n, x.child('init')
        elif is_assign(x) and x.op == '=' and key(x.child('lhs')) in (hi, lo):
            tgt, src = key(x.child('lhs')), x.child('rhs')
        elif x.k == 'CompoundAssignOperator' and key(x.child('lhs')) in (hi, lo):
            k = _strip_casts(x.child('rhs')).cv
            if k is None or d is None or x.op not in ('+=', '-='):
                return None
            k = k if x.op == '+=' else -k
            return d + k if key(x.child('lhs')) == hi else d - k
        if tgt is None:
            return d
        other = lo if tgt == hi else hi
        o = offset_of(src, other) if src is not None else None
        if o is None:
            return None
        return o if tgt == hi else -o

    def writes(st):
        return [x for x in st.walk() if (x.k == 'UnaryOperator' and x.op in ('++', 'post++', '--', 'post--') and key(x.child('sub')) in (hi, lo))
                or (x.k == 'VarDecl' and x.n in (hi, lo)) or ((is_assign(x) or x.k == 'CompoundAssignOperator') and key(x.child('lhs')) in (hi, lo))]

    found = [None]

    def seq(stmts, d):
        for st in stmts:
            if st is None:
                continue
            d = stmt(st, d)
        return d

    def stmt(st, d):
        inside = any(n is node for n in st.walk())
        if st.k == 'CompoundStmt':
            return seq(st.c, d)
        if st.k in ('ForStmt', 'WhileStmt', 'DoStmt'):
            if st.child('init') is not None:
                d = stmt(st.child('init'), d)
            if not writes(st.child('body')) and not (st.child('inc') is not None and writes(st.child('inc'))):
                if inside:
                    found[0] = d
                return d
            d0 = d
            d = stmt(st.child('body'), d0)
            if st.child('inc') is not None:
                for x in writes(st.child('inc')):
                    d = apply(x, d)
            if d != d0:
                raise Unknown()          # not an invariant of the loop
            return d0
        if st.k in ('IfStmt', 'SwitchStmt'):
            if inside:
                # only the branch holding the node matters for the value at the node; the others must not disturb it
                for part in ('then', 'else', 'body'):
                    c = st.child(part)
                    if c is not None and any(n is node for n in c.walk()):
                        d_in = stmt(c, d)
                        others = [st.child(p_) for p_ in ('then', 'else', 'body') if p_ != part and st.child(p_) is not None]
                        if any(writes(o) for o in others) and any(stmt(o, d) != d_in for o in others):
                            raise Unknown()
                        return d_in
            if writes(st):
                raise Unknown()
            return d
        ws = writes(st)
        if inside:
            # post-increments leave the operand values of this evaluation untouched; anything else in the same statement does not
            if any(not (x.k == 'UnaryOperator' and x.op.startswith('post')) for x in ws):
                raise Unknown()
            found[0] = d
        for x in ws:
            d = apply(x, d)
        return d
    try:
        body = arm.child('then')
        stmt(body, None)
    except Unknown:
        return None
    return found[0]


def check_path_extensions(ctx, db):
    names = {c['v']: c['n'] for c in db.enum('gdstk::OasisRecord')['consts']}
    et = {c['v']: c['n'] for c in db.enum('gdstk::EndType')['consts']}
    n = 0
    for qn in ('gdstk::FlexPath::to_oas', 'gdstk::RobustPath::to_oas'):
        f = db.fn(qn)
        ctx.touch(f)
        atoms, res = O.interpret_writer(f, f.body, names)
        bad = []
        seen = set()
        kinds = {}
        for env, ops in res:
            for inst in O.record_instances(ops):
                if inst['record'] != 'PATH':
                    continue
                o = [x for x in inst['ops'] if x[0] not in ('loop-begin', 'loop-end')]
                guards = [x for x in o if x[0] == 'guard']
                flds = [x for x in o if x[0] != 'guard']
                # info, layer, datatype, halfwidth, scheme, [sint]*, plist
                if [x[0] for x in flds[:5]] != ['byte', 'uint', 'uint', 'uint', 'byte']:
                    bad.append('unexpected PATH layout %s' % [x[0] for x in flds[:6]])
                    continue
                scheme = flds[4][1]
                k = next((i for i, x in enumerate(flds) if x[0] == 'plist'), len(flds))
                ext = flds[5:k]
                key = (scheme, tuple(x[1] for x in ext))
                endt = next((g[2] for g in guards if g[1].startswith('switch:') and 'end_type' in g[1]), None)
                kinds.setdefault(endt, set()).add(scheme)
                if key in seen:
                    continue
                seen.add(key)
                n += 1
                if scheme[1]:
                    bad.append('extension scheme byte not determined on this path: %s' % (scheme,))
                    continue
                sv = scheme[0]
                ss, ee = (sv >> 2) & 3, sv & 3
                if ss == 0 or ee == 0 or sv >> 4:
                    bad.append('scheme 0x%02X leaves an extension to the modal variable (the info byte says explicit)' % sv)
                want = (['u'] if ss == 3 else []) + (['v'] if ee == 3 else [])
                if [x[0] for x in ext] != ['sint'] * len(want):
                    bad.append('scheme 0x%02X announces %d explicit extension(s) but %d are written (%s)' % (sv, len(want), len(ext), [x[1] for x in ext]))
                    continue
                for role, x in zip(want, ext):
                    src = x[1]
                    vd = next((v for v in f.walk() if v.k == 'VarDecl' and v.n == src and v.child('init') is not None), None)
                    t = norm(vd.child('init').text()) if vd is not None else src
                    if ('end_extensions.%s' % role) not in t or 'llround(' not in t:
                        bad.append('scheme 0x%02X: the %s extension is written from `%s`' % (sv, 'start' if role == 'u' else 'end', t))
        # end type table
        tab = {}
        for endt, schemes in kinds.items():
            labs = [et.get(int(x)) if x.isdigit() else x for x in (endt or '').split('|')]
            tab[tuple(labs)] = sorted(s[0] for s in schemes)
        ok_tab = True
        for labs, schemes in tab.items():
            if 'Extended' in labs:
                ok_tab = ok_tab and set(schemes) == {0x05, 0x06, 0x07, 0x09, 0x0A, 0x0B, 0x0D, 0x0E, 0x0F}
            elif 'HalfWidth' in labs:
                ok_tab = ok_tab and schemes == [0x0A]
            else:
                ok_tab = ok_tab and schemes == [0x05] and 'default' in labs
        ctx.check(not bad and ok_tab and len(tab) == 3, 'R-TABLE', 'roundtrip/PATH-extension/%s' % qn.replace('gdstk::', ''), f.loc(),
                  'Flush -> 0x05, HalfWidth -> 0x0A, Extended -> SS/EE computed; an explicit signed extension follows exactly for nibble value 3, start before end, taken from end_extensions.u / .v',
                  '; '.join(bad[:3]) or 'end-type table %s' % tab)
    ctx.require('R-TABLE PATH extension variants', n, 18)
    # reader side: end type reconstructed from the modal extensions
    r = db.fn('gdstk::read_oas')
    rf, names_, arms = reader_arms(db)
    stmts = arms['PATH'][1]
    t = re.sub(r'\s+', ' ', norm(clone.canon(next(s for s in stmts if s is not None), r)))
    ok = 'EndType::HalfWidth' in t and 'EndType::Extended' in t and 'EndType::Flush' in t
    ctx.check(ok, 'R-TABLE', 'read_oas/PATH-end-type', arms['PATH'][2].loc(), 'the end type is reconstructed from the two extensions (both 0 -> Flush, both half width -> HalfWidth, else Extended)')
    # reader: SS / EE decode consumes a signed integer exactly for nibble value 3
    sws = [s_ for st in stmts for s_ in st.walk() if s_.k == 'SwitchStmt' and 'extension_scheme' in s_.child('cond').text()]
    ok = len(sws) == 2
    got = []
    for s_, mask, three in zip(sws, (0x0C, 0x03), (0x0C, 0x03)):
        arms_ = {tuple(l): O.seq_of(st_) for l, st_, t_ in tables.switch_arms(s_)}
        got.append((O.info_mask(s_.child('cond'), 'extension_scheme'), arms_))
        ok = ok and O.info_mask(s_.child('cond'), 'extension_scheme') == mask and all((seq == 'sint') == (labs == (three,)) and seq in ('', 'sint') for labs, seq in arms_.items()) and (three,) in arms_
    dst = [norm(x.child('lhs').text()) for s_ in sws for x in s_.walk() if is_assign(x) and 'oasis_read' in x.child('rhs').text()]
    ctx.check(ok and dst == ['modal_path_extensions.u', 'modal_path_extensions.v'], 'R-TABLE', 'read_oas/PATH-extension-decode', arms['PATH'][2].loc(), 'the start (SS) then the end (EE) extension is read as a signed integer exactly when its two scheme bits are 11', 'extension decode: %s -> %s' % (got, dst))
    # half-width sink
    for qn, pat in (('gdstk::FlexPath::to_oas', r'llround\(\(.*half_width_and_offset\[0\]\.u \* state\.scaling\)\)'), ('gdstk::RobustPath::to_oas', r'llround\(\(+0\.5 \* interp\(el->width_array\[0\], 0\)\) \* this->width_scale\) \* state\.scaling\)\)')):
        f = db.fn(qn)
        hw = next((v for v in f.walk() if v.k == 'VarDecl' and v.n == 'half_width' and v.child('init') is not None), None)
        t = norm(hw.child('init').text()) if hw is not None else ''
        ctx.check(re.search(pat, t) is not None, 'R-UNIT', 'roundtrip/PATH-half-width/%s' % qn.replace('gdstk::', ''), hw.loc() if hw is not None else f.loc(), 'the PATH half-width field receives half of the path width (FlexPath stores half widths; RobustPath stores full widths)',
                  'half_width is computed as `%s`' % t)
    hw_r = [c for s in stmts for c in s.walk() if c.k == 'CXXMemberCallExpr' and (c.callee or '').endswith('::append') and norm(c.child('obj').text()).endswith('half_width_and_offset')]
    ok = len(hw_r) == 1 and re.fullmatch(r'\(?Vec2\)?\{+modal_path_halfwidth, 0\}+', norm(hw_r[0].args[0].text())) is not None
    ctx.check(ok, 'R-UNIT', 'read_oas/PATH-half-width', arms['PATH'][2].loc(), 'the loaded FlexPath element takes its half width from the half-width field')


def check_angle(ctx, db):
    w = db.fn('gdstk::Library::write_oas')
    r = db.fn('gdstk::read_oas')
    from .C19 import ieval
    aa = [x for x in w.walk() if x.k == 'CompoundAssignOperator' and x.op == '|=' and norm(x.child('lhs').text()) == 'info' and '<< 1' in norm(x.child('rhs').text())]
    if len(aa) != 2:
        raise AnalysisBroken('write_oas: PLACEMENT angle code statements not found')
    outer = next((a for a in aa[0].ancestors() if a.k == 'IfStmt' and a.child('else') is not None and any(x is aa[1] for x in a.walk())), None)
    if outer is None:
        raise AnalysisBroken('write_oas: angle code branches not under one test')
    from . import C04 as _C04
    table = _C04.reader_angle_table(db)
    bad = []
    for m in range(-9, 10):
        env = {'m': m}
        cond = bool(c_eval(outer.child('cond'), env, ieval))
        st = aa[0] if any(x is aa[0] for x in (outer.child('then').walk() if cond else outer.child('else').walk())) else aa[1]
        code = c_eval(st.child('rhs'), env, ieval) & 0xFF
        q = table.get(code & 0x06)
        if code & ~0x06 or q is None or abs(q - (m % 4)) > 1e-9:
            bad.append('m = %d quarter turns -> code 0x%02X -> reader angle %s x 90 degrees' % (m, code, q))
    ctx.explored['valuations'] += 19
    ctx.check(not bad and len(table) == 4, 'R-TABLE', 'roundtrip/PLACEMENT-angle', aa[0].loc(), 'for m = -9..9 quarter turns the AA code written decodes to m mod 4 quarter turns', '; '.join(bad[:3]))
    # rotation in degrees on both sides of PLACEMENT_TRANSFORM
    wr = [c for c in w.walk() if c.k == 'CallExpr' and c.callee == 'gdstk::oasis_write_real' and 'rotation' in c.args[1].text()]
    rr = [x for x in r.walk() if is_assign(x) and norm(x.child('lhs').text()).endswith('->rotation') and 'oasis_read_real' in x.child('rhs').text()]
    ok = len(wr) == 1 and len(rr) == 1
    if ok:
        a = _strip_casts(wr[0].args[1])
        b = _strip_casts(rr[0].child('rhs'))
        fa = next((x.fv for x in (a.child('lhs'), a.child('rhs')) if x.fv is not None), None) if a.k == 'BinaryOperator' and a.op == '*' else None
        fb = next((x.fv for x in (b.child('lhs'), b.child('rhs')) if x.fv is not None), None) if b.k == 'BinaryOperator' and b.op == '*' else None
        ok = fa is not None and fb is not None and abs(fa * fb - 1) < 1e-12 and abs(fa - 57.29577951308232) < 1e-9
    ctx.check(ok, 'R-UNIT', 'roundtrip/PLACEMENT-rotation-degrees', w.loc(), 'rotation is written in degrees (x 180/pi) and read back x pi/180')
    # x_reflection flag bit
    fb_ = [x for x in w.walk() if x.k == 'CompoundAssignOperator' and x.op == '|=' and norm(x.child('lhs').text()) == 'info' and x.child('rhs').cv == 1 and any(a.k == 'IfStmt' and norm(a.child('cond').text()).endswith('->x_reflection') for a in x.ancestors())]
    rx = [x for x in r.walk() if is_assign(x) and norm(x.child('lhs').text()).endswith('->x_reflection')]
    ok = len(fb_) == 1 and len(rx) == 1 and re.search(r'info & 1\b', norm(rx[0].child('rhs').text())) is not None
    ctx.check(ok, 'R-TABLE', 'roundtrip/PLACEMENT-flip-bit', w.loc(), 'x_reflection <-> F bit (0x01) on both sides')


def c_eval(e, env, ieval):
    """ieval with C truncating division/modulo"""
    e = _strip_casts(e)
    if e.k == 'BinaryOperator' and e.op in ('%', '/'):
        a, b = c_eval(e.child('lhs'), env, ieval), c_eval(e.child('rhs'), env, ieval)
        q = abs(a) // abs(b) * (1 if (a >= 0) == (b >= 0) else -1)
        return q if e.op == '/' else a - q * b
    if e.k == 'BinaryOperator' and e.op in ('&&', '||', '+', '-', '*', '&', '|', '<<', '>>', '<', '>', '<=', '>=', '==', '!='):
        import operator as op
        a, b = c_eval(e.child('lhs'), env, ieval), c_eval(e.child('rhs'), env, ieval)
        fn = {'&&': lambda x, y: int(bool(x) and bool(y)), '||': lambda x, y: int(bool(x) or bool(y)), '+': op.add, '-': op.sub, '*': op.mul, '&': op.and_, '|': op.or_, '<<': op.lshift, '>>': op.rshift,
              '<': op.lt, '>': op.gt, '<=': op.le, '>=': op.ge, '==': op.eq, '!=': op.ne}[e.op]
        return int(fn(a, b))
    if e.cv is not None and e.k != 'DeclRefExpr':
        return e.cv
    if e.k == 'DeclRefExpr' and e.n in env:
        return env[e.n]
    if e.k == 'UnaryOperator':
        v = c_eval(e.child('sub'), env, ieval)
        return {'-': -v, '!': int(not v), '~': ~v, '+': v}[e.op]
    raise AnalysisBroken('expression not evaluable: %s' % e.text()[:80])


WRITER_ROOT = 'gdstk::Library::write_oas'
STDIO_OUT = {'fwrite', 'fputc', 'putc', 'fputs', 'fprintf', 'fputc_unlocked', 'putc_unlocked', 'fwrite_unlocked', 'vfprintf', 'putw'}


def reachable(db, root):
    seen = {}
    work = [db.fn(root)]
    while work:
        f = work.pop()
        if f.qn in seen:
            continue
        seen[f.qn] = f
        for c in f.walk():
            if c.k in ('CallExpr', 'CXXMemberCallExpr', 'CXXOperatorCallExpr') and c.callee and c.callee.startswith('gdstk::'):
                for g in db.fn(c.callee, all=True, required=False) or []:
                    if g.qn not in seen and g.body is not None:
                        work.append(g)
    return seen


def check_signature(ctx, db):
    fns = reachable(db, WRITER_ROOT)
    ctx.require('R-EFFECT functions reachable from write_oas', len(fns), 40)
    n = 0
    sig_writes = 0
    for qn, f in sorted(fns.items()):
        ctx.touch(f)
        for c in f.walk():
            if c.k == 'CallExpr' and c.callee in STDIO_OUT:
                stream = norm(c.args[-1].text()) if c.callee in ('fwrite', 'fputc', 'putc', 'fputs', 'fwrite_unlocked', 'putw') else norm(c.args[0].text())
                if c.callee in ('putc', 'fputc'):
                    stream = norm(c.args[1].text())
                if stream == 'error_logger':
                    continue
                n += 1
                inside = qn in ('gdstk::oasis_write', 'gdstk::oasis_putc')
                sig = c.callee == 'fwrite' and norm(c.args[0].text()).endswith('&out.signature)') or norm(c.args[0].text()) == '(&out.signature)'
                if sig and qn == WRITER_ROOT:
                    sig_writes += 1
                    continue
                # writers of other formats reachable through shared helpers write to their own FILE* parameter
                if not inside and stream in ('out', 'file') and f.param(stream) is not None and 'FILE' in (f.param(stream).t or ''):
                    ctx.ok('R-EFFECT', '%s/%s@%s' % (qn, c.callee, c.loc()), c.loc(), 'writes to its own FILE* parameter, not the OASIS stream')
                    continue
                ctx.check(inside, 'R-EFFECT', '%s/%s@%s' % (qn, c.callee, c.loc()), c.loc(), 'raw stdio write to the OASIS file happens inside the signature accumulator',
                          '%s(%s) writes to the OASIS file behind the back of oasis_write/oasis_putc: the bytes are not part of the CRC32/CHECKSUM32 signature' % (c.callee, stream))
    ctx.check(sig_writes == 2, 'R-EFFECT', 'write_oas/signature-bytes', db.fn(WRITER_ROOT).loc(), 'exactly the two signature words bypass the accumulator', '%d raw signature writes' % sig_writes)
    ctx.require('R-EFFECT stdio writes examined', n, 4)
    # the accumulator itself, by interpretation (sa/oasacc.py): in every state of the stream - CBLOCK buffer armed (room left, exact
    # fit, overflow), CRC32, CHECKSUM32, no validation - oasis_write and oasis_putc put exactly the bytes they are given into the
    # buffer resp. the file, feed exactly those bytes once and in order to the signature (CRC in chunks an unsigned int holds;
    # CHECKSUM32 = running sum modulo 2^32, interpreted itself), and leave file and signature alone while buffering
    from .. import oasacc
    problems, runs = oasacc.accumulator_model(db)
    for qn in ('gdstk::oasis_write', 'gdstk::oasis_putc', 'gdstk::checksum32'):
        ctx.touch(db.fn(qn))
    ctx.explored['valuations'] += runs
    for qn in ('gdstk::oasis_write', 'gdstk::oasis_putc'):
        mine = [p_ for p_ in problems if p_.startswith(qn.replace('gdstk::', '')) or p_.startswith(qn)]
        ctx.check(not mine, 'R-MODEL.accumulator', qn.replace('gdstk::', '') + '/bytes-file-signature', db.fn(qn).loc(),
                  'in every stream state the bytes go to the buffer or to the file and - exactly once, in order - into the selected signature', '; '.join(mine[:2]))
    ctx.require('R-MODEL.accumulator runs', runs, 76)


def check_cblock(ctx, db):
    w = db.fn(WRITER_ROOT)
    asg = [x for x in w.walk() if is_assign(x) and norm(x.child('lhs').text()) == 'out.cursor']
    vals = [(norm(x.child('rhs').text()), [norm(a.child('cond').text()) for a in x.ancestors() if a.k == 'IfStmt'], x) for x in asg]
    init = [v for v in vals if v[0] in ('NULL', '__null', '0', 'nullptr') and not v[1]]
    start = [v for v in vals if v[0] == 'out.data']
    stop = [v for v in vals if v[0] in ('NULL', '__null', '0', 'nullptr') and v[1]]
    ok = len(init) == 1 and len(start) == 1 and len(stop) == 1 and start[0][1] == ['(compression_level > 0)'] and stop[0][1] == ['(compression_level > 0)']
    ctx.check(ok, 'R-PAIR', 'write_oas/cblock-cursor', w.loc(), 'the buffer cursor is NULL initially, armed once per cell and disarmed once per cell under the same `compression_level > 0` test', 'cursor stores: %s' % [(v[0], v[1]) for v in vals])
    if ok:
        cb = next((c for c in w.walk() if c.k == 'CallExpr' and c.callee == 'gdstk::oasis_putc' and 'OasisRecord::CBLOCK' in norm(c.args[0].text())), None)
        okb = cb is not None and stop[0][2].pos < cb.pos and start[0][2].pos < stop[0][2].pos
        # same loop body
        lp = lambda x: next((a for a in x.ancestors() if a.k == 'ForStmt'), None)
        okb = okb and lp(start[0][2]) is lp(stop[0][2]) and lp(cb) is lp(stop[0][2])
        sz = next((v for v in w.walk() if v.k == 'VarDecl' and v.n == 'uncompressed_size'), None)
        okb = okb and sz is not None and norm(sz.child('init').text()) == '(out.cursor - out.data)' and sz.pos < stop[0][2].pos
        ctx.check(okb, 'R-DEP', 'write_oas/cblock-header-unbuffered', cb.loc() if cb is not None else w.loc(), 'the buffered size is taken, then the cursor is cleared, then the CBLOCK header and the compressed bytes go to the file (and into the signature)')
        # ftell users need an unbuffered stream: cell offsets are taken before the cursor is armed
        co = next((c for c in w.walk() if c.k == 'CallExpr' and c.callee == 'ftell' and lp(c) is lp(start[0][2])), None)
        ctx.check(co is not None and co.pos < start[0][2].pos, 'R-DEP', 'write_oas/cell-offset-unbuffered', w.loc(), 'the cell offset and the CELL record are produced while the stream is unbuffered')
    # CBLOCK header fields and deflate parameters vs the reader
    cb = next((c for c in w.walk() if c.k == 'CallExpr' and c.callee == 'gdstk::oasis_putc' and 'OasisRecord::CBLOCK' in norm(c.args[0].text())), None)
    blk = cb.parent
    seq = []
    for s in blk.c[blk.c.index(cb):]:
        if s is not None and s.k == 'CallExpr' and s.callee in O.WRITE_CODEC:
            seq.append((O.WRITE_CODEC[s.callee], norm(s.args[1].text() if O.WRITE_CODEC[s.callee] in ('uint',) else s.args[0].text())))
    want = [('byte', '(int)OasisRecord::CBLOCK'), ('byte', '0'), ('uint', 'uncompressed_size'), ('uint', 's.total_out'), ('bytes', 'buffer')]
    ctx.check(seq == want, 'R-FIELDSEQ', 'write_oas/CBLOCK-header', cb.loc(), 'CBLOCK: comp-type 0 (deflate), uncomp-byte-count, comp-byte-count, comp-bytes', 'CBLOCK fields: %s' % seq)
    di = next((c for c in w.walk() if c.k == 'CallExpr' and (c.callee or '').startswith('deflateInit2')), None)
    r = db.fn('gdstk::read_oas')
    ii = [c for f in (r, db.fn('gdstk::oasis_read', required=False)) if f is not None for c in f.walk() if c.k == 'CallExpr' and (c.callee or '').startswith('inflateInit2')]
    ok = di is not None and len(ii) >= 1 and di.args[3].cv == -15 and all(c.args[1].cv == -15 for c in ii)
    ctx.check(ok, 'R-CONST', 'roundtrip/CBLOCK-raw-deflate', di.loc() if di is not None else w.loc(), 'raw deflate (window bits -15) on both sides, as the standard requires')
    rf, names, arms = reader_arms(db)
    got = O.seq_of(arms['CBLOCK'][1])
    ctx.check(re.match(r'uint \?\(uint uint\):\(uint uint\)', got) is not None, 'R-FIELDSEQ', 'read_oas/CBLOCK-header', arms['CBLOCK'][2].loc(), 'the reader consumes comp-type, uncomp-byte-count, comp-byte-count (also when it skips an unknown method)', 'reader CBLOCK: %s' % got)


def check_units(ctx, db):
    """integer sinks fed from floating values only through llround(v * scaling)"""
    n = 0
    for qn in ('gdstk::Polygon::to_oas', 'gdstk::FlexPath::to_oas', 'gdstk::RobustPath::to_oas', 'gdstk::Library::write_oas', 'gdstk::oasis_write_repetition', 'gdstk::oasis_write_point_list'):
        for f in db.fn(qn, all=True):
            ctx.touch(f)
            bad = []
            # expressions that reach an integer field: codec arguments, and definitions of the locals passed as codec arguments
            roots = []
            sinkvars = set()
            for c in f.walk():
                if c.k == 'CallExpr' and c.callee in O.WRITE_CODEC and O.WRITE_CODEC[c.callee] in ('uint', 'sint', 'gdelta', '1delta'):
                    for a in c.args[1:]:
                        roots.append(a)
                        a0 = _strip_casts(a)
                        if a0.k == 'DeclRefExpr' and a0.dk == 'local':
                            sinkvars.add(lvalue_key(a0))
            for v in f.walk():
                if v.k == 'VarDecl' and v.child('init') is not None and ('v%d:%s' % (v.d, v.n)) in sinkvars:
                    roots.append(v.child('init'))
                elif is_assign(v) and _strip_casts(v.child('lhs')).k == 'DeclRefExpr' and lvalue_key(_strip_casts(v.child('lhs'))) in sinkvars:
                    roots.append(v.child('rhs'))
            for r_ in roots:
                for c in r_.walk():
                    if c.k in ('ImplicitCastExpr', 'CStyleCastExpr', 'CXXStaticCastExpr', 'CXXFunctionalCastExpr') and (c.cast or '') == 'FloatingToIntegral':
                        bad.append((c.loc(), 'floating value truncated into an integer field: `%s`' % norm(c.text())[:70]))
            for c in f.walk():
                if c.k == 'CallExpr' and c.callee in ('llround', 'lround', 'std::llround'):
                    n += 1
                    a = _strip_casts(c.args[0])
                    t = norm(a.text())
                    if 'scaling' not in t:
                        bad.append((c.loc(), 'llround of an unscaled value `%s`' % t[:60]))
            ctx.check(not bad, 'R-UNIT', 'units/%s' % f.qn.replace('gdstk::', ''), f.loc(), 'no floating value is truncated into an integer field; every llround operand carries the scaling factor', '; '.join('%s %s' % b for b in bad[:3]))
    ctx.require('R-UNIT llround sites', n, 30)
    # scale_and_round_array used by polygons
    f = db.fn('gdstk::scale_and_round_array', required=False)
    if f is not None:
        # interpreted (sa/minieval, IEEE doubles): every coordinate of every point is multiplied by the scaling and rounded to the nearest
        # integer (half away from zero, as llround does), the output has as many points as the input
        import math
        from .. import minieval as M
        ctx.touch(f)
        bad = []
        for pts in ([], [(1.5, -2.5)], [(0.49, 0.5), (-0.3, 0.3), (-0.5, 1000.25), (7.0, -7.0)]):
            for sc in (2.0, 0.5, 1000.0):
                def arr(lst):
                    return M.Obj(items=M.Ptr(lst, 0) if lst else 0, count=len(lst), capacity=len(lst))
                ref = [None]

                def extra(callee, args, node):
                    if (callee or '').split('::')[-1] in ('llround', 'lround'):
                        v = float(args[0])
                        return (int(math.floor(abs(v) + 0.5)) * (1 if v >= 0 else -1),)
                    return None
                mi = M.Mini(db, hook=M.array_hook(ref, extra), budget=50000, c_ints=True)
                mi.obj_store = True
                mi.ieee = True
                ref[0] = mi
                out = arr([])
                try:
                    mi.run(f.body, {f.params[0]['n']: arr([M.Obj(x=x, y=y) for x, y in pts]), f.params[1]['n']: sc, f.params[2]['n']: out})
                except M.Return:
                    pass
                except M.OutOfBounds as ex:
                    bad.append(str(ex))
                    continue
                want = [tuple(int(math.floor(abs(c_ * sc) + 0.5)) * (1 if c_ * sc >= 0 else -1) for c_ in p_) for p_ in pts]
                got = [(o.get('x'), o.get('y')) for o in (out['items'].arr[out['items'].i:out['items'].i + out['count']] if out['count'] else [])]
                if got != want and len(bad) < 2:
                    bad.append('points %s x %s: stored %s, expected %s' % (pts, sc, got, want))
                ctx.explored['valuations'] += 1
        ctx.check(not bad, 'R-UNIT', 'units/scale_and_round_array', f.loc(), 'point arrays are scaled and rounded component-wise to the nearest integer', '; '.join(bad))


def check_detection(ctx, db):
    """shape detection predicates that select compact records"""
    f = db.fn('gdstk::is_circle')
    ctx.touch(f)
    dims.check(ctx, f, {'tolerance': 1, 'radius': 1, 'center': 1, 'point_array': 1}, min_sites=6)
    # decided by interpretation (sa/minieval, IEEE doubles; libm answered by Python's math): a regular 96-gon of radius 10 about (3, -4)
    # with tolerance 0.01 is a circle with that centre and radius; the same polygon with ONE vertex pushed outwards by five tolerances -
    # every vertex in turn - is not (every vertex is tested against the radius); the polygon with one vertex removed, so that one edge
    # is twice as long as the neighbour distance allows - every position in turn, including the gap that falls on the closing edge
    # from the last vertex to the first - is not (every edge of the closed boundary is tested); fewer vertices than the sagitta
    # allows are not
    import math
    from .. import minieval as M

    def circle(pts, tol):
        def arr(lst):
            return M.Obj(items=M.Ptr(lst, 0) if lst else 0, count=len(lst), capacity=len(lst))
        ref = [None]

        def extra(callee, args, node):
            c_ = callee or ''
            short = c_.split('::')[-1]
            if short in ('acos', 'sqrt', 'fabs', 'cos', 'sin', 'hypot') and len(c_.split('::')) <= 2:
                try:
                    return (getattr(math, short)(*[float(a_) for a_ in args]),)
                except ValueError:
                    return (float('nan'),)
            return None
        mi = M.Mini(db, hook=M.array_hook(ref, extra), budget=400000, c_ints=True)
        mi.obj_store = True
        mi.ieee = True
        ref[0] = mi
        center, hold = M.Obj(x=0.0, y=0.0), {'r': 0.0}
        env = {f.params[0]['n']: arr([M.Obj(x=x, y=y) for x, y in pts]), f.params[1]['n']: tol, f.params[2]['n']: center, f.params[3]['n']: M.Ref(hold, 'r')}
        try:
            mi.run(f.body, env)
            rv = None
        except M.Return as r_:
            rv = r_.v
        return bool(rv), (center['x'], center['y']), hold['r']
    N, R, C, TOL = 96, 10.0, (3.0, -4.0), 0.01
    base = [(C[0] + R * math.cos(2 * math.pi * k / N), C[1] + R * math.sin(2 * math.pi * k / N)) for k in range(N)]
    bad = []
    runs = 0
    try:
        ok_, c_, r_ = circle(base, TOL)
        runs += 1
        if not ok_ or math.hypot(c_[0] - C[0], c_[1] - C[1]) > 1e-6 or abs(r_ - R) > 1e-6:
            bad.append('the regular %d-gon of radius %g about %s with tolerance %g: returns %s, centre %s, radius %s' % (N, R, C, TOL, ok_, c_, r_))
        step = 1 if ctx.tier == 'thorough' else 5
        ks = sorted(set(list(range(0, N, step)) + [0, 1, 2, N - 2, N - 1]))
        for k in ks:
            pts = list(base)
            pts[k] = (C[0] + (R + 5 * TOL) * math.cos(2 * math.pi * k / N), C[1] + (R + 5 * TOL) * math.sin(2 * math.pi * k / N))
            runs += 1
            if circle(pts, TOL)[0] and len(bad) < 3:
                bad.append('vertex %d of %d lies five tolerances outside the circle, yet the polygon is taken for a circle: that vertex is not tested against the radius' % (k, N))
            pts = base[:k] + base[k + 1:]
            runs += 1
            if circle(pts, TOL)[0] and len(bad) < 3:
                bad.append('without vertex %d the edge %s is twice the allowed neighbour distance, yet the polygon is taken for a circle: that edge is not tested' % (k, 'from the last vertex to the first' if k in (0, N - 1) else '%d-%d' % (k - 1, k)))
        runs += 1
        if circle(base[::2], TOL)[0]:
            bad.append('%d vertices on a circle of radius %g are accepted with tolerance %g: fewer than the sagitta allows' % (N // 2, R, TOL))
    except M.OutOfBounds as ex:
        bad.append(str(ex))
    ctx.explored['valuations'] += runs
    ctx.check(not bad, 'R-LOOP', 'is_circle/closed-boundary', f.loc(), 'interpreted on %d polygons: every vertex is tested against the radius and every edge of the closed boundary, including last->first, against the neighbour distance' % runs, '; '.join(bad[:2]))

    # Polygon::to_oas consults the detectors only under their option
    p = db.fn('gdstk::Polygon::to_oas')
    cond = {}
    for i in p.walk():
        if i.k == 'IfStmt':
            c = norm(i.child('cond').text())
            for nm in ('is_rectangle', 'is_trapezoid', 'is_circle'):
                if nm + '(' in c:
                    cond[nm] = c
    ok = len(cond) == 3 and cond['is_rectangle'].startswith('((state.config_flags & 16) && ') and cond['is_trapezoid'].startswith('((state.config_flags & 32) && ') and cond['is_circle'].startswith('((state.circle_tolerance > 0) && ') and 'state.circle_tolerance' in cond['is_circle'].split('is_circle(')[1]
    ctx.check(ok, 'R-DEP', 'Polygon::to_oas/detection-options', p.loc(), 'rectangle, trapezoid and circle detection run only under DETECT_RECTANGLES (0x10), DETECT_TRAPEZOIDS (0x20) and circle_tolerance > 0, and the circle test uses that tolerance', 'detector guards: %s' % cond)


def check_validator(ctx, db):
    """writer signature <-> oas_validate: same coverage (all bytes up to and including the validation-scheme byte),
    same initial values, same byte order, same scheme codes"""
    v = db.fn('gdstk::oas_validate')
    w = db.fn(WRITER_ROOT)
    ctx.touch(v)
    seek = next((c for c in v.walk() if c.k == 'CallExpr' and (c.callee or '') in ('fseeko', 'fseek', 'fseeko64', '_fseeki64') and c.args[2].cv == 2), None)
    size = next((x for x in v.walk() if x.k == 'VarDecl' and x.n == 'size' and x.child('init') is not None), None)
    fs = next((x for x in v.walk() if x.k == 'VarDecl' and x.n == 'file_sum'), None)
    ok = seek is not None and seek.args[1].cv == -5 and size is not None and re.fullmatch(r'\(?(\(uint64_t\))?\(?ftell\(in\) \+ 1\)?\)?', norm(size.child('init').text())) is not None and fs is not None and '[5]' in (fs.t or '')
    ctx.check(ok, 'R-CONST', 'oas_validate/coverage', v.loc(), 'the validator signs file length - 4 bytes: everything up to and including the validation-scheme byte, which is what passes through the writer\'s accumulator', 'seek %s, size %s' % (seek and seek.args[1].cv, size and norm(size.child('init').text())))
    arms = {}
    from ..facts import expr_text
    hook, _drop = clone.temps(v, [v.body], None, pointers=True)     # named const temporaries read as their initialisers
    tx = lambda e: norm(expr_text(e, None, hook))
    for i in v.walk():
        if i.k == 'IfStmt':
            m = re.fullmatch(r'\(file_sum\[0\] == (\d+)\)', tx(i.child('cond')))
            if m:
                # the arm's path: its own statements and, when it falls out of the chain, the statements after the chain
                root = i
                while root.parent is not None and root.parent.k == 'IfStmt' and root.parent.child('else') is root:
                    root = root.parent
                scope = list(i.child('then').walk())
                if not tables._always_leaves(i.child('then')) and root.parent is not None and root in root.parent.c:
                    for t_ in root.parent.c[root.parent.c.index(root) + 1:]:
                        if t_ is not None:
                            scope += list(t_.walk())
                first = next((x for x in scope if (x.k == 'VarDecl' and x.n == 'sig' and x.child('init') is not None) or (is_assign(x) and norm(x.child('lhs').text()) == 'sig')), None)
                seed = None if first is None else norm((first.child('init') if first.k == 'VarDecl' else first.child('rhs')).text())
                upd = sorted({norm(c.callee or '') for c in i.child('then').walk() if c.k == 'CallExpr' and (c.callee or '').split('::')[-1] in ('crc32', 'checksum32') and len(c.args) == 3 and norm(c.args[0].text()) == 'sig'})
                swp = any(c.k == 'CallExpr' and c.callee == 'gdstk::little_endian_swap32' for c in scope)
                cmpv = any(x.k == 'BinaryOperator' and x.op in ('!=', '==') and 'file_sum + 1' in tx(x) and 'sig' in tx(x) for x in scope)
                arms[int(m.group(1))] = (seed, upd, swp, cmpv)
    want = {1: ('crc32(0, NULL, 0)', ['crc32'], True, True), 2: ('0', ['checksum32'], True, True)}
    ctx.check(arms == want, 'R-TABLE', 'oas_validate/schemes', v.loc(), 'scheme 1 = CRC32 seeded with crc32(0, NULL, 0), scheme 2 = CHECKSUM32 seeded with 0; the result is converted to little-endian and compared with the stored word', 'validator arms: %s' % arms)
    inits = {}
    for x in w.walk():
        if is_assign(x) and norm(x.child('lhs').text()) == 'out.signature':
            g = next((a for a in x.ancestors() if a.k == 'IfStmt'), None)
            inits[norm(g.child('cond').text()) if g is not None else ''] = norm(x.child('rhs').text())
    ctx.check(inits == {'out.crc32': 'crc32(0, NULL, 0)', 'out.checksum32': '0'}, 'R-TABLE', 'write_oas/signature-seeds', w.loc(), 'the writer seeds the accumulator exactly like the validator', 'writer seeds: %s' % inits)
    flags = {norm(x.child('lhs').text()): norm(x.child('rhs').text()) for x in w.walk() if is_assign(x) and norm(x.child('lhs').text()) in ('out.crc32', 'out.checksum32')}
    ctx.check(flags == {'out.crc32': '(state.config_flags & 64)', 'out.checksum32': '(state.config_flags & 128)'}, 'R-TABLE', 'write_oas/signature-flags', w.loc(), 'INCLUDE_CRC32 (0x40) and INCLUDE_CHECKSUM32 (0x80) select the scheme', 'flags: %s' % flags)


def check_ctrapezoid_tables(ctx, db):
    """Compact-trapezoid types 0..15: the writer's classification table (is_trapezoid: type from the two slant offsets
    delta_a, delta_b relative to the height resp. width) against the reader's construction table (read_oas: which
    corners of the w x h box are shifted). Vertex correspondence used (from the writer's own formulas): horizontal
    types - delta_a = x(top-left) - x(bottom-left), delta_b = x(top-right) - x(bottom-right); vertical types -
    delta_a = y(bottom-left) - y(bottom-right), delta_b = y(top-left) - y(top-right)."""
    w = db.fn('gdstk::is_trapezoid')
    r = db.fn('gdstk::read_oas')
    ctx.touch(w)
    split = next((i for i in w.walk() if i.k == 'IfStmt' and norm(i.child('cond').text()) == '(type == 26)' and i.child('else') is not None), None)
    if split is None:
        raise AnalysisBroken('is_trapezoid: horizontal/vertical split `type == 26` not found')
    defs = {}
    for br, lab in ((split.child('then'), 'H'), (split.child('else'), 'V')):
        for x in br.walk():
            if is_assign(x) and norm(x.child('lhs').text()) in ('delta_a', 'delta_b'):
                defs[(lab, norm(x.child('lhs').text()))] = norm(x.child('rhs').text())
    want_defs = {('H', 'delta_a'): '(p.x - r.x)', ('H', 'delta_b'): '(q.x - s.x)', ('V', 'delta_a'): '(p.y - r.y)', ('V', 'delta_b'): '(q.y - s.y)'}
    ctx.check(defs == want_defs, 'R-TABLE', 'is_trapezoid/slant-offsets', split.loc(), 'slant offsets are p - r and q - s along the parallel sides\' direction (the correspondence the table comparison relies on)', 'slant offset definitions: %s' % defs)

    def rel(t, unit):
        t = t.replace(' ', '')
        if t == '0':
            return 0
        if t == unit:
            return 1
        if t in ('(-%s)' % unit, '-%s' % unit):
            return -1
        return None

    def table(br, unit):
        out = {}
        for oi in [i for i in br.c if i is not None and i.k == 'IfStmt']:
            cur = oi
            while cur is not None and cur.k == 'IfStmt':
                m = re.fullmatch(r'\(delta_a == (.+)\)', norm(cur.child('cond').text()))
                if m and rel(m.group(1), unit) is not None:
                    a = rel(m.group(1), unit)
                    inner = cur.child('then')
                    ci = next((i for i in (inner.c if inner.k == 'CompoundStmt' else [inner]) if i is not None and i.k == 'IfStmt'), None)
                    while ci is not None and ci.k == 'IfStmt':
                        m2 = re.fullmatch(r'\(delta_b == (.+)\)', norm(ci.child('cond').text()))
                        st = next((x for x in ci.child('then').walk() if is_assign(x) and norm(x.child('lhs').text()) == 'type'), None)
                        if m2 and rel(m2.group(1), unit) is not None and st is not None:
                            rv = _strip_casts(st.child('rhs'))
                            out[(a, rel(m2.group(1), unit))] = rv.cv if rv.cv is not None else norm(rv.text())
                        ci = ci.child('else')
                cur = cur.child('else')
        return out
    wt = {'H': table(split.child('then'), 'size.y'), 'V': table(split.child('else'), 'size.x')}
    # reader: shifts of the box corners per type
    sw = next((s_ for s_ in r.walk() if s_.k == 'SwitchStmt' and norm(s_.child('cond').text()) == 'modal_ctrapezoid_type'), None)
    if sw is None:
        raise AnalysisBroken('read_oas: CTRAPEZOID type switch not found')
    rt = {}
    for labels, stmts, top in tables.switch_arms(sw):
        sh = {}
        for st in stmts:
            for x in st.walk():
                if x.k == 'CompoundAssignOperator' and x.op in ('+=', '-='):
                    m = re.fullmatch(r'v\[(\d)\]\.([xy])', norm(x.child('lhs').text()))
                    d = {'modal_geom_dim.y': 'h', 'modal_geom_dim.x': 'w'}.get(norm(x.child('rhs').text()))
                    if m and d:
                        sh[(int(m.group(1)), m.group(2))] = (1 if x.op == '+=' else -1, d)
        for l in labels:
            rt[l] = sh
    n = 0
    bad = []
    for t in range(16):
        sh = rt.get(t)
        if sh is None:
            bad.append('type %d has no reader arm' % t)
            continue
        horiz = t < 8
        axis, unit = ('x', 'h') if horiz else ('y', 'w')
        if any(k[1] != axis or v[1] != unit for k, v in sh.items()):
            bad.append('type %d: reader shifts %s' % (t, sh))
            continue
        g = lambda k: sh.get((k, axis), (0, unit))[0]
        if horiz:       # v0 BL, v1 BR, v2 TR, v3 TL
            da, db_ = g(3) - g(0), g(2) - g(1)
        else:
            da, db_ = g(0) - g(1), g(3) - g(2)
        n += 1
        got = wt['H' if horiz else 'V'].get((da, db_))
        if got != t:
            bad.append('a quadrilateral the reader builds for type %d (slant offsets %+d, %+d x %s) is classified by the writer as type %s' % (t, da, db_, 'height' if horiz else 'width', got))
    ctx.check(not bad and n == 16, 'R-TABLE', 'roundtrip/CTRAPEZOID-type-table', split.loc(), 'for types 0..15 the writer\'s (delta_a, delta_b) -> type table is the inverse of the reader\'s type -> corner-shift table', '; '.join(bad[:3]))
    sq = {k: v for k, v in list(wt['H'].items()) + list(wt['V'].items()) if k == (0, 0)}
    ctx.check(all('25' in str(v) and '24' in str(v) for v in sq.values()) and len(wt['H']) == 9 and len(wt['V']) == 9, 'R-TABLE', 'is_trapezoid/rectangles', split.loc(), 'both 3 x 3 tables are complete; zero slant on both sides is the rectangle (24) or square (25)')


def check_tagunion(ctx, db):
    n = 0
    w = db.fn(WRITER_ROOT)
    n += tagunion.check_function(ctx, w)
    r = db.fn('gdstk::read_oas')
    stores = set()
    for x in r.walk():
        if is_assign(x):
            l = _strip_casts(x.child('lhs'))
            if l.k == 'MemberExpr' and l.n == 'type' and l.rec == 'gdstk::Reference':
                rr = _strip_casts(x.child('rhs'))
                if rr.k == 'DeclRefExpr' and rr.dk == 'enum':
                    stores.add(rr.qn.split('::')[-1])
                else:
                    stores.add('?')
    ctx.check(stores == {'Cell', 'Name'}, 'R-TAGUNION', 'read_oas/reference-kinds', r.loc(), 'read_oas creates only Cell (0 after allocate_clear) and Name references', 'tag stores: %s' % sorted(stores))
    n += tagunion.check_function(ctx, r, universe={'Cell', 'Name'})
    ctx.require('R-TAGUNION member accesses', n, 15)
    # the name written for a reference is the resolved name
    nm = next((v for v in w.walk() if v.k == 'VarDecl' and v.n == 'name_' and v.child('init') is not None and v.child('init').k == 'ConditionalOperator' or (v.k == 'VarDecl' and v.n == 'name_' and 'ReferenceType' in v.child('init').text())), None)
    ok = nm is not None
    if ok:
        loop = next(a for a in nm.ancestors() if a.k == 'ForStmt')
        uses = [c for c in loop.walk() if c.k == 'CallExpr' and c.callee == 'gdstk::oasis_write' ]
        ok = len(uses) >= 2 and all(norm(c.args[0].text()) == 'name_' for c in uses)
        lens = [norm(v.child('init').text()) for v in loop.walk() if v.k == 'VarDecl' and v.n == 'len' and v.child('init') is not None]
        ok = ok and all(t == 'strlen(name_)' for t in lens)
    ctx.check(ok, 'R-TAGUNION', 'write_oas/reference-name', nm.loc() if nm is not None else w.loc(), 'the cell name written for a PLACEMENT (and its length) is the resolved name of the reference, not a union member read under the wrong tag')


def check_binary_values(ctx, db):
    """Property values are length-delimited byte strings (text AND binary): on the whole save/load path their `bytes` are never
    handed to a function that reads up to a NUL (strcmp, strncmp, strlen, ...): two binary values that agree up to an embedded
    NUL would be taken for each other (de-duplication of the PROPSTRING table) or cut short. Controls: controls/widths.cpp."""
    from .. import widths
    from ..controls import load_controls
    n = 0
    for f in db.functions:
        if f.body is None or f.relfile() not in ('src/property.cpp', 'src/library.cpp', 'src/oasis.cpp'):
            continue
        n += 1
        for c, a in widths.cstring_on_binary(f):
            ctx.violation('R-WIDTH', '%s/cstring-on-binary@%s' % (f.qn.replace('gdstk::', ''), c.loc()), c.loc(),
                          'the bytes of a property value are passed to %s, which stops at the first NUL byte: binary values that share a prefix ending in 0x00 are confused / truncated' % (c.callee or '').split('::')[-1])
    ctx.ok('R-WIDTH', 'property-values/no-cstring-functions', '', 'no property value buffer reaches a NUL-terminated string function (%d functions)' % n)
    ctx.require('R-WIDTH functions scanned', n, 60)
    cdb = load_controls()
    ctx.control('ctl_binary_equal_bad (R-WIDTH fires)', bool(widths.cstring_on_binary(cdb.fn('controls::ctl_binary_equal_bad'))))
    ctx.control('ctl_binary_equal_ok (R-WIDTH silent)', not widths.cstring_on_binary(cdb.fn('controls::ctl_binary_equal_ok')))


def run(ctx):
    db = ctx.db
    ctx.attempt(check_records, ctx, db)
    ctx.attempt(check_property, ctx, db)
    ctx.attempt(check_repetition, ctx, db)
    ctx.attempt(check_path_extensions, ctx, db)
    ctx.attempt(check_angle, ctx, db)
    ctx.attempt(check_units, ctx, db)
    ctx.attempt(check_signature, ctx, db)
    ctx.attempt(check_cblock, ctx, db)
    ctx.attempt(check_validator, ctx, db)
    ctx.attempt(check_detection, ctx, db)
    ctx.attempt(check_ctrapezoid_tables, ctx, db)
    ctx.attempt(check_binary_values, ctx, db)
    ctx.attempt(check_tagunion, ctx, db)
    from . import C19   # every polygon's vertices go through the point-list encoder: its closing edge decides whether a vertex may be dropped
    ctx.attempt(C19.check_closing_edge_source, ctx, db)
    ctx.memo('guards', {'src/oasis.cpp'}, C19.check_guards, db)      # every unsigned / signed integer of the file goes through the varint decoders
    ctx.attempt(C19.check_packing, ctx, db)


MANIFEST = dict(
    text='Decides the structural necessary conditions of the OASIS save/load round trip for every writer option: each record instance any writer block can emit (all valuations of the option/detection branches) is consumed field by field by the reader arm of the same record and info byte; PROPERTY count nibble/explicit count pairing for counts 0..40 and the value type table PropertyType<->OasisDataType; repetition type codes with paired count biases and scaling, and unsigned sinks proven non-negative; PATH extension-scheme nibbles vs the extensions written and the end type, half-width sink; PLACEMENT angle code inverse for m=-9..9; integer sinks fed only by llround(v*scaling); all file bytes go through the signature accumulator except the signature itself (call graph from write_oas); CBLOCK cursor armed/cleared in pairs with the header written unbuffered, raw deflate on both sides; oas_validate signs exactly the bytes that pass through the writer\'s accumulator (file length - 4) with the same seeds, scheme codes and byte order; for compact-trapezoid types 0..15 the writer\'s slant-offset -> type table is the inverse of the reader\'s type -> corner-shift table; Reference union members accessed under their tag. Equality of re-loaded coordinates, circle tolerance, deflate round trip, the signature value and idempotence over cycles are not decided. The signature accumulator (oasis_write, oasis_putc, checksum32) is decided by interpretation in every stream state incl. CRC chunking beyond 4 GiB on virtual buffers (R-MODEL.accumulator); scale_and_round_array and the closed-boundary walk of is_circle (regular 96-gon, each vertex displaced / removed in turn; sampled inputs) likewise.',
    note='Trusted: clang front end, gx, sa/oasfields.py abstract writer interpretation (unclassifiable conditions raise analysis-broken). Primitive codecs are C19\'s obligations, conformance of the reader arms to SEMI P39 is C04\'s.',
    technique='abstract interpretation of writer blocks under predicate atoms replayed against reader decision trees; exhaustive evaluation of pure integer code over small domains; code-table pairing with linear bias comparison; call-graph effect analysis (who may write the file); typestate on the CBLOCK cursor; tagged-union discipline + interpretation of the signature accumulator, scale_and_round_array and is_circle (sa/minieval, sa/oasacc.py)',
    design='§4 C02')
