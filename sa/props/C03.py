"""C03 — GDSII vs the format specification: writer grammar (R-GRAMMAR), record data types and
lengths, header/payload byte order typestate, reader accessors per data type, element-scoped reader
state, multi-record XY continuation. (DESIGN §4 C03)"""
import re
from .. import gdsgrammar as G, regular as R, tables, clone, flow
from ..facts import AnalysisBroken
from ..flow import lvalue_key, is_assign, _strip_casts

EXPLANATION = ('R-GRAMMAR: each of the ten GDSII writer functions is interpreted abstractly under every valuation of its '
               'emission-relevant branch conditions; the emitted record strings (regular expressions over record tokens and '
               'sub-writer nonterminals) are included in the manual\'s grammar for that nonterminal (DFA inclusion), every record '
               'has the specification\'s data type and fixed length, string records have a length proved even, every 16-bit '
               'header buffer is byte-swapped exactly once over its whole length before it is written, every 2/4/8-byte payload '
               'is swapped with the matching width, element sizes match the data type, and header-announced payload sizes equal '
               'what is written. Composition gives: Library::write_gds and gdswriter_init; write_cell*; close produce a <stream>. '
               'Reader: every read_gds / gds_info / gds_units / gds_timestamp arm touches the payload only through the accessor of '
               'the record\'s data type; the pre-swap switch maps data types 1,2 -> 16-bit, 3,4 -> 32-bit, 5 -> 64-bit; element-'
               'scoped reader state is reset per element (width at PATH, element pointers at ENDEL; key is set by PROPATTR before '
               'every PROPVALUE by the grammar); the PATH XY continuation block equals the BOUNDARY XY block (multi-record XY). '
               'That an arbitrary legal stream decodes to the layout it encodes is not decided.')
ADVISORY = [('R-CLONE', r'^read_gds/XY:polygon~path-continuation')]
ASSUMPTIONS = ['a raw cell holds a complete <structure> (byte accounting is C17\'s obligation)', 'XY chunk loops run at least once because total >= 1 (polygon count+1; element_center yields >= 1 point for a spine with >= 2 points)']
XREF_FILES = ['src/library.cpp', 'src/gdsii.cpp', 'src/polygon.cpp', 'src/flexpath.cpp', 'src/reference.cpp', 'src/label.cpp']

WRITER_NT = [('gdstk::properties_to_gds', 'N_properties'), ('gdstk::Polygon::to_gds', 'N_boundaries'), ('gdstk::Label::to_gds', 'N_texts'), ('gdstk::Reference::to_gds', 'N_refs'),
             ('gdstk::FlexPath::to_gds', 'N_paths'), ('gdstk::RobustPath::to_gds', 'N_paths'), ('gdstk::Cell::to_gds', 'N_structure'), ('gdstk::Library::write_gds', 'N_stream'),
             ('gdstk::gdswriter_init', 'N_stream_prefix'), ('gdstk::GdsWriter::close', 'N_stream_suffix')]
ACCESSOR = {0: set(), 1: {'data16'}, 2: {'data16'}, 3: {'data32'}, 4: {'data32'}, 5: {'data64'}, 6: {'str'}}


def norm(t):
    return re.sub(r'<[A-Za-z]+:(?!:)[^>]*>', '', t).replace('gdstk::', '')


def check_writers(ctx, db, only=None):
    nrec = 0
    for qn, nt in WRITER_NT:
        if only is not None and qn not in only:
            continue
        f = db.fn(qn)
        ctx.touch(f)
        atoms, res = G.interpret(f)
        ctx.explored['valuations'] += len(res)
        label = qn.replace('gdstk::', '')
        bad = []
        issues = set()
        langs = set()
        for env, r, iss, recs in res:
            nrec += len(recs)
            ok, cex = R.included(r, G.GRAMMAR[nt])
            langs.add(R.show(r))
            if not ok:
                bad.append((dict((k, v) for k, v in env.items() if v), R.show(r)[:160], cex))
            issues |= set(iss)
        ctx.check(not bad, 'R-GRAMMAR', '%s/in-%s' % (label, nt), f.loc(), 'all %d valuations of {%s} emit record strings in the grammar of %s (%d distinct shapes)' % (len(res), ', '.join(atoms), nt, len(langs)),
                  'emitted record string is not in the grammar of %s: under %s the writer emits `%s` (shortest offending string: %s)' % ((nt,) + bad[0] if bad else (nt, '', '', '')))
        ctx.check(not issues, 'R-RECORD', '%s/records' % label, f.loc(), 'every record has the specification\'s data type/length, headers and payloads are byte-swapped exactly once with the right width, sizes agree',
                  '; '.join(sorted(issues))[:600])
    if only is not None:
        ctx.require('decoded records', nrec, 3)
        return
    ctx.require('decoded records', nrec, 100)
    # composition of the incremental writer
    comp = R.seq(G.GRAMMAR['N_stream_prefix'], R.star(R.tok('N_structure')), G.GRAMMAR['N_stream_suffix'])
    ok, cex = R.included(comp, G.GRAMMAR['N_stream'])
    ctx.check(ok, 'R-GRAMMAR', 'GdsWriter/init;write_cell*;close', db.fn('gdstk::gdswriter_init').loc(), 'header . structure* . ENDLIB is a <stream>')
    wc = db.fn('gdstk::GdsWriter::write_cell')
    wr = db.fn('gdstk::GdsWriter::write_rawcell')
    ok = any(c.callee == 'gdstk::Cell::to_gds' for c in wc.calls()) and any(c.callee == 'gdstk::RawCell::to_gds' for c in wr.calls())
    ctx.check(ok, 'R-GRAMMAR', 'GdsWriter/write_cell', wc.loc(), 'write_cell / write_rawcell emit exactly one structure each')


def record_switch(fn):
    for s in fn.walk():
        if s.k == 'SwitchStmt' and 'buffer[2]' in s.child('cond').text() and 'GdsiiRecord' in (s.child('cond').t or '') + s.child('cond').text():
            return s
    return None


def check_reader_types(ctx, db):
    names = {c['v']: c['n'] for c in db.enum('gdstk::GdsiiRecord')['consts']}
    n = 0
    for qn in ('gdstk::read_gds', 'gdstk::gds_info'):
        f = db.fn(qn)
        ctx.touch(f)
        sw = record_switch(f)
        if sw is None:
            raise AnalysisBroken('%s: record switch not found' % qn)
        for labels, stmts, top in tables.switch_arms(sw):
            used = set()
            for s in stmts:
                for x in s.walk():
                    if x.k == 'DeclRefExpr' and x.n in ('data16', 'data32', 'data64', 'str'):
                        used.add(x.n)
            for l in labels:
                if l == 'default' or l not in G.SPEC:
                    if l != 'default' and used:
                        ctx.violation('R-TABLE', '%s/arm:%s' % (qn.split('::')[-1], names.get(l, l)), top.loc(), 'arm for a record the specification table does not list reads payload')
                    continue
                name, dt, _ = G.SPEC[l]
                if not used:
                    continue
                n += 1
                ctx.check(used <= ACCESSOR[dt], 'R-TABLE', '%s/arm:%s' % (qn.split('::')[-1], name), top.loc(), '%s (data type %d) is read through %s' % (name, dt, sorted(used)),
                          'record %s has data type %d but the arm reads it through %s' % (name, dt, sorted(used)))
    ctx.require('R-TABLE reader arms touching payload', n, 25)
    # enum values = spec
    bad = [(v, nme, G.SPEC[v][0]) for v, nme in names.items() if v in G.SPEC and G.SPEC[v][0] != nme]
    ctx.check(not bad and all(v in names for v in G.SPEC), 'R-TABLE', 'GdsiiRecord/spec-numbering', '', 'enum GdsiiRecord numbers every record used here as the format does', 'mismatch: %s' % bad[:4])
    # pre-swap by data type
    f = db.fn('gdstk::read_gds')
    dsw = next((s for s in f.walk() if s.k == 'SwitchStmt' and 'buffer[3]' in s.child('cond').text()), None)
    if dsw is None:
        raise AnalysisBroken('read_gds: data-type switch not found')
    dnames = {c['v']: c['n'] for c in db.enum('gdstk::GdsiiDataType')['consts']}
    got = {}
    for labels, stmts, top in tables.switch_arms(dsw):
        sw_ = next((c.callee.split('::')[-1] for s in stmts for c in s.walk() if c.k == 'CallExpr' and (c.callee or '').startswith('gdstk::big_endian_swap')), None)
        dl = next((norm(x.child('rhs').text()) for s in stmts for x in s.walk() if is_assign(x) and norm(x.child('lhs').text()) == 'data_length'), None)
        for l in labels:
            got[dnames.get(l, l)] = (sw_, dl)
    want = {'BitArray': ('big_endian_swap16', '((record_length - 4) / 2)'), 'TwoByteSignedInteger': ('big_endian_swap16', '((record_length - 4) / 2)'),
            'FourByteSignedInteger': ('big_endian_swap32', '((record_length - 4) / 4)'), 'FourByteReal': ('big_endian_swap32', '((record_length - 4) / 4)'),
            'EightByteReal': ('big_endian_swap64', '((record_length - 4) / 8)'), 'default': (None, '(record_length - 4)')}
    ctx.check(got == want, 'R-TABLE', 'read_gds/pre-swap-by-datatype', dsw.loc(), 'payload words are converted from big-endian with the width of the record\'s data type and counted in that unit', 'pre-swap table: %s' % got)
    for qn, rec, acc in (('gdstk::gds_units', 'UNITS', 'data64'), ('gdstk::gds_timestamp', 'BGNLIB', 'data16')):
        g = db.fn(qn)
        used = {x.n for x in g.walk() if x.k == 'DeclRefExpr' and x.n in ('data16', 'data32', 'data64', 'str')}
        ctx.check(used == {acc}, 'R-TABLE', '%s/accessor' % qn.split('::')[-1], g.loc(), '%s reads %s through %s' % (qn.split('::')[-1], rec, acc))


# locals of read_gds that carry state between record arms: scope and where they must be (re)set
STATE_SCOPE = {
    'width': ('element', 'PATH'), 'key': ('record-pair', 'PROPATTR precedes every PROPVALUE (<property> ::= PROPATTR PROPVALUE)'),
    'polygon': ('element', 'ENDEL'), 'path': ('element', 'ENDEL'), 'reference': ('element', 'ENDEL'), 'label': ('element', 'ENDEL'),
    'factor': ('file', 'UNITS precedes every structure'), 'tolerance': ('file', 'UNITS precedes every structure'), 'cell': ('structure', 'BGNSTR'),
}


def check_reader_state(ctx, db):
    f = db.fn('gdstk::read_gds')
    sw = record_switch(f)
    names = {c['v']: c['n'] for c in db.enum('gdstk::GdsiiRecord')['consts']}
    writes, reads = {}, {}
    arms = {}
    for labels, stmts, top in tables.switch_arms(sw):
        arm = '|'.join(str(names.get(l, l)) for l in labels)
        arms[arm] = stmts
        for s in stmts:
            for x in s.walk():
                if is_assign(x) and _strip_casts(x.child('lhs')).k == 'DeclRefExpr' and _strip_casts(x.child('lhs')).dk == 'local':
                    writes.setdefault(_strip_casts(x.child('lhs')).n, set()).add(arm)
            for x in s.walk():
                if x.k == 'DeclRefExpr' and x.dk == 'local':
                    p = x.parent
                    if p is not None and is_assign(p) and p.child('lhs') is x and p.op == '=':
                        continue
                    reads.setdefault(x.n, set()).add(arm)
    # only locals declared outside the loop carry state
    loop = next(a for a in sw.ancestors() if a.k in ('WhileStmt', 'ForStmt'))
    inner = {v.n for v in loop.walk() if v.k == 'VarDecl'}
    n = 0
    for v in sorted(set(writes) & set(reads)):
        if v in inner:
            continue
        cross = {(w, r) for w in writes[v] for r in reads[v] if w != r}
        if not cross:
            continue
        n += 1
        key = 'read_gds/state:%s' % v
        sc = STATE_SCOPE.get(v)
        if sc is None:
            ctx.violation('R-STATE', key, sw.loc(), 'local `%s` is written in arm(s) %s and read in other arm(s) %s but has no declared scope: it may carry stale data from a previous record' % (v, sorted(writes[v]), sorted(reads[v])))
            continue
        scope, where = sc
        if scope == 'element':
            # must be assigned a constant/neutral value in the arm named `where`
            arm = next((a for a in arms if where in a.split('|')), None)
            ok = False
            if arm:
                for s in arms[arm]:
                    for x in s.walk():
                        if is_assign(x) and x.op == '=' and _strip_casts(x.child('lhs')).k == 'DeclRefExpr' and _strip_casts(x.child('lhs')).n == v:
                            r = _strip_casts(x.child('rhs'))
                            if v == 'width':
                                ok = ok or (r.cv == 0 or r.fv == 0)
                            else:
                                ok = ok or r.is_null_const() or x.child('rhs').is_null_const()
            ctx.check(ok, 'R-STATE', key, sw.loc(), 'element-scoped `%s` is reset in the %s arm' % (v, where),
                      'element-scoped reader state `%s` is never reset at %s: an element without its own record inherits the value of the previous element' % (v, where))
        else:
            ctx.ok('R-STATE', key, sw.loc(), '%s-scoped: %s' % (scope, where))
    ctx.require('R-STATE cross-arm locals', n, 8)


def check_xy_continuation(ctx, db):
    """The XY arm of read_gds, interpreted (sa/minieval: struct objects, a `double*` view of a Vec2 array, the coordinate loops as
    written - also when they live in a helper or a local lambda) on records of 1, 2 and 5 points for a BOUNDARY with 0 or 3 points
    already loaded and for a PATH whose spine is empty or already started. Array::ensure_slots / append / clear, Curve::append and
    FlexPath::segment are answered by the harness, which records what they are handed. Required: a BOUNDARY ends up with the
    points it had followed by all points of the record, scaled by `factor` (so a boundary split over several XY records
    re-loads completely); the first XY record of a PATH gives the start point to the spine with half of WIDTH as the first
    width entry and hands the remaining points to segment(); a continuation record hands all of its points to segment()."""
    from .. import minieval as M
    from fractions import Fraction
    f = db.fn('gdstk::read_gds')
    ctx.touch(f)
    sw = record_switch(f)
    names = {c['v']: c['n'] for c in db.enum('gdstk::GdsiiRecord')['consts']}
    got = next(((stmts, top) for labels, stmts, top in tables.switch_arms(sw) if any(names.get(l) == 'XY' for l in labels)), None)
    if got is None:
        raise AnalysisBroken('read_gds: XY arm not found')
    xy, top = got
    factor, width = Fraction(1, 4), 6
    problems = {'BOUNDARY': [], 'PATH-first': [], 'PATH-continuation': []}
    runs = 0

    def vecs(ptr, n):
        return [(ptr.arr[ptr.i + k].get('x'), ptr.arr[ptr.i + k].get('y')) for k in range(n)] if isinstance(ptr, M.Ptr) else []

    for npts in (1, 2, 5):
        data = [10 * k + (3 if k % 2 else 1) for k in range(2 * npts)]
        want_all = [(factor * data[2 * k], factor * data[2 * k + 1]) for k in range(npts)]
        for case in ('BOUNDARY:0', 'BOUNDARY:3', 'PATH:0', 'PATH:2'):
            kind, have = case.split(':')
            have = int(have)
            runs += 1
            log = {'segment': [], 'spine': [], 'hw': []}
            old = [M.Obj(x=100 + k, y=200 + k) for k in range(have)]
            mi_ref = [None]

            def grow(arr_obj, n):
                it = arr_obj.get('items', 0)
                cnt = arr_obj.get('count', 0)
                lst = list(it.arr[it.i:it.i + cnt]) if isinstance(it, M.Ptr) else []
                lst += [M.Obj() for _ in range(n)]
                mi_ref[0].writable.add(id(lst))
                arr_obj['items'] = M.Ptr(lst, 0)
                arr_obj['capacity'] = len(lst)

            def hook(callee, args, node):
                short = (callee or '').split('::')[-1]
                cls = (callee or '').rsplit('::', 1)[0]
                if cls.startswith('gdstk::Array<') and short in ('ensure_slots', 'append', 'append_unsafe', 'clear'):
                    o = mi_ref[0].call_object()
                    if not isinstance(o, M.Obj):
                        raise AnalysisBroken('read_gds/XY: Array method on something that is not an array object')
                    if short == 'ensure_slots':
                        grow(o, args[0])
                    elif short == 'clear':
                        o['items'], o['count'], o['capacity'] = 0, 0, 0
                    else:
                        if o.get('capacity', 0) < o.get('count', 0) + 1:
                            grow(o, 1)
                        o['items'].arr[o['count']] = M.Obj(args[0]) if isinstance(args[0], M.Obj) else args[0]
                        o['count'] += 1
                        if o.get('_tag') == 'hw':
                            log['hw'].append((args[0].get('x'), args[0].get('y')))
                    return (None,)
                if callee == 'gdstk::Curve::append':
                    log['spine'].append((args[0].get('x'), args[0].get('y')))
                    o = mi_ref[0].call_object()
                    if isinstance(o, M.Obj) and isinstance(o.get('point_array'), M.Obj):
                        o['point_array']['count'] = o['point_array'].get('count', 0) + 1
                    return (None,)
                if callee == 'gdstk::FlexPath::segment':
                    a0 = args[0]
                    log['segment'].append(vecs(a0.get('items', 0), a0.get('count', 0)) if isinstance(a0, M.Obj) else None)
                    return (None,)
                return None
            mi = M.Mini(db, hook=hook, budget=50000)
            mi.obj_store = True
            mi_ref[0] = mi
            env = {'data32': M.Ptr(list(data), 0), 'data_length': 2 * npts, 'factor': factor, 'width': width, 'tolerance': Fraction(1, 100),
                   'polygon': 0, 'path': 0, 'reference': 0, 'label': 0}
            if kind == 'BOUNDARY':
                pa = M.Obj(capacity=have, count=have, items=M.Ptr(old, 0) if have else 0)
                mi.writable.add(id(old))
                env['polygon'] = M.Obj(point_array=pa)
            else:
                el0 = M.Obj(half_width_and_offset=M.Obj(capacity=0, count=0, items=0, _tag='hw'))
                env['path'] = M.Obj(spine=M.Obj(point_array=M.Obj(capacity=have, count=have, items=M.Ptr(old, 0) if have else 0), tolerance=0), elements=M.Ptr([el0], 0))
            try:
                for st in xy:
                    mi.run(st, env)
            except (M._Break, M.Return):
                pass
            except M.OutOfBounds as ex:
                problems[kind if kind == 'BOUNDARY' else ('PATH-first' if not have else 'PATH-continuation')].append('%d-point record: %s' % (npts, ex))
                continue
            if kind == 'BOUNDARY':
                pa = env['polygon']['point_array']
                now = vecs(pa.get('items', 0), pa.get('count', 0))
                want = [(100 + k, 200 + k) for k in range(have)] + want_all
                if now != want:
                    problems['BOUNDARY'].append('a boundary holding %d points reads a %d-point XY record and then holds %s, expected the %d old points followed by %s' % (have, npts, now, have, want_all))
            elif have == 0:
                if log['spine'] != want_all[:1] or log['hw'] != [(Fraction(width, 2), 0)] or log['segment'] != [want_all[1:]]:
                    problems['PATH-first'].append('first %d-point XY record of a path: spine gets %s, width entry %s, segment() gets %s; expected start point %s, entry (width/2, 0), rest %s' % (npts, log['spine'], log['hw'], log['segment'], want_all[:1], want_all[1:]))
            else:
                if log['spine'] or log['hw'] or log['segment'] != [want_all]:
                    problems['PATH-continuation'].append('a further %d-point XY record of a path: spine gets %s, width entries %s, segment() gets %s; expected all %d points through segment()' % (npts, log['spine'], log['hw'], log['segment'], npts))
    ctx.explored['valuations'] += runs
    ctx.check(not problems['BOUNDARY'], 'R-SHAPE', 'read_gds/XY:BOUNDARY-appends', top.loc(), 'points of an XY record are appended after those already loaded (a boundary with more than 8190 points spans several XY records)',
              'the BOUNDARY XY block is wrong: ' + '; '.join(problems['BOUNDARY'][:2]))
    ctx.check(not problems['PATH-continuation'], 'R-CLONE', 'read_gds/XY:polygon~path-continuation', top.loc(), 'a continuation XY record of a PATH is decoded like a BOUNDARY XY record (all points from the start of the payload) and appended through FlexPath::segment',
              'PATH continuation XY block is wrong: ' + '; '.join(problems['PATH-continuation'][:2]))
    ctx.check(not problems['PATH-continuation'] and not problems['PATH-first'], 'R-SHAPE', 'read_gds/XY:PATH-appends', top.loc(), 'the points of every PATH XY record are appended to the spine through FlexPath::segment')
    ctx.check(not problems['PATH-first'], 'R-SHAPE', 'read_gds/XY:path-first-record', top.loc(), 'the first XY record of a PATH gives the start point (with half of WIDTH) and the remaining points from the third word on',
              'the first PATH XY block is wrong: ' + '; '.join(problems['PATH-first'][:2]))
    ctx.require('R-SHAPE XY arm cases interpreted', runs, 12)


def check_element_buffers(ctx, db):
    """The PATH writers fill one scratch array per element with element_center (which appends): the array
    is emptied before the next element, otherwise every later PATH record repeats the earlier centre lines."""
    n = 0
    for qn in ('gdstk::FlexPath::to_gds', 'gdstk::RobustPath::to_gds', 'gdstk::FlexPath::to_oas', 'gdstk::RobustPath::to_oas'):
        f = db.fn(qn)
        ctx.touch(f)
        for c in f.walk():
            if c.k not in ('CXXMemberCallExpr', 'CallExpr') or not (c.callee or '').endswith('::element_center'):
                continue
            loop = next((a for a in c.ancestors() if a.k == 'ForStmt'), None)
            arr = _strip_casts(c.args[-1])
            if loop is None or arr.k != 'DeclRefExpr':
                raise AnalysisBroken('%s: element_center call shape not recognised' % qn)
            n += 1
            key = arr.n
            body = [s_ for s_ in loop.child('body').c if s_ is not None]
            top = next((s_ for s_ in body if any(x is c for x in s_.walk())), None)
            resets = [s_ for s_ in body if (is_assign(s_) and norm(s_.child('lhs').text()) == key + '.count' and s_.child('rhs').cv == 0) or
                      (s_.k == 'CXXMemberCallExpr' and (s_.callee or '').endswith('::clear') and norm(s_.child('obj').text()) == key)]
            declared_inside = any(v.k == 'VarDecl' and v.n == key for v in loop.child('body').walk())
            skipping = [x for x in loop.child('body').walk() if x.k == 'ContinueStmt' and x.pos > c.pos and (not resets or x.id < resets[-1].id)]
            ok = declared_inside or (bool(resets) and not skipping and (body.index(resets[-1]) > body.index(top) or body.index(resets[0]) < body.index(top)))
            ctx.check(ok, 'R-FRESH', '%s/%s-emptied-per-element' % (qn.replace('gdstk::', ''), key), c.loc(), 'the scratch array `%s` that element_center appends to is emptied in every iteration of the element loop' % key,
                      'the scratch array `%s` is filled by element_center for every element but never emptied inside the element loop%s: the second PATH record also contains the first element\'s centre line' % (key, ' (a `continue` skips the reset)' if skipping else ''))
    ctx.require('R-FRESH element_center call sites', n, 4)


def check_record_length_width(ctx, db):
    """The record length is an UNSIGNED 16-bit big-endian number (records of 32768..65535 bytes are legal: an XY record of 4096
    or more points): every reinterpretation of the start of the record buffer (the header word) in gdsii_read_record goes
    through an unsigned 16-bit lvalue, and the length is widened, not sign-extended."""
    f = db.fn('gdstk::gdsii_read_record')
    ctx.touch(f)
    bk = next(('v%d:%s' % (p_['d'], p_['n']) for p_ in f.params if 'uint8_t *' in (p_.get('t') or '') or p_['n'] == 'buffer'), None)
    sites = []
    for x in f.walk():
        if x.k == 'UnaryOperator' and x.op == '*':
            c = x.child('sub')
            while c is not None and c.k == 'ImplicitCastExpr':
                c = c.child('sub')
            if c is not None and c.k in ('CStyleCastExpr', 'CXXReinterpretCastExpr') and lvalue_key(_strip_casts(c.child('sub'))) == bk:
                sites.append((x, c))
    if not sites:
        raise AnalysisBroken('gdsii_read_record: read of the record header word not found')
    bad = [(x, c) for x, c in sites if 'uint16_t' not in (c.t or '')]
    ctx.check(not bad, 'R-WIDTH', 'gdsii_read_record/length-unsigned-16', sites[0][0].loc(), 'the record length is read through `uint16_t*` (%d site(s)): lengths up to 65535 are accepted' % len(sites),
              'the record header is read through `%s`: a record of 32768 bytes or more (an XY record of 4096+ points, which gdstk itself writes) gets a negative / huge length and the file is rejected' % (bad[0][1].t if bad else ''))


def check_units_arm(ctx, db):
    """R-UNIT (UNITS arm of read_gds, partially evaluated with rational arithmetic at generic values of the two reals of the record):
    with and without a requested unit, coordinates are scaled by (database unit in metres) / (library unit), the library reports
    precision = database unit in metres, and the default tolerance is one database unit *expressed in the library unit* - i.e.
    the very factor coordinates are scaled with (a tolerance in the file's own user unit merges distinct vertices when a coarser
    unit is requested)."""
    from .. import minieval as M
    from fractions import Fraction
    f = db.fn('gdstk::read_gds')
    sw = record_switch(f)
    names = {c['v']: c['n'] for c in db.enum('gdstk::GdsiiRecord')['consts']}
    arm = next((stmts for labels, stmts, top in tables.switch_arms(sw) if any(names.get(l) == 'UNITS' for l in labels)), None) if sw is not None else None
    if arm is None:
        raise AnalysisBroken('read_gds: no UNITS arm')
    bad = []
    U, P = Fraction(3, 1000), Fraction(7, 10 ** 9)          # database unit in user units / in metres (generic values)
    for unit in (Fraction(0), Fraction(11, 10 ** 5)):
        for tol_in in (Fraction(0), Fraction(13, 100)):

            def hook(callee, args, node):
                if callee == 'gdstk::gdsii_real_to_double':
                    return (args[0],)
                return None
            mi = M.Mini(db, hook=hook, member_store=True)
            env = {'unit': unit, 'tolerance': tol_in, 'factor': Fraction(1), 'data64': M.Ptr([U, P], 0)}
            try:
                for st in arm:
                    if st is not None and st.k != 'BreakStmt':
                        mi.run(st, env)
            except M._Break:
                pass
            lib_unit, lib_prec = mi.members.get('library.unit'), mi.members.get('library.precision')
            want_unit = unit if unit > 0 else P / U
            want = {'factor': P / want_unit, 'library.unit': want_unit, 'library.precision': P, 'tolerance': tol_in if tol_in > 0 else P / want_unit}
            got = {'factor': env.get('factor'), 'library.unit': lib_unit, 'library.precision': lib_prec, 'tolerance': env.get('tolerance')}
            for k in want:
                if got[k] != want[k]:
                    bad.append('requested unit %s, tolerance argument %s: %s = %s, expected %s (database unit %s user units = %s m)' % (unit or 'none', tol_in or 'default', k, got[k], want[k], U, P))
    ctx.explored['valuations'] += 4
    ctx.check(not bad, 'R-UNIT', 'read_gds/UNITS-arm', arm[0].loc() if arm and arm[0] is not None else f.loc(), 'scale factor, library unit, precision and default tolerance (= one database unit in the library unit) for requested-unit / default-unit and given / default tolerance',
              '; '.join(bad[:2]))


def run(ctx):
    db = ctx.db
    ctx.attempt(check_units_arm, ctx, db)
    ctx.attempt(check_writers, ctx, db)
    ctx.attempt(check_reader_types, ctx, db)
    ctx.attempt(check_reader_state, ctx, db)
    ctx.attempt(check_xy_continuation, ctx, db)
    ctx.attempt(check_element_buffers, ctx, db)
    n = 0
    for qn in ('gdstk::read_gds', 'gdstk::gds_info', 'gdstk::gds_units', 'gdstk::gds_timestamp'):
        n += flow.check_error_checked(ctx, db.fn(qn), 'gdstk::gdsii_read_record')
    ctx.require('R-ERRCHK call sites', n, 4)
    ctx.attempt(check_record_length_width, ctx, db)
    from . import C01  # AREF semantics of the manual: second/third XY point = origin + count x pitch, counts as written in COLROW
    ctx.attempt(C01.check_aref, ctx, db)
    ctx.attempt(C01.check_strans_writer, ctx, db)# STRANS present whenever the element is reflected / rotated / magnified
    from . import C17 as _C17, C19 as _C19
    ctx.attempt(_C19.check_gds_real, ctx, db)          # the 8-byte real of UNITS / MAG / ANGLE: encoder o decoder on every power of two, sign, zero
    ctx.attempt(_C17.check_header_bytes, ctx, db)     # the bytes around the cells (HEADER ... UNITS, ENDLIB) of both writers, against the format


MANIFEST = dict(
    text='Decides, for every branch-condition valuation of every GDSII writer function, that the emitted record string lies in the format manual\'s grammar for that nonterminal (regular-language inclusion), that every record carries the specification\'s data type and fixed length (even lengths for strings), that every header buffer and multi-byte payload is converted to big-endian exactly once with the right width, and that announced and written payload sizes agree; by composition every file from Library::write_gds or gdswriter_init/write_cell*/close is a <stream>. On the reader side: every arm of read_gds/gds_info/gds_units/gds_timestamp reads the payload through the accessor of the record\'s data type, the pre-swap switch matches data types to widths, element-scoped state is reset per element, record errors are checked, and a PATH\'s continuation XY records are decoded like BOUNDARY XY records; the scratch array each PATH writer fills through element_center is emptied for every element; the AREF corners are origin + COLROW count x pitch with the counts exactly as written (exchanged before use in the rotated branch) and the reader divides by the same counts. That every legal stream decodes to the layout it encodes (BOX semantics, negative WIDTH, reflected AREF lattices ...) is not decided. Also decided by interpreting the source (sa/minieval) on small records: the XY arm of read_gds re-loads a boundary split over several XY records completely and hands a path\'s first / continuation record to the spine as the format says.',
    note='Trusted: clang front end, gx, sa/gdsgrammar.py (abstract interpreter; anything it cannot interpret is reported as an issue), the record table and BNF transcribed from the GDSII Stream Format Manual 6.0 plus two named extensions (repeated XY, Raith records). Atoms are treated as independent (over-approximation: infeasible combinations are checked too).',
    technique='abstract interpretation of writer functions into regular record languages (predicate-atom enumeration, buffer typestate) + DFA inclusion in the format grammar + table rules on the reader + interpretation of the XY arm on small records (sa/minieval)',
    design='§4 C03')
