"""C04 — OASIS vs the format specification: per-record field sequences of reader arms and writer
blocks against SEMI P39 rows, uniform modal position handling, square/rectangle rule, record
numbering, END record and table offsets, standard properties under their config bits."""
import re
from .. import oasfields as O, tables, clone
from ..facts import AnalysisBroken
from ..flow import lvalue_key, is_assign, _strip_casts

EXPLANATION = ('R-FIELDSEQ (reader): for every record arm of read_oas the ordered info-bit tests and primitive codec calls are extracted '
               'as a decision tree and simulated for all 256 info bytes; the codec sequence equals the SEMI P39 row (bit positions, '
               'order, signedness) for PLACEMENT(17/18), TEXT, RECTANGLE, POLYGON, PATH (extension scheme SS/EE = 11 -> sint), '
               'TRAPEZOID(23/24/25), CTRAPEZOID, CIRCLE, XGEOMETRY and the name records. R-FIELDSEQ (writer): every writer block '
               '(Polygon/FlexPath/RobustPath::to_oas, the PLACEMENT and TEXT blocks and the name tables of write_oas, '
               'properties_to_oas) is interpreted under all valuations of its branch conditions; for each emitted record the info '
               'byte constant determines, through the same spec row, exactly the fields written (a field is written iff its bit is '
               'set). Modal handling: every position read is the same 4-statement block (absolute: assign, relative: add) and CELL '
               'records reset mode and positions; a bit-absent field falls through to the modal variable assigned when present; the '
               'RECTANGLE square rule depends only on S and the absence of H. Record numbering of enum OasisRecord = 0..34 of the '
               'standard. END record: the four table offsets are the ftell values captured before the first record of each table, '
               'guarded by "non-empty else 0"; validation byte and signature follow the padding. Standard properties are written '
               'only under their config bit after removing the stale value, and the bounding-box extents are differences of the '
               'rounded corners. That every legal encoding decodes to the right geometry is not decided.')
ASSUMPTIONS = ['primitive codecs are C19\'s obligations; repetition/property value tables are C02\'s']
XREF_FILES = ['src/library.cpp', 'src/polygon.cpp', 'src/property.cpp']
norm = O.norm


def reader_switch(f):
    return next((s for s in f.walk() if s.k == 'SwitchStmt' and 'OasisRecord' in (s.child('cond').t or '')), None)


def check_reader(ctx, db):
    f = db.fn('gdstk::read_oas')
    ctx.touch(f)
    sw = reader_switch(f)
    if sw is None:
        raise AnalysisBroken('read_oas: record switch not found')
    names = {c['v']: c['n'] for c in db.enum('gdstk::OasisRecord')['consts']}
    ctx.check({v: k for k, v in names.items()} == O.RECORD_NUMBERS, 'R-TABLE', 'OasisRecord/spec-numbering', '', 'record ids 0..34 equal the standard\'s numbering')
    n = 0
    for labels, stmts, top in tables.switch_arms(sw):
        recs = [names.get(l, str(l)) for l in labels]
        tree = O.tree_of(stmts)
        for rec in recs:
            if rec in O.SPEC:
                n += 1
                bad = None
                for info in range(256):
                    def choose(kind, text, rec=rec):
                        rt = O.record_test(text, rec, None)
                        if rt is not None:
                            return rt
                        if 'record ==' in text:
                            m = re.search(r'OasisRecord::(\w+)', text)
                            return m is not None and m.group(1) == rec
                        raise AnalysisBroken('read_oas/%s: condition `%s` is neither an info-bit test nor a record test' % (rec, text[:60]))
                    got = O.simulate(tree, info, choose)
                    want = O.spec_sequence(rec, info)
                    # PATH: the extension scheme sub-tree (byte already read): SS/EE = 11 -> sint each
                    if rec == 'PATH':
                        want = [w for w in want if w != 'ext']
                        got2 = []
                        for g in got:
                            got2.append(g)
                        got = [g for g in got2 if not g.startswith('switch[')]
                    if got != want:
                        bad = (info, got, want)
                        break
                ctx.explored['valuations'] += 256
                ctx.check(bad is None, 'R-FIELDSEQ', 'read_oas/%s' % rec, top.loc(), 'for all 256 info bytes the arm reads exactly the fields of the %s row, in order, with the specified codec' % rec,
                          None if bad is None else 'record %s with info byte 0x%02X: the arm reads %s, the standard says %s' % (rec, bad[0], bad[1], bad[2]))
            elif rec in O.NAME_RECORDS:
                n += 1
                got = O.seq_of(stmts)
                ctx.check(got == O.NAME_RECORDS[rec], 'R-FIELDSEQ', 'read_oas/%s' % rec, top.loc(), 'reads `%s`' % O.NAME_RECORDS[rec], 'name record %s reads `%s`, expected `%s`' % (rec, got, O.NAME_RECORDS[rec]))
        if any(r in O.SPEC for r in recs):
            fam = 'placement' if 'PLACEMENT' in recs else ('text' if 'TEXT' in recs else 'geom')
            want = {}
            if fam == 'placement':
                want = {0x20: {'modal_placement_pos.x'}, 0x10: {'modal_placement_pos.y'}}
            else:
                want = {0x10: {'modal_%s_pos.x' % fam}, 0x08: {'modal_%s_pos.y' % fam}, 0x01: {'modal_textlayer' if fam == 'text' else 'modal_layer'}, 0x02: {'modal_texttype' if fam == 'text' else 'modal_datatype'}}
                if any(r in ('RECTANGLE', 'TRAPEZOID_AB', 'CTRAPEZOID') for r in recs):
                    want[0x40] = {'modal_geom_dim.x'}
                if any(r in ('RECTANGLE', 'TRAPEZOID_AB', 'CTRAPEZOID') for r in recs):
                    want[0x20] = {'modal_geom_dim.y'}
                if 'PATH' in recs:
                    want[0x40] = {'modal_path_halfwidth'}
                if 'CIRCLE' in recs:
                    want[0x20] = {'modal_circle_radius'}
            got = {}
            for st in stmts:
                for i in st.walk():
                    if i.k == 'IfStmt' and O.info_mask(i.child('cond')) in want and i.child('then') is not None:
                        m = O.info_mask(i.child('cond'))
                        got.setdefault(m, set()).update(norm(x.child('lhs').text()) for x in i.child('then').walk() if (is_assign(x) or x.k == 'CompoundAssignOperator') and 'modal' in x.child('lhs').text())
            ctx.check(got == want, 'R-TABLE', 'read_oas/%s-modal-destinations' % recs[0], top.loc(), 'each bit-guarded field updates its own modal variable (%s)' % ', '.join('0x%02X->%s' % (k, '/'.join(sorted(v))) for k, v in sorted(want.items())),
                      'modal destinations under the info bits are %s, expected %s' % (sorted(got.items()), sorted(want.items())))
            if fam != 'placement':
                lay = [norm(c.args[1].text()) for st in stmts for c in st.walk() if c.k == 'CallExpr' and c.callee == 'gdstk::set_layer']
                typ = [norm(c.args[1].text()) for st in stmts for c in st.walk() if c.k == 'CallExpr' and c.callee == 'gdstk::set_type']
                tg = sorted(set(norm(c.text()) for st in stmts for c in st.walk() if c.k == 'CallExpr' and c.callee == 'gdstk::make_tag'))
                wl, wt = sorted(want[0x01])[0], sorted(want[0x02])[0]
                ok = (lay == [wl] and typ == [wt]) or (not lay and not typ and tg == ['make_tag(%s, %s)' % (wl, wt)])
                if 'XGEOMETRY' in recs:
                    ok = not lay and not typ and not tg
                ctx.check(ok, 'R-TABLE', 'read_oas/%s-layer-type-use' % recs[0], top.loc(), 'the element takes layer from %s and type from %s' % (wl, wt), 'layer/type taken from %s / %s / %s' % (lay, typ, tg))
        if 'PATH' in recs:
            # extension scheme: SS = (scheme & 0x0C), EE = (scheme & 0x03); value 3 -> explicit sint; 1 -> 0; 2 -> half-width
            sws = [s for st in stmts for s in st.walk() if s.k == 'SwitchStmt' and 'extension_scheme' in s.child('cond').text()]
            ok = len(sws) == 2
            for s_, mask, names_ in zip(sws, (0x0C, 0x03), ((4, 8, 12), (1, 2, 3))):
                m = O.info_mask(s_.child('cond'), 'extension_scheme')
                arms = {tuple(l): st for l, st, t in tables.switch_arms(s_)}
                ok = ok and m == mask and set(arms) == {(names_[0],), (names_[1],), (names_[2],)}
                if ok:
                    t0 = norm(' '.join(x.text() for x in arms[(names_[0],)]))
                    t1 = norm(' '.join(x.text() for x in arms[(names_[1],)]))
                    t2 = norm(' '.join(x.text() for x in arms[(names_[2],)]))
                    ok = t0.endswith('= 0)') and t1.endswith('= modal_path_halfwidth)') and 'oasis_read_integer(in)' in t2
            ctx.check(ok, 'R-TABLE', 'read_oas/PATH-extension-scheme', top.loc(), 'SS/EE: 01 -> flush (0), 10 -> half-width, 11 -> explicit signed extension; 00 keeps the modal value')
        if 'RECTANGLE' in recs:
            sq = [x for st in stmts for x in st.walk() if is_assign(x) and norm(x.child('lhs').text()) == 'modal_geom_dim.y' and norm(x.child('rhs').text()) == 'modal_geom_dim.x']
            ok = len(sq) == 1
            if ok:
                masks = []
                cur = sq[0]
                for a in sq[0].ancestors():
                    if a.k == 'IfStmt':
                        m = O.info_mask(a.child('cond'))
                        if m is not None:
                            masks.append((m, a.child('then') is cur or (a.child('then') is not None and any(x is sq[0] for x in a.child('then').walk()))))
                    if a.k in ('CaseStmt', 'SwitchStmt'):
                        break
                    cur = a
                ok = sorted(masks) == [(0x20, False), (0x80, True)]
            ctx.check(ok, 'R-DEP', 'read_oas/RECTANGLE-square', top.loc(), 'height = width exactly when S is set and no explicit height is present (independent of W: the width may come from the modal variable)',
                      'the square rule of RECTANGLE depends on other bits than S and H (e.g. nested under W): a square re-using the modal width keeps a stale height')
    ctx.require('R-FIELDSEQ reader arms', n, 20)
    # position blocks: every info-bit-guarded coordinate read either replaces the modal coordinate (absolute mode) or is added to it
    # (relative mode), scaled by `factor` - decided by interpreting the guarded statement (sa/minieval) for both modes, so an
    # if/else, a conditional expression or a helper / lambda taking the coordinate by reference are the same block
    from .. import minieval as M
    blocks = []
    bad = []
    for i in f.walk():
        if i.k == 'IfStmt' and O.info_mask(i.child('cond')) is not None:
            th = i.child('then')
            if th is None or not any(c.k == 'CallExpr' and c.callee == 'gdstk::oasis_read_integer' for c in th.walk()):
                continue
            if not any(x.k == 'DeclRefExpr' and re.fullmatch(r'modal_(placement|text|geom)_pos', x.n or '') for x in th.walk()):
                continue
            if not any(x.k == 'DeclRefExpr' and x.n == 'modal_absolute_pos' for x in th.walk()):
                continue
            blocks.append(i)
            for mode in (0, 1):
                env = {'factor': 3, 'modal_absolute_pos': mode, 'in': ('opaque', 'in')}
                for k_ in ('placement', 'text', 'geom'):
                    env['modal_%s_pos' % k_] = M.Obj(x=100, y=200)

                def hook(callee, args, node):
                    if callee == 'gdstk::oasis_read_integer':
                        return (7,)
                    return None
                mi = M.Mini(db, hook=hook)
                mi.obj_store = True
                try:
                    mi.run(th, env)
                except (M.Return, M._Break, M._Continue):
                    pass
                except AnalysisBroken as ex:
                    raise AnalysisBroken('read_oas: coordinate block at %s is outside the interpreter: %s' % (i.loc(), ex))
                changed = [(k_, c_, env['modal_%s_pos' % k_][c_]) for k_ in ('placement', 'text', 'geom') for c_ in ('x', 'y') if env['modal_%s_pos' % k_][c_] != {'x': 100, 'y': 200}[c_]]
                want = lambda c_: 21 if mode else {'x': 100, 'y': 200}[c_] + 21
                if len(changed) != 1 or changed[0][2] != want(changed[0][1]):
                    bad.append((i.loc(), 'absolute' if mode else 'relative', changed))
    ctx.explored['valuations'] += 2 * len(blocks)
    ctx.check(not bad, 'R-CLONE', 'read_oas/position-blocks', f.loc(),
              'all %d coordinate reads: one modal coordinate becomes factor x value in absolute mode and is advanced by factor x value in relative mode' % len(blocks),
              'position handling is wrong at %s' % ['%s (%s mode: %s)' % b_ for b_ in bad][:3])
    ctx.require('R-CLONE position blocks', len(blocks), 18)
    # each position block writes the modal position of its record family
    cellarm = next((stmts for labels, stmts, top in tables.switch_arms(sw) if any(names.get(l) == 'CELL' for l in labels)), [])
    t = norm(' '.join(x.text() for st in cellarm for x in st.walk() if is_assign(x)))
    ok = '(modal_absolute_pos = true)' in t and all(('(modal_%s_pos = ' % k) in t for k in ('placement', 'geom', 'text'))
    ctx.check(ok, 'R-SHAPE', 'read_oas/CELL-resets-modals', f.loc(), 'a CELL record resets the position mode to absolute and the three modal positions')
    xa = {names.get(l): norm(' '.join(x.text() for st in stmts for x in st.walk() if is_assign(x))) for labels, stmts, top in tables.switch_arms(sw) for l in labels if names.get(l) in ('XYABSOLUTE', 'XYRELATIVE')}
    ctx.check(xa.get('XYABSOLUTE') == '(modal_absolute_pos = true)' and xa.get('XYRELATIVE') == '(modal_absolute_pos = false)', 'R-TABLE', 'read_oas/XY-mode', f.loc(), 'XYABSOLUTE / XYRELATIVE switch the position mode')


def writer_regions(db):
    out = []
    for qn in ('gdstk::Polygon::to_oas', 'gdstk::FlexPath::to_oas', 'gdstk::RobustPath::to_oas', 'gdstk::properties_to_oas'):
        f = db.fn(qn)
        out.append((qn.replace('gdstk::', ''), f, f.body))
    w = db.fn('gdstk::Library::write_oas')
    for rec in ('PLACEMENT', 'TEXT', 'CELLNAME_IMPLICIT', 'TEXTSTRING', 'PROPNAME', 'PROPSTRING_IMPLICIT'):
        call = next((c for c in w.walk() if c.k == 'CallExpr' and c.callee == 'gdstk::oasis_putc' and ('OasisRecord::%s' % rec) in norm(c.args[0].text()) and not norm(c.args[0].text()).endswith('_TRANSFORM')), None)
        if call is None:
            raise AnalysisBroken('write_oas: block writing %s not found' % rec)
        loop = next((a for a in call.ancestors() if a.k == 'ForStmt'), None)
        out.append(('Library::write_oas[%s]' % rec, w, loop.child('body')))
    return out


ROLE_PAT = {'layer': (r'get_layer\(', None), 'datatype': (r'get_type\(', None), 'x': (r'\.x\b', r'\.y\b'), 'y': (r'\.y\b', r'\.x\b'), 'w': (r'\.x\b', r'\.y\b'), 'h': (r'\.y\b', r'\.x\b')}


def role_mismatch(rec, info, inst):
    """the value written under a field bit is the element's matching attribute (layer under L, x under X, ...)"""
    roles = O.field_roles(rec, info)
    ops = [o for o in inst['ops'] if o[0] not in ('guard', 'loop-begin', 'loop-end')]
    i = 0
    for codec, role in roles:
        if codec == 'string':
            i += 2
            continue
        if codec == 'ext':
            while i < len(ops) and ops[i][0] == 'sint' and any(o[0] == 'plist' for o in ops[i:]):
                i += 1
            continue
        if i >= len(ops):
            return None
        if role is not None:
            arg = ops[i][1] if isinstance(ops[i][1], str) else ''
            yes, no = ROLE_PAT[role]
            if not re.search(yes, arg) or (no and re.search(no, arg)):
                return '%s with info 0x%02X: the %s field is written from `%s`' % (rec, info, role, arg)
        i += 1
    return None


def reader_angle_table(db):
    """{AA code (info & 0x06): quarter turns} as read_oas decodes the compact PLACEMENT record: for each of the four codes, the constant
    stored into the reference's rotation by the statement whose conditions hold for that info byte - case labels of a switch on
    (info & 0x06), or comparisons of that value (also through a named local) in an if chain, evaluated with sa/minieval. 0 when
    nothing is stored (the rotation of a fresh reference)."""
    from .. import minieval as M
    r = db.fn('gdstk::read_oas')
    stores = [x for x in r.walk() if is_assign(x) and x.op == '=' and norm(x.child('lhs').text()).endswith('->rotation') and _strip_casts(x.child('rhs')) is not None
              and not any(c.k in ('CallExpr', 'CXXMemberCallExpr') for c in x.child('rhs').walk())]
    table = {}
    for v in (0, 2, 4, 6):
        hit = []
        for st in stores:
            ok = True
            cur = st
            for a in st.ancestors():
                if a.k == 'SwitchStmt' and O.info_mask(a.child('cond')) == 0x06:
                    arm = next((labels for labels, stmts, top in tables.switch_arms(a) if any(any(y is st for y in s_.walk()) for s_ in stmts)), None)
                    ok = ok and arm is not None and v in arm
                elif a.k == 'SwitchStmt':
                    break       # the record dispatch: above it nothing depends on the angle code
                elif a.k == 'IfStmt' and (cur is a.child('then') or cur is a.child('else')):
                    c = a.child('cond')
                    if not any(y.k == 'DeclRefExpr' and (y.n == 'info' or 'quadrant' in (y.n or '') or (y.dk == 'local' and (y.t or '').replace('const ', '').strip() in ('uint8_t', 'unsigned char', 'int', 'uint64_t'))) for y in c.walk()):
                        cur = a
                        continue
                    if O.info_mask(c) is not None and O.info_mask(c) & 0x06 == 0:
                        cur = a
                        continue       # a test of another info bit
                    try:
                        val = M.Mini(db).ev(c, {'info': v})        # a test of the info byte itself
                    except AnalysisBroken:
                        try:
                            val = M.value_at(db, c, env0={'info': v})      # ... or of a local computed from it
                        except AnalysisBroken:
                            cur = a
                            continue
                    ok = ok and (bool(val) == (cur is a.child('then')))
                cur = a
            if ok:
                hit.append(st)
        if len(hit) > 1:
            raise AnalysisBroken('read_oas: several rotation stores apply to angle code %d' % v)
        if hit:
            rv = _strip_casts(hit[0].child('rhs'))
            val = rv.fv if rv.fv is not None else float(M.Mini(db).ev(hit[0].child('rhs'), {}))
            table[v] = val / 1.5707963267948966
        else:
            table[v] = 0
    return table


def check_writers(ctx, db):
    names = {c['v']: c['n'] for c in db.enum('gdstk::OasisRecord')['consts']}
    total = 0
    for label, f, region in writer_regions(db):
        ctx.touch(f)
        atoms, res = O.interpret_writer(f, region, names)
        ctx.explored['valuations'] += len(res)
        bad = []
        seen = set()
        for env, ops in res:
            for inst in O.record_instances(ops):
                rec, info = inst['record'], inst['info']
                key = (rec, info, tuple(inst['fields']))
                if key in seen:
                    continue
                seen.add(key)
                if rec in O.SPEC:
                    if info is None:
                        bad.append('%s: info byte not written right after the record id' % rec)
                        continue
                    val, unk = info
                    # enumerate completions of unknown bits
                    subs = [0]
                    for b in range(8):
                        if unk & (1 << b):
                            subs += [x | (1 << b) for x in subs]
                    for add in subs:
                        exp = O.spec_sequence(rec, val | add)
                        got = O.normalise_fields(inst['fields'], exp)
                        if got != exp:
                            bad.append('%s with info 0x%02X writes %s, the standard requires %s' % (rec, val | add, got, exp))
                            break
                        r = role_mismatch(rec, val | add, inst)
                        if r:
                            bad.append(r)
                            break
                    total += 1
                elif rec in O.NAME_RECORDS:
                    exp = O.NAME_RECORDS[rec].split()
                    got = O.normalise_fields(inst['fields'], exp)
                    if got != exp:
                        bad.append('%s writes %s, expected %s' % (rec, got, exp))
                    total += 1
                elif rec == 'PROPERTY':
                    total += 1
        ctx.check(not bad, 'R-FIELDSEQ', 'writer/%s' % label, region.loc(), '%d distinct (record, info, fields) instances over %d valuations: a field is written iff its info bit is set, in the standard\'s order and codec' % (len(seen), len(res)),
                  '; '.join(bad[:3]))
    ctx.require('R-FIELDSEQ writer record instances', total, 45)
    # PLACEMENT vs PLACEMENT_TRANSFORM choice and AA code
    w = db.fn('gdstk::Library::write_oas')
    t = norm(clone.canon(w.body, w))
    # the test that chooses between the two records, evaluated (sa/minieval) for magnification 1 / 2 x rotation a multiple of 90 degrees or not
    from .. import minieval as _M
    sel = [i_ for i_ in w.walk() if i_.k == 'IfStmt' and i_.child('else') is not None and any(
        {('PLACEMENT_TRANSFORM' in norm(a_.text())) for a_ in br.walk() if a_.k == 'DeclRefExpr' and a_.dk == 'enum' and a_.n in ('PLACEMENT', 'PLACEMENT_TRANSFORM')} == {pol}
        for br, pol in ((i_.child('then'), False),)) and any(a_.k == 'DeclRefExpr' and a_.dk == 'enum' and a_.n == 'PLACEMENT_TRANSFORM' for a_ in i_.child('else').walk())]
    ok = len(sel) == 1
    if ok:
        for mag in (1.0, 2.0):
            for mult in (0, 1):
                def _hook(callee, args, node, mult=mult):
                    if (callee or '').endswith('is_multiple_of_pi_over_2'):
                        return (mult,)
                    return None
                mi_ = _M.Mini(db, hook=_hook, budget=2000)
                mi_.obj_store = True
                env_ = {x_.n: _M.Obj(magnification=mag, rotation=0.5, x_reflection=0) for x_ in sel[0].child('cond').walk() if x_.k == 'DeclRefExpr' and x_.dk in ('local', 'param') and '*' in (x_.t or '')}
                for x_ in sel[0].child('cond').walk():
                    if x_.k == 'DeclRefExpr' and x_.dk in ('local', 'param') and x_.n not in env_:
                        env_[x_.n] = 0
                try:
                    got_ = bool(mi_.ev(sel[0].child('cond'), env_))
                except AnalysisBroken:
                    got_ = None
                if got_ != (mag == 1.0 and bool(mult)):
                    ok = False
    ctx.check(ok, 'R-TABLE', 'write_oas/PLACEMENT-choice', w.loc(), 'the compact PLACEMENT (17) is used exactly for unit magnification and rotations that are multiples of 90 degrees')
    aa = [x for x in w.walk() if x.k == 'CompoundAssignOperator' and x.op == '|=' and norm(x.child('lhs').text()) == 'info' and '<< 1' in norm(x.child('rhs').text())]
    ok = len(aa) == 2 and all('(3 & ' in norm(x.child('rhs').text()) for x in aa)
    ctx.check(ok, 'R-TABLE', 'write_oas/PLACEMENT-angle-code', w.loc(), 'AA = (m mod 4) in bits 1-2 (m quarter turns, negative m wrapped)')
    r = db.fn('gdstk::read_oas')
    got = reader_angle_table(db)
    ok = all(abs(got.get(c_, -1) - q_) < 1e-9 for c_, q_ in ((0, 0), (2, 1), (4, 2), (6, 3)))
    ctx.check(ok, 'R-TABLE', 'read_oas/PLACEMENT-angle-code', r.loc(), 'AA = 01/10/11 -> 90/180/270 degrees', 'angle table: %s' % got)


def check_end_record(ctx, db):
    w = db.fn('gdstk::Library::write_oas')
    ren = clone.Renamer(w, params_by_name=True)
    offs = {}
    for v in w.walk():
        if v.k == 'VarDecl' and v.n.endswith('_offset') and v.child('init') is not None and 'ftell' in v.child('init').text():
            offs[v.n] = (v, norm(v.child('init').text()))
    want = {'cell_name_offset': '((c_size > 0) ? ftell(out.file) : 0)', 'text_string_offset': '((text_string_map.count > 0) ? ftell(out.file) : 0)',
            'prop_name_offset': '((state.property_name_map.count > 0) ? ftell(out.file) : 0)', 'prop_string_offset': '((state.property_value_array.count > 0) ? ftell(out.file) : 0)'}
    ok = {k: v[1] for k, v in offs.items()} == want
    ctx.check(ok, 'R-SHAPE', 'write_oas/table-offsets-guarded', w.loc(), 'each table offset is ftell() when the table is non-empty, else 0', 'offset initialisers: %s' % {k: v[1] for k, v in offs.items()})
    # each offset is captured immediately before the loop writing that table's records
    firsts = {'cell_name_offset': 'CELLNAME_IMPLICIT', 'text_string_offset': 'TEXTSTRING', 'prop_name_offset': 'PROPNAME', 'prop_string_offset': 'PROPSTRING_IMPLICIT'}
    body = [s for s in w.body.c if s is not None]
    for k, rec in firsts.items():
        v = offs.get(k, (None,))[0]
        ok = v is not None
        if ok:
            ds = v.parent
            idx = body.index(ds)
            nxt = next((s for s in body[idx + 1:] if s.k == 'ForStmt'), None)
            between = [s for s in body[idx + 1:body.index(nxt)]] if nxt is not None else []
            ok = nxt is not None and ('OasisRecord::%s' % rec) in norm(' '.join(c.text() for c in nxt.walk() if c.k == 'CallExpr' and c.callee == 'gdstk::oasis_putc'))
            ok = ok and not any(c.k == 'CallExpr' and c.callee in O.WRITE_CODEC for s in between for c in s.walk())
        ctx.check(ok, 'R-DEP', 'write_oas/offset:%s' % k, v.loc() if v is not None else w.loc(), 'the offset is taken immediately before the first %s record is written' % rec)
    # END record body: four (flag 1, offset) pairs in order, then two empty tables, padding, validation
    end = next((c for c in w.walk() if c.k == 'CallExpr' and c.callee == 'gdstk::oasis_putc' and norm(c.args[0].text()).endswith('OasisRecord::END')), None)
    idx = body.index(end)
    seq = []
    for s in body[idx + 1:]:
        for c in ([s] if s.k == 'CallExpr' else []):
            if c.callee == 'gdstk::oasis_putc':
                seq.append('putc(%s)' % norm(c.args[0].text()))
            elif c.callee == 'gdstk::oasis_write_unsigned_integer':
                seq.append('uint(%s)' % norm(c.args[1].text()))
    want_seq = ['putc(1)', 'uint(cell_name_offset)', 'putc(1)', 'uint(text_string_offset)', 'putc(1)', 'uint(prop_name_offset)', 'putc(1)', 'uint(prop_string_offset)', 'putc(1)', 'putc(0)', 'putc(1)', 'putc(0)', 'uint(pad_len)']
    ctx.check(seq[:13] == want_seq, 'R-FIELDSEQ', 'write_oas/END-table-offsets', end.loc(), 'END holds six (strict flag, offset) pairs in the standard\'s order: cellname, textstring, propname, propstring, layername, xname', 'END body: %s' % seq[:13])
    pad = next((v for v in w.walk() if v.k == 'VarDecl' and v.n == 'pad_len'), None)
    t = norm(pad.child('init').text()) if pad is not None else ''
    padsub = [x for x in w.walk() if x.k == 'CompoundAssignOperator' and x.op == '-=' and norm(x.child('lhs').text()) == 'pad_len']
    ok = t == '((((256 - 1) - 2) - 1) + ftell(out.file))' and sorted(norm(x.child('rhs').text()) for x in padsub) == ['4', 'ftell(out.file)']
    ctx.check(ok, 'R-CONST', 'write_oas/END-padding', pad.loc() if pad is not None else w.loc(), 'the END record is padded to 256 bytes: 256 - record id - b-string length (2) - validation scheme (1) [- 4 signature bytes] - table offsets')
    tail = norm(clone.canon(body[-6] if len(body) > 6 else w.body, w))
    val = [i for i in body if i.k == 'IfStmt' and norm(i.child('cond').text()) == 'out.crc32']
    ok = len(val) >= 1
    if ok:
        tv = norm(clone.canon(val[-1], w))
        ok = 'oasis_putc(1, v' in tv and 'oasis_putc(2, v' in tv and 'oasis_putc(0, v' in tv and tv.count('little_endian_swap32((&v') == 2 and tv.count('fwrite(<BitCast') + tv.count('fwrite((&v') + tv.count('fwrite(') >= 2
    ctx.check(ok, 'R-TABLE', 'write_oas/END-validation', w.loc(), 'validation scheme 1 = CRC32, 2 = CHECKSUM32 (little-endian signature follows), 0 = none')


def check_std_properties(ctx, db):
    w = db.fn('gdstk::Library::write_oas')
    sets = [c for c in w.walk() if c.k == 'CallExpr' and c.callee == 'gdstk::set_property' and norm(c.args[1].text()).startswith('s_')]
    rems = [c for c in w.walk() if c.k == 'CallExpr' and c.callee == 'gdstk::remove_property' and norm(c.args[1].text()).startswith('s_')]
    n = 0
    bad = []
    for c in sets:
        nm = norm(c.args[1].text())
        n += 1
        guards = [norm(a.child('cond').text()) for a in c.ancestors() if a.k == 'IfStmt']
        if not any('state.config_flags &' in g or g == 'write_cell_offsets' for g in guards):
            bad.append('%s written without a config-flag guard' % nm)
        if not any(norm(r.args[1].text()) == nm and r.pos < c.pos and norm(r.args[0].text()) == norm(c.args[0].text()) for r in rems):
            bad.append('%s set without removing the stale value first' % nm)
    ctx.check(not bad and n >= 12, 'R-DEP', 'write_oas/standard-properties', w.loc(), 'all %d standard-property writes are under a config bit and follow a remove_property of the same name on the same list' % n, '; '.join(bad[:3]))
    # which name under which flag (value of the macro folded by clang)
    table = {}
    for c in sets:
        nm = norm(c.args[1].text())
        for a in c.ancestors():
            if a.k == 'IfStmt':
                g = norm(a.child('cond').text())
                m = re.search(r'state\.config_flags & (\d+)', g)
                if m:
                    table.setdefault(nm, set()).add(int(m.group(1)))
                elif g == 'write_cell_offsets':
                    table.setdefault(nm, set()).add('cell_offsets')
    want = {'s_top_level_property_name': {2}, 's_bounding_box_available_property_name': {4}, 's_bounding_box_property_name': {4}, 's_cell_offset_property_name': {'cell_offsets'},
            's_max_int_size_property_name': {1}, 's_max_uint_size_property_name': {1}, 's_max_string_size_property_name': {1}, 's_max_polygon_property_name': {1}, 's_max_path_property_name': {1}}
    ctx.check(table == want, 'R-TABLE', 'write_oas/standard-property-flags', w.loc(), 'each S_* property is controlled by its own config bit', 'flag table: %s' % table)
    wco = next((v for v in w.walk() if v.k == 'VarDecl' and v.n == 'write_cell_offsets'), None)
    m = re.search(r'state\.config_flags & (\d+)', norm(wco.child('init').text())) if wco is not None else None
    ctx.check(m is not None and m.group(1) == '8', 'R-TABLE', 'write_oas/cell-offset-flag', w.loc(), 'S_CELL_OFFSET is controlled by its config bit')
    # bounding box extents: rounded corner differences
    # evaluated (minieval.value_at) for the box (0.4, -1.6) .. (2.6, 0.4) with scaling 1: the rounded corners are (0, -2) and (3, 0), so the
    # property states 0, -2, 3, 2 - rounding the differences 2.2 and 2.0 instead would state 2 and 2
    import math as _math
    from .. import minieval as _M
    dvn = {v.n: v for v in w.walk() if v.k == 'VarDecl' and v.n in ('xmin', 'ymin', 'width', 'height') and v.child('init') is not None and 'llround' in v.child('init').text()}

    def _hk(callee, args, node):
        if (callee or '').split('::')[-1] in ('llround', 'lround'):
            v_ = float(args[0])
            return (int(_math.floor(abs(v_) + 0.5)) * (1 if v_ >= 0 else -1),)
        return None
    dv = {}
    for k_, v_ in dvn.items():
        try:
            dv[k_] = _M.value_at(db, v_.child('init'), members={'bbmin.x': 0.4, 'bbmin.y': -1.6, 'bbmax.x': 2.6, 'bbmax.y': 0.4, 'state.scaling': 1.0}, hook=_hk)
        except AnalysisBroken as ex:
            dv[k_] = 'not evaluable (%s)' % ex
    ok = dv == {'xmin': 0, 'ymin': -2, 'width': 3, 'height': 2}
    ctx.check(ok, 'R-UNIT', 'write_oas/S_BOUNDING_BOX-extents', w.loc(), 'the box property states the rounded lower-left corner and the differences of the rounded corners (what the written geometry spans)',
              'S_BOUNDING_BOX extents are not differences of the rounded corners: %s' % dv)
    # cell offsets: ftell at the CELL record
    co = next((c for c in w.walk() if c.k == 'CXXMemberCallExpr' and (c.callee or '').endswith('::set') and norm(c.child('obj').text()) == 'cell_offset_map'), None)
    ok = co is not None and norm(co.args[1].text()) == 'ftell(out.file)'
    if ok:
        comp = co.parent
        while comp is not None and comp.k != 'CompoundStmt':
            comp = comp.parent
        iff = next(a for a in co.ancestors() if a.k == 'IfStmt')
        body = iff.parent
        idx = body.c.index(iff)
        nxt = body.c[idx + 1]
        ok = nxt.k == 'CallExpr' and 'OasisRecord::CELL_REF_NUM' in norm(nxt.text())
    ctx.check(ok, 'R-DEP', 'write_oas/S_CELL_OFFSET', w.loc(), 'the stored cell offset is the file position immediately before the CELL record')


def check_start(ctx, db):
    w = db.fn('gdstk::Library::write_oas')
    v = next((v for v in w.walk() if v.k == 'VarDecl' and v.n == 'header' and v.child('init') is not None and v.child('init').k == 'InitListExpr'), None)
    if v is None:
        raise AnalysisBroken('write_oas: header initialiser not found')
    got = [c.cv for c in v.child('init').c]
    want = list(b'%SEMI-OASIS\r\n') + [1, 3] + list(b'1.0')
    ctx.check(got == want, 'R-CONST', 'write_oas/START-header', v.loc(), 'magic "%SEMI-OASIS\\r\\n", START (1), version a-string "1.0"', 'header bytes %s' % got)
    body = [s_ for s_ in w.body.c if s_ is not None]
    hw = next((s_ for s_ in body if s_.k == 'CallExpr' and s_.callee == 'gdstk::oasis_write' and norm(s_.args[0].text()) == 'header'), None)
    ok = hw is not None
    if ok:
        nxt = [s_ for s_ in body[body.index(hw) + 1:] if any(c.k == 'CallExpr' and c.callee in O.WRITE_CODEC for c in s_.walk())][:2]
        ok = len(nxt) == 2 and nxt[0].k == 'CallExpr' and nxt[0].callee == 'gdstk::oasis_write_real'
        if ok:
            e = _strip_casts(nxt[0].args[1])
            ok = e.k == 'BinaryOperator' and e.op == '/' and abs((_strip_casts(e.child('lhs')).fv or 0) - 1e-6) < 1e-18 and norm(e.child('rhs').text()) == 'this->precision'
            ok = ok and nxt[1].k == 'CallExpr' and nxt[1].callee == 'gdstk::oasis_putc' and nxt[1].args[0].cv == 1
    ctx.check(ok, 'R-FIELDSEQ', 'write_oas/START-record', w.loc(), 'START continues with the unit real (grid steps per micron = 1e-6/precision) and offset-flag 1 (table offsets are in END)')
    n = 0
    for qn in ('gdstk::read_oas', 'gdstk::oas_precision', 'gdstk::oas_validate'):
        f = db.fn(qn)
        ctx.touch(f)
        for c in f.walk():
            if c.k == 'CallExpr' and c.callee == 'memcmp' and 'header' in c.args[0].text():
                n += 1
                t = norm(c.args[1].text())
                ctx.check(t == '"%SEMI-OASIS\\r\\n\\u0001"' and c.args[2].cv == 14, 'R-CONST', '%s/magic' % qn.replace('gdstk::', ''), c.loc(), 'the reader requires the 13 magic bytes and the START record id', 'compares %s over %s bytes' % (t, c.args[2].cv))
    ctx.require('R-CONST magic comparisons', n, 3)
    f = db.fn('gdstk::oas_precision')
    unit = [x for x in f.walk() if x.k == 'BinaryOperator' and x.op == '/' and any(c.k == 'CallExpr' and c.callee == 'gdstk::oasis_read_real' for c in x.child('rhs').walk())]
    ok = len(unit) == 1 and abs((_strip_casts(unit[0].child('lhs')).fv or 0) - 1e-6) < 1e-18
    ctx.check(ok, 'R-UNIT', 'oas_precision/START-unit', f.loc(), 'precision = 1e-6 / unit: the START unit is grid steps per micron')
    f = db.fn('gdstk::read_oas')
    fac = next((v for v in f.walk() if v.k == 'VarDecl' and v.n == 'factor' and v.child('init') is not None), None)
    prec = [x for x in f.walk() if is_assign(x) and norm(x.child('lhs').text()) == 'library.precision']
    ok = fac is not None and re.fullmatch(r'\(1 / oasis_read_real\(in\)\)', norm(fac.child('init').text())) is not None and len(prec) == 1
    if ok:
        e = _strip_casts(prec[0].child('rhs'))
        ok = e.k == 'BinaryOperator' and e.op == '*' and sorted([norm(e.child('lhs').text()), norm(e.child('rhs').text())])[1] == 'factor' and any(abs((_strip_casts(e.child(r)).fv or 0) - 1e-6) < 1e-18 for r in ('lhs', 'rhs'))
    ctx.check(ok, 'R-UNIT', 'read_oas/START-unit', f.loc(), 'factor = 1 / unit and precision = 1e-6 x factor')
    otf = [i for i in f.walk() if i.k == 'IfStmt' and norm(i.child('cond').text()) == '(offset_table_flag == 0)']
    ok = len(otf) == 1
    if ok:
        loops = [l for l in otf[0].child('then').walk() if l.k == 'ForStmt']
        ok = len(loops) == 1 and _strip_casts(next(v for v in loops[0].child('init').walk() if v.k == 'VarDecl').child('init')).cv == 12 and O.seq_of([loops[0]]) == '{uint}*'
    ctx.check(ok, 'R-FIELDSEQ', 'read_oas/START-offset-table', f.loc(), 'offset-flag 0: the twelve table-offset integers follow in START and are skipped')


# SEMI P39 ctrapezoid-type table: which of the two dimensions a compact trapezoid of type t carries
CTRAP_W = set(range(0, 20)) | {22, 23, 24, 25}
CTRAP_H = set(range(0, 16)) | {20, 21, 24}


def check_ctrapezoid(ctx, db):
    from .C19 import ieval
    p = db.fn('gdstk::Polygon::to_oas')
    ctx.touch(p)
    uw = next((v for v in p.walk() if v.k == 'VarDecl' and v.n == 'use_w' and v.child('init') is not None), None)
    uh = next((v for v in p.walk() if v.k == 'VarDecl' and v.n == 'use_h' and v.child('init') is not None), None)
    if uw is None or uh is None:
        raise AnalysisBroken('Polygon::to_oas: use_w / use_h not found')
    gw = {t for t in range(26) if ieval(uw.child('init'), {'type': t})}
    gh = {t for t in range(26) if ieval(uh.child('init'), {'type': t})}
    ctx.explored['valuations'] += 52
    ctx.check(gw == CTRAP_W and gh == CTRAP_H, 'R-TABLE', 'Polygon::to_oas/CTRAPEZOID-dimensions', uw.loc(), 'for ctrapezoid types 0..25 the width is written exactly for the types the standard gives a width (all but 20, 21) and the height for 0-15, 20, 21, 24',
              'CTRAPEZOID dimension table differs from the standard: width written for %s (missing %s, extra %s), height written for %s (missing %s, extra %s)' % (sorted(gw), sorted(CTRAP_W - gw), sorted(gw - CTRAP_W), sorted(gh), sorted(CTRAP_H - gh), sorted(gh - CTRAP_H)))
    bits = {}
    for x in p.walk():
        if x.k == 'CompoundAssignOperator' and x.op == '|=' and norm(x.child('lhs').text()) == 'info' and x.parent is not None:
            g = next((a for a in x.ancestors() if a.k == 'IfStmt'), None)
            if g is not None and norm(g.child('cond').text()) in ('use_w', 'use_h'):
                bits[norm(g.child('cond').text())] = x.child('rhs').cv
    ctx.check(bits == {'use_w': 0x40, 'use_h': 0x20}, 'R-TABLE', 'Polygon::to_oas/CTRAPEZOID-bits', uw.loc(), 'W = 0x40 under use_w, H = 0x20 under use_h', 'bits: %s' % bits)
    # reader: triangles are types 16..23; the dimension a type does not carry is derived and stored in the modal variable
    r = db.fn('gdstk::read_oas')
    tri = next((i for i in r.walk() if i.k == 'IfStmt' and norm(i.child('cond').text()).count('modal_ctrapezoid_type') == 2), None)
    sw = next((s_ for s_ in r.walk() if s_.k == 'SwitchStmt' and norm(s_.child('cond').text()) == 'modal_ctrapezoid_type'), None)
    if tri is None or sw is None:
        raise AnalysisBroken('read_oas: CTRAPEZOID type dispatch not found')
    got = {t for t in range(26) if ieval(tri.child('cond'), {'modal_ctrapezoid_type': t})}
    ctx.check(got == set(range(16, 24)), 'R-TABLE', 'read_oas/CTRAPEZOID-triangles', tri.loc(), 'types 16..23 are the triangles', 'triangle types: %s' % sorted(got))
    derived = {}
    seen = set()
    for labels, stmts, top in tables.switch_arms(sw):
        st = {norm(x.child('lhs').text()) for s_ in stmts for x in s_.walk() if is_assign(x) and norm(x.child('lhs').text()).startswith('modal_geom_dim.')}
        uses = {m_ for s_ in stmts for x in s_.walk() if x.k == 'MemberExpr' for m_ in [norm(x.text())] if m_.startswith('modal_geom_dim.')}
        for l in labels:
            seen.add(l)
            derived[l] = (st, uses - st)
    bad = []
    for t in range(26):
        if t == 24:
            continue
        if t not in derived:
            bad.append('type %d has no arm' % t)
            continue
        st, uses = derived[t]
        need_store = set()
        if t not in CTRAP_H and t != 25:
            need_store.add('modal_geom_dim.y')
        if t not in CTRAP_W:
            need_store.add('modal_geom_dim.x')
        if st != need_store:
            bad.append('type %d stores %s (expected %s)' % (t, sorted(st), sorted(need_store)))
        absent = ({'modal_geom_dim.y'} if t not in CTRAP_H else set()) | ({'modal_geom_dim.x'} if t not in CTRAP_W else set())
        if uses & absent:
            bad.append('type %d reads %s, which the record does not carry' % (t, sorted(uses & absent)))
    ctx.check(not bad, 'R-TABLE', 'read_oas/CTRAPEZOID-derived-dimensions', sw.loc(), 'each type uses only the dimensions it carries; the missing one is derived (h = w, h = 2w, w = 2h) and stored in the modal geometry', '; '.join(bad[:4]))


def check_modal_repetition(ctx, db):
    """repetition type 0 = reuse the modal repetition: the reader must return before touching it, and every element copies from it"""
    r = db.fn('gdstk::oasis_read_repetition')
    ctx.touch(r)
    body = [s_ for s_ in r.body.c if s_ is not None]
    t0 = [i for i in body if i.k == 'IfStmt' and norm(i.child('cond').text()) == '(type == 0)']
    writes = [s_ for s_ in body if any((x.k == 'CXXMemberCallExpr' and norm(x.child('obj').text()) == 'repetition') or ((is_assign(x) or x.k == 'CompoundAssignOperator') and norm(x.child('lhs').text()).startswith('repetition.')) for x in s_.walk())]
    ok = len(t0) == 1 and any(x.k == 'ReturnStmt' for x in t0[0].child('then').walk()) and writes and all(t0[0].pos < w_.pos for w_ in writes)
    ctx.check(ok, 'R-DEP', 'oasis_read_repetition/type0-keeps-modal', r.loc(), 'type 0 returns before anything is stored in (or cleared from) the modal repetition', 'the modal repetition is modified before the type-0 (reuse) test')
    f = db.fn('gdstk::read_oas')
    calls = [c for c in f.walk() if c.k == 'CallExpr' and c.callee == 'gdstk::oasis_read_repetition']
    bad = []
    for c in calls:
        if norm(c.args[-1].text()) != 'modal_repetition':
            bad.append('%s reads into %s' % (c.loc(), norm(c.args[-1].text())))
            continue
        blk = c.parent
        nxt = blk.c[blk.c.index(c) + 1] if blk is not None and blk.k == 'CompoundStmt' and blk.c.index(c) + 1 < len(blk.c) else None
        if nxt is None:
            case = next((a for a in c.ancestors() if a.k == 'CaseStmt'), None)
            if case is not None and not any(x.k == 'CallExpr' and x.callee == 'gdstk::allocate_clear' for x in case.walk()):
                continue  # XGEOMETRY: the record is skipped, no element is created, the modal repetition is still updated
        if nxt is None or not (nxt.k == 'CXXMemberCallExpr' and (nxt.callee or '').endswith('::copy_from') and norm(nxt.args[0].text()) in ('modal_repetition', 'Repetition{modal_repetition}')):
            bad.append('%s: the element does not copy the modal repetition' % c.loc())
    ctx.check(len(calls) >= 9 and not bad, 'R-CLONE', 'read_oas/repetition-through-modal', f.loc(), 'all %d repetition fields are read into the modal repetition, which the element then copies' % len(calls), '; '.join(bad[:3]))


def run(ctx):
    db = ctx.db
    ctx.attempt(check_start, ctx, db)
    ctx.attempt(check_reader, ctx, db)
    ctx.attempt(check_writers, ctx, db)
    ctx.attempt(check_end_record, ctx, db)
    ctx.attempt(check_std_properties, ctx, db)
    ctx.attempt(check_ctrapezoid, ctx, db)
    ctx.attempt(check_modal_repetition, ctx, db)
    from . import C02   # UUUU = 15 is the standard's escape for an explicit value count: writer and reader agree on it for counts 0..40
    ctx.attempt(C02.check_property, ctx, db)
    ctx.attempt(C02.check_ctrapezoid_tables, ctx, db)# the 16 trapezoid types: writer classification inverse to the reader construction
    from .. import fresh   # S_PATH_MAX_VERTICES: one element's centre line at a time
    nf = fresh.check_function(ctx, db.fn('gdstk::Library::write_oas'))
    ctx.require('R-FRESH scratch arrays in write_oas', nf, 2)


MANIFEST = dict(
    text='Decides structural agreement of gdstk\'s OASIS reader and writer with the record rows of SEMI P39: for every reader arm and all 256 info bytes the ordered codec reads equal the standard\'s row (decision-tree simulation, robust to re-nesting); every writer block, under every valuation of its branch conditions, writes a field iff its info bit is set, in order and with the specified codec; position reads are one uniform absolute/relative block and CELL resets the modal state; the RECTANGLE square rule depends only on S and the absence of H; record numbering equals the standard; PLACEMENT angle codes agree on both sides; the END record holds the six table-offset pairs in order with offsets captured immediately before each table (0 when empty), padding to 256 bytes and the validation scheme byte; standard properties are written only under their config bit after removing the stale value, the bounding-box extents are differences of rounded corners and cell offsets are taken right before the CELL record. That every legal encoding decodes to the right geometry, and the numeric truth of offsets/boxes, are not decided. The PLACEMENT angle table and the x/y position blocks of read_oas are decided by evaluating the statements that hold for each info byte / AA code (sa/minieval), whatever their form.',
    note='Trusted: clang front end, gx, sa/oasfields.py (decision-tree extraction and abstract writer interpretation; conditions it cannot classify raise analysis-broken), record rows transcribed from SEMI P39.',
    technique='decision-tree extraction + exhaustive simulation over info bytes against the specification rows; abstract interpretation of writer blocks under predicate atoms; def-use/ordering rules for the END record and standard properties + evaluation of the reader\'s position and angle statements per info byte (sa/minieval)',
    design='§4 C04')
