"""C05 — Boolean operations: operation -> clip-type table, operand roles, fill rules, grid-unit
discipline, result-tree traversal and hole linking dispatch, no integer coordinate products."""
import re
from .. import tables, clone, minmax
from ..facts import AnalysisBroken
from ..flow import lvalue_key, is_assign, _strip_casts

EXPLANATION = ('R-TABLE/R-EXHAUST: boolean() maps Or/And/Xor/Not to ctUnion/ctIntersection/ctXor/ctDifference and covers every '
               'Operation. R-EFFECT: the first operand reaches Clipper only as ptSubject and the second only as ptClip (Not is '
               'asymmetric); both fill rules are pftNonZero. R-UNIT: polygon_to_path rounds llround(scaling x coordinate) for X and Y '
               'in both orientation branches (clones up to the pointer direction) and normalises orientation from signed_area; '
               'path_to_polygon multiplies by 1/scaling of the same parameter; boolean() passes the same scaling both ways. '
               'R-SHAPE: tree_to_polygons walks the WHOLE result tree (GetFirst/GetNext), emits every non-hole node and links its '
               'holes iff it has children. R-OVERFLOW: no product of two 64-bit grid coordinates is formed in integer arithmetic '
               '(products of differences overflow inside the admissible 62-bit range). link_holes: running minimum by point_less. '
               'Set-theoretic correctness inside Clipper and the keyhole geometry are not decided.')
ASSUMPTIONS = ['external/clipper is not analysed']
XREF_FILES = ['src/clipper_tools.cpp']


def norm(t):
    return re.sub(r'<[A-Za-z]+:(?!:)[^>]*>', '', t).replace('gdstk::', '').replace('ClipperLib::', '')


def pretty(s_):
    from ..flow import pretty_key
    return pretty_key(s_[0]) + ('.' + s_[1] if s_[1] else '')


def check_conversions(ctx, db):
    """polygon_to_path: for both orientations the grid point d receives llround(scaling x coordinate) of input vertex d
    (counter-clockwise input) or of vertex n-1-d (clockwise input, negative signed area): decided from the affine loop
    summaries (sa/loops.py) of whatever loops the function uses, under both truth values of the orientation flag, and
    from the value-flow sources of the stored coordinates (sa/deps.py)."""
    from .. import loops as LP, deps
    from ..linear import lin_add
    f = db.fn('gdstk::polygon_to_path')
    ctx.touch(f)
    D = deps.Deps(f)
    stores = [x for x in f.walk() if is_assign(x) and x.op == '=' and _strip_casts(x.child('lhs')).k == 'MemberExpr' and _strip_casts(x.child('lhs')).n in ('X', 'Y')]
    if len(stores) < 2:
        raise AnalysisBroken('polygon_to_path: stores into IntPoint::X / Y not found')
    # the orientation flag: a boolean local defined as signed_area() < 0, or that comparison used directly
    flag = None
    for v in f.walk():
        if v.k == 'VarDecl' and 'bool' in (v.t or '') and v.child('init') is not None:
            c = _strip_casts(v.child('init'))
            if c.k == 'BinaryOperator' and c.op in ('<', '>') and any(m.k == 'CXXMemberCallExpr' and (m.callee or '').endswith('Polygon::signed_area') for m in c.walk()):
                z, a = (c.child('rhs'), c.child('lhs')) if c.op == '<' else (c.child('lhs'), c.child('rhs'))
                if (_strip_casts(z).cv == 0 or _strip_casts(z).fv == 0.0) and any(m.k == 'CXXMemberCallExpr' for m in a.walk()):
                    flag = 'v%d:%s' % (v.d, v.n)
    if flag is None:
        cand = [v for v in f.walk() if v.k == 'VarDecl' and 'bool' in (v.t or '') and v.child('init') is not None]
        if len(cand) == 1:
            ctx.violation('R-SHAPE', 'polygon_to_path/orientation', cand[0].loc(), 'the vertex order is decided by `%s`, not by the sign of the signed area: clockwise input is not reversed, so the path handed to Clipper is not counter-clockwise' % norm(cand[0].child('init').text()))
            return
        raise AnalysisBroken('polygon_to_path: orientation flag (signed_area() < 0) not found')
    unit_bad, shape_bad = [], []
    nsites = 0
    for reverse in (False, True):
        bools = {flag: reverse}

        def ev(cond, bools=bools):
            return LP.Loop.fold_static(f, cond, bools)
        unknown = []
        ex = tables.executed([f.body], {}, unknown=unknown, evaluator=ev)
        live = [x for x in stores if any(any(y is x for y in st.walk()) for st, _ in ex)]
        if not live or len({_strip_casts(x.child('lhs')).n for x in live}) != 2:
            shape_bad.append('with reverse=%s the executed code does not store both X and Y' % reverse)
            continue
        for x in live:
            nsites += 1
            lhs = _strip_casts(x.child('lhs'))
            comp = lhs.n.lower()
            r = _strip_casts(x.child('rhs'))
            src = D.sources(r)
            pts = {s_: t for s_, t in src.items() if s_[1] in ('x', 'y', '?')}
            scal = {s_: t for s_, t in src.items() if s_[1] is None}
            if not (r.k == 'CallExpr' and r.callee in ('llround', 'lround')):
                unit_bad.append('%s: %s is not rounded with llround' % (x.loc(), lhs.n))
            if len(pts) != 1 or next(iter(pts))[1] != comp or next(iter(pts.values())) != frozenset({'scale'}):
                unit_bad.append('%s: %s is computed from %s (expected scaling x the %s coordinate of one vertex)' % (x.loc(), lhs.n, {pretty(s_): sorted(t) for s_, t in pts.items()}, comp))
            if len(scal) != 1 or not next(iter(scal))[0].endswith(':scaling') and 'scaling' not in next(iter(scal))[0]:
                unit_bad.append('%s: the factor is %s, not the scaling parameter' % (x.loc(), sorted(pretty(s_) for s_ in scal)))
            L = LP.enclosing_loop(x)
            if L is None:
                raise AnalysisBroken('polygon_to_path: coordinate store outside a loop')
            lp = LP.Loop(f, L, bools=bools)
            trip = lp.trip()
            dst = lp.element_ptr(lhs, x)
            leaf = next((m for m in r.walk() if m.k == 'MemberExpr' and m.n in ('x', 'y')), None)
            sp = lp.element_ptr(leaf, x) if leaf is not None else None
            if trip is None or dst is None or sp is None:
                raise AnalysisBroken('polygon_to_path: loop at %s not summarised (trip %s, destination %s, source %s)' % (L.loc(), trip, dst, sp))
            dk, sk = dst.get(LP.K, 0), sp.get(LP.K, 0)
            d0 = {k_: v for k_, v in dst.items() if k_ != LP.K}
            s0 = {k_: v for k_, v in sp.items() if k_ != LP.K}
            dbase = [k_ for k_ in d0 if k_ != 1]
            sbase = [k_ for k_ in s0 if k_ != 1 and k_.endswith('.items')]
            if dk != 1 or len(dbase) != 1 or d0.get(1, 0) != 0:
                shape_bad.append('reverse=%s: grid point index is %s (expected k)' % (reverse, dst))
                continue
            if len(sbase) != 1:
                raise AnalysisBroken('polygon_to_path: source base not identified in %s' % sp)
            count = {sbase[0][:-len('.items')] + '.count': 1}
            if lin_add(trip, count, -1):
                shape_bad.append('reverse=%s: the loop runs %s times, not once per vertex' % (reverse, trip))
            off = lin_add(s0, {sbase[0]: 1}, -1)
            if not reverse and not (sk == 1 and not off):
                shape_bad.append('counter-clockwise input: grid point k is taken from vertex %s + %d k (expected vertex k)' % (off, sk))
            if reverse and not (sk == -1 and not lin_add(off, lin_add(count, {1: -1}), -1)):
                shape_bad.append('clockwise input (negative signed area): grid point k is taken from vertex %s + %d k (expected vertex n-1-k: the path handed to Clipper must be counter-clockwise)' % (off, sk))
    ctx.explored['valuations'] += 2
    ctx.require('polygon_to_path coordinate stores', nsites, 4)
    ctx.check(not unit_bad, 'R-UNIT', 'polygon_to_path/llround(scaling*coord)', f.loc(), 'X and Y are llround(scaling x coordinate) of one vertex in both orientations', '; '.join(unit_bad[:3]))
    ctx.check(not shape_bad, 'R-SHAPE', 'polygon_to_path/orientation', f.loc(), 'clockwise input (negative signed area) is reversed: paths handed to Clipper are all counter-clockwise', '; '.join(shape_bad[:3]))
    g = db.fn('gdstk::path_to_polygon')
    ctx.touch(g)
    t = norm(clone.canon(g.body, g, ren=clone.Renamer(g, params_by_name=True)))
    ok = 'const double v0 = (1 / $scaling)' in t and re.search(r'\(v\d+->x = \(v0 \* v\d+->X\)\)', t) is not None and re.search(r'\(v\d+->y = \(v0 \* v\d+->Y\)\)', t) is not None
    ctx.check(ok, 'R-UNIT', 'path_to_polygon/1-over-scaling', g.loc(), 'grid coordinates are multiplied by 1/scaling of the same parameter')


def check_boolean(ctx, db):
    f = db.fn('gdstk::boolean', file_suffix='src/clipper_tools.cpp')
    ctx.touch(f)
    tables.check_exhaustive(ctx, db, f, 'gdstk::Operation')
    sw = tables.switches_on(f, 'Operation')[0]
    vals = {c['v']: c['n'] for c in db.enum('gdstk::Operation')['consts']}
    got = {}
    for labels, stmts, top in tables.switch_arms(sw):
        a = next((x for s in stmts for x in s.walk() if is_assign(x)), None)
        for l in labels:
            got[vals.get(l, l)] = norm(a.child('rhs').text()) if a is not None else None
    want = {'Or': 'ctUnion', 'And': 'ctIntersection', 'Xor': 'ctXor', 'Not': 'ctDifference'}
    ctx.check(got == want, 'R-TABLE', 'boolean/operation->cliptype', sw.loc(), 'Or/And/Xor/Not -> ctUnion/ctIntersection/ctXor/ctDifference', 'operation table is %s' % got)
    ren = clone.Renamer(f, params_by_name=True)
    t = norm(clone.canon(f.body, f, ren=ren))
    ok = re.search(r'Paths v(\d+) = polygons_to_paths\(\$polys1, \$scaling\)', t) is not None and re.search(r'Paths v(\d+) = polygons_to_paths\(\$polys2, \$scaling\)', t) is not None
    m1 = re.search(r'Paths (v\d+) = polygons_to_paths\(\$polys1', t)
    m2 = re.search(r'Paths (v\d+) = polygons_to_paths\(\$polys2', t)
    adds = [norm(c.text(ren)) for c in f.walk() if c.k == 'CXXMemberCallExpr' and (c.callee or '').endswith('::AddPaths')]
    ok = ok and m1 and m2 and len(adds) == 2 and ('AddPaths(%s, ptSubject, true)' % m1.group(1)) in adds[0] and ('AddPaths(%s, ptClip, true)' % m2.group(1)) in adds[1]
    ctx.check(bool(ok), 'R-EFFECT', 'boolean/operand-roles', f.loc(), 'the first operand is the subject and the second the clip (A not B is asymmetric)', 'AddPaths calls: %s' % adds)
    ex = next((c for c in f.walk() if c.k == 'CXXMemberCallExpr' and (c.callee or '').endswith('::Execute')), None)
    a = [norm(x.text(ren)) for x in ex.args] if ex is not None else []
    ctx.check(len(a) == 4 and a[2] == 'pftNonZero' and a[3] == 'pftNonZero' and a[0].startswith('v'), 'R-TABLE', 'boolean/fill-rules', f.loc(), 'both fill rules are non-zero and the clip type is the table\'s value', 'Execute(%s)' % a)
    tt = next((c for c in f.walk() if c.k == 'CallExpr' and c.callee == 'gdstk::tree_to_polygons'), None)
    ctx.check(tt is not None and norm(tt.args[1].text(ren)) == '$scaling' and norm(tt.args[2].text(ren)) == '$result', 'R-UNIT', 'boolean/same-scaling-back', f.loc(), 'the solution is converted back with the same scaling into the caller\'s result')
    check_no_shortcut(ctx, f, 'boolean')


_DB = {}


def db_enum_operation(f):
    return _DB['db'].enum('gdstk::Operation')['consts']


def shortcut_eval(c, e1, e2, opv, f):
    c = _strip_casts(c)
    if c.k == 'ParenExpr':
        return shortcut_eval(c.c[0], e1, e2, opv, f)
    if c.k == 'UnaryOperator' and c.op == '!':
        return not shortcut_eval(c.child('sub'), e1, e2, opv, f)
    if c.k == 'BinaryOperator' and c.op == '&&':
        return shortcut_eval(c.child('lhs'), e1, e2, opv, f) and shortcut_eval(c.child('rhs'), e1, e2, opv, f)
    if c.k == 'BinaryOperator' and c.op == '||':
        return shortcut_eval(c.child('lhs'), e1, e2, opv, f) or shortcut_eval(c.child('rhs'), e1, e2, opv, f)
    if c.k == 'BinaryOperator' and c.op in ('==', '!='):
        l, r = norm(c.child('lhs').text()), _strip_casts(c.child('rhs'))
        eq = c.op == '=='
        if l in ('polys1.count', 'polys2.count') and r.cv == 0:
            return (e1 if l == 'polys1.count' else e2) == eq
        if l == 'operation' and r.k == 'DeclRefExpr' and r.dk == 'enum':
            return (opv == r.cv) == eq
    raise AnalysisBroken('%s: shortcut condition `%s` is not over operand emptiness and the operation' % (f.qn, norm(c.text())[:80]))


def check_no_shortcut(ctx, f, label):
    """every return of a Clipper front end is dominated by Execute and by tree_to_polygons: no operand-dependent
    shortcut decides the result without asking the clipper (A xor {} = A, {} or B = B, ... are easy to get wrong)"""
    g = f.cfg
    ex = [c for c in f.walk() if c.k == 'CXXMemberCallExpr' and (c.callee or '').endswith('::Execute')]
    tt = [c for c in f.walk() if c.k == 'CallExpr' and c.callee == 'gdstk::tree_to_polygons']
    rets = [r for r in f.walk() if r.k == 'ReturnStmt']
    if not ex or not tt or not rets:
        raise AnalysisBroken('%s: Execute / tree_to_polygons / return not found' % f.qn)
    bad = [r for r in rets if not (any(g.node_dominates(e, r) for e in ex) and any(g.node_dominates(t, r) for t in tt))]
    msgs = []
    for r in bad:
        # a shortcut is acceptable only if it is exact: it returns the (still empty) result precisely for operand/operation
        # combinations whose set-algebra value is empty. Conditions over anything else are not recognised.
        guards = [a for a in r.ancestors() if a.k == 'IfStmt']
        if len(guards) != 1 or not any(x is r for x in guards[0].child('then').walk()):
            raise AnalysisBroken('%s: early return at %s is not under a single if' % (f.qn, r.loc()))
        ops = {c['n']: c['v'] for c in db_enum_operation(f)}
        wrong = None
        for e1 in (True, False):
            for e2 in (True, False):
                for op, opv in ops.items():
                    if shortcut_eval(guards[0].child('cond'), e1, e2, opv, f):
                        empty = {'Or': e1 and e2, 'And': e1 or e2, 'Xor': e1 and e2, 'Not': e1}[op]
                        if not empty and wrong is None:
                            wrong = (e1, e2, op)
        if wrong:
            msgs.append('the shortcut at %s returns an empty result for %s with first operand %s and second operand %s, whose value is not empty' % (r.loc(), wrong[2].upper(), 'empty' if wrong[0] else 'non-empty', 'empty' if wrong[1] else 'non-empty'))
    ctx.check(not msgs, 'R-MUSTPASS', '%s/no-wrong-shortcut' % label, (bad[0] if bad else f).loc(), '%d of %d returns are dominated by Clipper::Execute and tree_to_polygons; every other return is an exact empty-result shortcut' % (len(rets) - len(bad), len(rets)), '; '.join(msgs))


def check_forwarding(ctx, db, qn, label):
    """thin inline overloads of `qn` (bodies that only wrap an operand and call the main overload): every parameter
    reaches the call, and an argument whose callee parameter has the name of one of the wrapper\'s parameters IS that parameter"""
    mains = [g for g in db.fn(qn, all=True) if g.body is not None and g.relfile().startswith('src/')]
    n = 0
    for f in db.fn(qn, all=True):
        if f.body is None or f.relfile().startswith('src/'):
            continue
        call = next((c for c in f.walk() if c.k == 'CallExpr' and c.callee == qn), None)
        if call is None:
            continue
        main = next((g for g in mains if len(g.params) == len(call.args)), None)
        if main is None:
            raise AnalysisBroken('%s: main overload with %d parameters not found' % (qn, len(call.args)))
        n += 1
        ctx.touch(f)
        mine = {p_['n'] for p_ in f.params}
        used = {x.n for x in f.body.walk() if x.k == 'DeclRefExpr' and x.dk == 'param'}
        bad = ['parameter `%s` is never used' % p_ for p_ in sorted(mine - used)]
        for a, cp in zip(call.args, main.params):
            a0 = _strip_casts(a)
            if cp['n'] in mine and not (a0.k == 'DeclRefExpr' and a0.n == cp['n']):
                bad.append('`%s` is passed where the caller\'s own `%s` belongs' % (norm(a.text())[:30], cp['n']))
        ctx.check(not bad, 'R-EFFECT', '%s-wrapper/%s/forwards-all' % (label, ','.join(p_['t'].split('::')[-1][:10] for p_ in f.params[:2])), f.loc(), 'the convenience overload hands every one of its parameters to the main overload, each in its own position',
                  '; '.join(bad))
    return n


def check_wrappers(ctx, db):
    """inline overloads wrap single polygons into arrays and must keep the operand order"""
    n = 0
    for f in db.fn('gdstk::boolean', all=True):
        if f.file.endswith('src/clipper_tools.cpp'):
            continue
        n += 1
        ctx.touch(f)
        call = next((c for c in f.walk() if c.k == 'CallExpr' and c.callee == 'gdstk::boolean'), None)
        ok = call is not None
        if ok:
            def origin(a):
                a = _strip_casts(a)
                if a.k == 'DeclRefExpr' and a.dk == 'param':
                    return a.n
                if a.k == 'DeclRefExpr':
                    # local array wrapping the address of a local pointer to a parameter
                    names = set()
                    work = [a.n]
                    seen = set()
                    while work:
                        nm = work.pop()
                        if nm in seen:
                            continue
                        seen.add(nm)
                        for v in f.walk():
                            if v.k == 'VarDecl' and v.n == nm and v.child('init') is not None:
                                for x in v.child('init').walk():
                                    if x.k == 'DeclRefExpr' and x.dk == 'param':
                                        names.add(x.n)
                                    elif x.k == 'DeclRefExpr' and x.dk == 'local':
                                        work.append(x.n)
                    return '|'.join(sorted(names))
                return '?'
            o = [origin(call.args[0]), origin(call.args[1])]
            ok = o == [f.params[0]['n'], f.params[1]['n']] and norm(call.args[2].text()) == 'operation' and norm(call.args[3].text()) == 'scaling'
        ctx.check(ok, 'R-EFFECT', 'boolean-wrapper#%s,%s/operand-order' % (f.params[0]['t'].split('::')[-1][:8], f.params[1]['t'].split('::')[-1][:8]), f.loc(), 'the convenience overload forwards its first operand first and its second operand second')
    ctx.require('boolean convenience overloads', n, 3)
    nf = check_forwarding(ctx, db, 'gdstk::boolean', 'boolean') + check_forwarding(ctx, db, 'gdstk::offset', 'offset')
    ctx.require('R-EFFECT forwarding overloads', nf, 4)
    m = db.fn('gdstk::merge', required=False)
    if m is not None:
        call = next((c for c in m.walk() if c.k == 'CallExpr' and c.callee == 'gdstk::boolean'), None)
        ok = call is not None and norm(call.args[0].text()) == 'polygons' and norm(call.args[2].text()) == 'Operation::Or'
        ctx.check(ok, 'R-EFFECT', 'merge/or-with-empty', m.loc(), 'merge is the union of the group with the empty group')


def check_tree(ctx, db):
    f = db.fn('gdstk::tree_to_polygons')
    ctx.touch(f)
    t = norm(clone.canon(f.body, f, ren=clone.Renamer(f, params_by_name=True)))
    want = ['PolyNode * v0 = $tree.GetFirst()', 'while (v0)', 'if ((!v0->IsHole()))', 'if ((v0->ChildCount() > 0))', 'link_holes(v0, $error_code)',
            '$polygon_array.append(path_to_polygon(v0->Contour, $scaling))', '(v0 = v0->GetNext())']
    got = [l.strip() for l in t.splitlines()]
    ctx.check(got == want, 'R-SHAPE', 'tree_to_polygons/full-walk', f.loc(), 'every node of the result tree is visited (GetFirst/GetNext); every outer contour is emitted after its holes are linked',
              'result-tree traversal differs from the full GetFirst/GetNext walk (islands nested inside holes would be dropped): %s' % got)


def check_overflow(ctx, db):
    n = 0
    bad = []
    for f in db.functions:
        if not f.file.endswith('src/clipper_tools.cpp'):
            continue
        for x in f.walk():
            if x.k == 'BinaryOperator' and x.op == '*':
                l, r = x.child('lhs'), x.child('rhs')
                tl, tr = (l.ct or l.t or ''), (r.ct or r.t or '')
                if 'long long' in tl and 'long long' in tr and l.cv is None and r.cv is None:
                    bad.append(x)
                if ('long long' in tl or 'long long' in tr):
                    n += 1
    f = db.fn('gdstk::link_holes')
    ctx.touch(f)
    tv = next((v for v in f.walk() if v.k == 'VarDecl' and v.n == 'temp'), None)
    ok = tv is not None and norm(tv.child('init').text()).count('(double)') >= 3
    ctx.check(not bad and ok, 'R-OVERFLOW', 'clipper_tools/no-integer-coordinate-products', bad[0].loc() if bad else f.loc(),
              'no product of two 64-bit grid quantities is formed in integer arithmetic; the slit abscissa is computed in double',
              'a product of two 64-bit grid coordinates/differences is computed in integer arithmetic (wraps for differences around 3e9, well inside the admissible range): %s' % (norm(bad[0].text())[:120] if bad else 'temp is not computed in double'))
    k, roles = minmax.check_minmax(ctx.sub(), f)
    # running minimum by the comparator, in whatever variables: `if (point_less(*cand, *best)) best = cand;` inside a loop (of link_holes
    # or of a file-local helper): the candidate replaces the best exactly when it is smaller
    ok = False
    for fn_, _w in db.with_helpers([f]):
        for i_ in fn_.walk():
            if i_.k != 'IfStmt' or not any(a.k in ('ForStmt', 'WhileStmt', 'DoStmt') for a in i_.ancestors()):
                continue
            c_ = _strip_casts(i_.child('cond'))
            if c_ is None or c_.k != 'CallExpr' or not (c_.callee or '').endswith('point_less') or len(c_.args) != 2:
                continue
            def pointee(e):
                e = _strip_casts(e)
                while e is not None and e.k in ('MaterializeTemporaryExpr', 'CXXConstructExpr') and e.c:
                    e = _strip_casts(e.c[0])
                if e is not None and ((e.k == 'UnaryOperator' and e.op == '*') or (e.k == 'CXXOperatorCallExpr' and e.op == '*')):
                    return norm((e.child('sub') or (e.args[0] if e.args else e.c[0])).text())
                return None
            cand, best = pointee(c_.args[0]), pointee(c_.args[1])
            for x in (i_.child('then').walk() if i_.child('then') is not None else []):
                if is_assign(x) and cand is not None and best is not None and norm(x.child('lhs').text()) == best and norm(x.child('rhs').text()).replace('ClipperLib::Path::iterator{', '').rstrip('}') in (cand, cand):
                    ok = True
    ctx.check(ok, 'R-MINMAX', 'link_holes/min_point', f.loc(), 'each hole is attached at its lexicographically smallest vertex (running minimum by point_less)')
    check_ray_hits(ctx, db, f)
    pl = db.fn('gdstk::point_less')
    # interpreted (sa/minieval) on all 81 pairs of points over {0, 1, 2}^2 - every ordering of the two abscissae and of the two ordinates
    from .. import minieval as _M
    bad = None
    for a_ in range(9):
        for b_ in range(9):
            pa, pb = (a_ // 3, a_ % 3), (b_ // 3, b_ % 3)
            mi_ = _M.Mini(db, budget=2000)
            mi_.obj_store = True
            try:
                mi_.run(pl.body, {pl.params[0]['n']: _M.Obj(X=pa[0], Y=pa[1]), pl.params[1]['n']: _M.Obj(X=pb[0], Y=pb[1])})
                got_ = None
            except _M.Return as r_:
                got_ = r_.v
            if got_ is None or bool(got_) != (pa < pb):
                bad = bad or 'point_less(%s, %s) returns %s' % (pa, pb, got_)
    ctx.explored['valuations'] += 81
    ctx.check(bad is None, 'R-SHAPE', 'point_less/lexicographic', pl.loc(), 'point_less is the strict lexicographic order on (X, Y) (all 81 pairs over a 3 x 3 grid)', bad)


def _ival(e, env, fn):
    """integer/boolean value of a comparison-and-difference expression over named ordinates (iterator->Y etc.); None = not evaluable"""
    e = _strip_casts(e)
    if e is None:
        return None
    if e.cv is not None and e.k != 'DeclRefExpr':
        return e.cv
    if e.k in ('MemberExpr', 'CXXOperatorCallExpr') or (e.k == 'UnaryOperator' and e.op == '*'):
        t = norm(e.text()).replace('(*', '').replace(')', '').replace('->', '.').replace('.operator', '')
        for k_, v in env.items():
            if t.endswith(k_) or t.replace(' ', '') == k_:
                return v
        return None
    if e.k == 'DeclRefExpr' and e.dk == 'local':
        d = next((v for v in fn.body.walk() if v.k == 'VarDecl' and v.d == e.d and v.child('init') is not None), None)
        return _ival(d.child('init'), env, fn) if d is not None else None
    if e.k == 'UnaryOperator' and e.op in ('!', '-'):
        v = _ival(e.child('sub'), env, fn)
        return None if v is None else (int(not v) if e.op == '!' else -v)
    if e.k == 'BinaryOperator':
        a, b = _ival(e.child('lhs'), env, fn), _ival(e.child('rhs'), env, fn)
        if e.op == '&&':
            return 0 if (a == 0 or b == 0) else (None if (a is None or b is None) else 1)
        if e.op == '||':
            return 1 if ((a is not None and a != 0) or (b is not None and b != 0)) else (None if (a is None or b is None) else 0)
        if a is None or b is None:
            return None
        import operator as O
        fn_ = {'+': O.add, '-': O.sub, '*': O.mul, '<': O.lt, '>': O.gt, '<=': O.le, '>=': O.ge, '==': O.eq, '!=': O.ne}.get(e.op)
        return None if fn_ is None else int(fn_(a, b))
    return None


def check_ray_hits(ctx, db, f):
    """link_holes shoots a ray to the left of each hole's lowest-leftmost vertex and links the hole to the nearest hit of the outer
    contour. Evaluated over all 27 orderings of (ordinate of the edge end p_next, of its start p_prev, of the ray): the crossing
    branch is taken when the ray passes strictly between the end points AND when it passes exactly through the END vertex of an edge
    that is not level (every contour vertex is the end of exactly one edge, so a hit in a corner is seen once); it is not taken when
    both end points are on the same side. A hole level with a corner of its parent would otherwise find no link and be dropped."""
    cand = None
    for i in f.walk():
        if i.k != 'IfStmt':
            continue
        t = norm(i.child('cond').text())
        names = {x.n for x in i.child('cond').walk() if x.k == 'DeclRefExpr'}
        # the temporaries a condition uses may hide the iterators: look through their initialisers
        for x in list(i.child('cond').walk()):
            if x.k == 'DeclRefExpr' and x.dk == 'local':
                d = next((v for v in f.body.walk() if v.k == 'VarDecl' and v.d == x.d and v.child('init') is not None), None)
                if d is not None:
                    names |= {y.n for y in d.child('init').walk() if y.k == 'DeclRefExpr'}
        if {'p_next', 'p_prev', 'hole_min'} <= names and i.child('else') is not None:
            cand = i
            break
    if cand is None:
        raise AnalysisBroken('link_holes: ray/edge crossing test not found')
    import itertools
    bad = None
    n = 0
    for pn, pp, h in itertools.product(range(3), repeat=3):
        env = {'p_next.Y': pn, 'p_prev.Y': pp, 'hole_min.Y': h}
        v = _ival(cand.child('cond'), env, f)
        if v is None:
            raise AnalysisBroken('link_holes: crossing test `%s` not evaluable' % norm(cand.child('cond').text())[:80])
        n += 1
        strictly_between = (pn < h < pp) or (pp < h < pn)
        through_end = (pn == h and pp != h)
        same_side = (pn < h and pp < h) or (pn > h and pp > h)
        if (strictly_between or through_end) and not v:
            bad = bad or ('the ray at ordinate %d is not counted for an edge from %d to %d%s' % (h, pp, pn, ' (it passes through the end vertex: a hole level with a corner of its parent finds no link)' if through_end else ''))
        if same_side and v:
            bad = bad or ('an edge from %d to %d is counted for a ray at %d that does not meet it' % (pp, pn, h))
    # the second branch: the hole vertex lies ON a contour edge. Only an edge level with the ray can contain it without being crossed:
    # over the same 27 orderings (abscissae chosen so that the vertex lies within the edge's x range) the branch is taken exactly when
    # both end points have the ray's ordinate. (A slanted edge that merely starts at that ordinate must not anchor the slit at the hole.)
    on_edge = cand.child('else') if cand.child('else') is not None and cand.child('else').k == 'IfStmt' else None
    bad2 = None
    if on_edge is not None:
        for pn, pp, h in itertools.product(range(3), repeat=3):
            env = {'p_next.Y': pn, 'p_prev.Y': pp, 'hole_min.Y': h}
            if _ival(cand.child('cond'), env, f):
                continue
            for xs in ({'p_next.X': 0, 'hole_min.X': 1, 'p_prev.X': 2}, {'p_next.X': 2, 'hole_min.X': 1, 'p_prev.X': 0}):
                e2 = dict(env)
                e2.update(xs)
                v2 = _ival(on_edge.child('cond'), e2, f)
                if v2 is None:
                    raise AnalysisBroken('link_holes: on-edge test `%s` not evaluable' % norm(on_edge.child('cond').text())[:80])
                n += 1
                level = pn == h and pp == h
                if bool(v2) != level:
                    bad2 = bad2 or ('for an edge from ordinate %d to %d and a hole vertex at ordinate %d within the edge\'s x range the on-edge branch is %s' % (pp, pn, h, 'taken although the edge is not level with the vertex: the slit is anchored at the hole vertex itself and the contour is pulled inward' if v2 else 'not taken although the vertex lies on this level edge'))
        ctx.check(bad2 is None, 'R-TABLE', 'link_holes/on-level-edge', on_edge.loc(), 'the on-edge branch is taken exactly for edges level with the hole vertex', bad2)
    ctx.explored['valuations'] += n
    ctx.check(bad is None, 'R-TABLE', 'link_holes/ray-hits', cand.loc(), 'over all 27 orderings the crossing branch is taken exactly for edges the ray crosses or whose end vertex it passes through', bad)


def check_link_holes_model(ctx, db):
    """link_holes interpreted (sa/minieval: std::vector paths with iterators, the hole records, gdstk::sort answered by a sort that
    calls the interpreted comparator) on small integer scenes: a square, a diamond and a wide rectangle, each with every choice of
    the contour's first vertex, holding one or two holes given from every one of their vertices (so that the edge to the left of a hole
    is the closing edge of the contour for some choice, and the hole path starts away from its lowest-leftmost vertex for others).
    Required: no error; every vertex of contour and holes is in the result; the signed area of the linked contour is the contour's plus
    the (opposite) holes' - a bridge that is walked out and back adds nothing, a bridge point set anywhere but on the hit edge does."""
    import functools
    from .. import minieval as M
    f = db.fn('gdstk::link_holes')
    ctx.touch(f)
    pl = db.fn('gdstk::path_less', required=False)

    def area2(ps):
        return sum(ps[i - 1][0] * ps[i][1] - ps[i][0] * ps[i - 1][1] for i in range(len(ps)))

    def run(outer, holes):
        mk = lambda ps: M.Vector([M.Obj(X=x, Y=y) for x, y in ps])
        node = M.Obj(Contour=mk(outer), Childs=M.Vector([M.Obj(Contour=mk(h), Childs=M.Vector([])) for h in holes]))
        ref = [None]

        def extra(callee, args, n_):
            short = (callee or '').split('::')[-1]
            if short == 'ChildCount':
                return (len(ref[0].call_object()['Childs'].lst),)
            if short == 'llround':
                import math
                v = args[0]
                return (int(math.floor(abs(v) + 0.5)) * (1 if v >= 0 else -1),)
            if short in ('fprintf', 'fputs'):
                return (0,)
            if short == 'sort' and len(args) == 2 and isinstance(args[0], M.Obj) and isinstance(args[1], tuple) and args[1][0] == 'function':
                cmpf = db.fn(args[1][1], required=False) or pl
                if cmpf is None:
                    raise AnalysisBroken('link_holes: comparator of sort() not found')
                arr = args[0]
                it, cnt = arr['items'], arr['count']

                def less(x, y):
                    m2 = M.Mini(db, hook=extra, budget=20000)
                    m2.obj_store = True
                    try:
                        m2.run(cmpf.body, {cmpf.params[0]['n']: x, cmpf.params[1]['n']: y})
                    except M.Return as r_:
                        return bool(r_.v)
                    return False
                lst = sorted(it.arr[it.i:it.i + cnt], key=functools.cmp_to_key(lambda a, b: -1 if less(a, b) else (1 if less(b, a) else 0))) if cnt else []
                if cnt:
                    it.arr[it.i:it.i + cnt] = lst
                return (None,)
            return None
        mi = M.Mini(db, hook=M.array_hook(ref, extra), budget=400000, globals={'error_logger': 0})
        mi.obj_store = True
        ref[0] = mi
        env = {f.params[0]['n']: node, f.params[1]['n']: 0}
        try:
            mi.run(f.body, env)
        except M.Return:
            pass
        return env[f.params[1]['n']], [(p_['X'], p_['Y']) for p_ in node['Contour'].lst]
    rot = lambda ps, k: ps[k:] + ps[:k]
    scenes = []
    sq, hole = [(0, 0), (10, 0), (10, 10), (0, 10)], [(3, 3), (3, 6), (6, 6), (6, 3)]
    for a in range(4):
        for b in range(4):
            scenes.append(('square, contour from vertex %d, hole from vertex %d' % (a, b), rot(sq, a), [rot(hole, b)]))
    dia, tri = [(-12, 0), (0, -12), (12, 0), (0, 12)], [(3, -2), (-3, -2), (0, 4)]
    for a in range(4):
        for b in range(3):
            scenes.append(('diamond, contour from vertex %d, triangular hole from vertex %d' % (a, b), rot(dia, a), [rot(tri, b)]))
    rect, h1, h2 = [(0, 0), (20, 0), (20, 10), (0, 10)], [(3, 3), (3, 6), (6, 6), (6, 3)], [(12, 2), (12, 8), (15, 8), (15, 2)]
    for a in range(4):
        for b in range(4):
            scenes.append(('rectangle, contour from vertex %d, two holes (first from vertex %d)' % (a, b), rot(rect, a), [rot(h1, b), h2]))
    scenes.append(('square with a hole whose lowest vertex is level with a contour vertex', [(0, 0), (10, 0), (10, 10), (0, 10), (-4, 3)], [[(3, 3), (3, 6), (6, 6), (6, 3)]]))
    bad = []
    for label, outer, holes in scenes:
        if area2(outer) < 0 or any(area2(h_) > 0 for h_ in holes):
            raise AnalysisBroken('link_holes model: scene `%s` has the wrong orientations' % label)
        try:
            err, res = run(outer, holes)
        except M.OutOfBounds as ex:
            bad.append('%s: %s' % (label, ex))
            continue
        want = area2(outer) + sum(area2(h_) for h_ in holes)
        missing = [p_ for p_ in outer + [q for h_ in holes for q in h_] if p_ not in res]
        if err or missing or area2(res) != want:
            bad.append('%s: error code %s, linked contour %s has twice the signed area %s (contour + holes: %s)%s' % (label, err, res, area2(res), want, (', vertices lost: %s' % missing[:3]) if missing else ''))
    ctx.explored['valuations'] += len(scenes)
    ctx.check(not bad, 'R-MODEL.link_holes', 'link_holes/keyhole-preserves-region', f.loc(), 'interpreted on %d scenes: every hole is linked without error, no vertex is lost and the signed area is contour + holes' % len(scenes),
              'hole linking is wrong: ' + '; '.join(bad[:2]))
    ctx.require('R-MODEL.link_holes scenes interpreted', len(scenes), 40)


def run(ctx):
    db = ctx.db
    _DB['db'] = db
    ctx.memo('link_holes', {'src/clipper_tools.cpp', 'include/gdstk/sort.hpp'}, check_link_holes_model, db)
    from . import C14, C20
    ctx.attempt(C14.check_translation_invariance, ctx, db)# polygon_to_path orients operands by the sign of signed_area
    ctx.attempt(C20.check_heap, ctx, db)# link_holes orders the holes of a contour with gdstk::sort
    ctx.attempt(check_conversions, ctx, db)
    ctx.attempt(check_boolean, ctx, db)
    ctx.attempt(check_wrappers, ctx, db)
    ctx.attempt(check_tree, ctx, db)
    ctx.attempt(check_overflow, ctx, db)


MANIFEST = dict(
    text='Decides the structural necessary conditions on gdstk\'s side of the Boolean pipeline: complete and correct Operation -> ClipType table; first operand only as subject and second only as clip; non-zero fill on both; coordinates rounded with llround(scaling x value) for both axes in both orientation branches, orientation normalised from the signed area, results scaled back by 1/scaling of the same parameter; the result tree is walked completely (every outer contour, including islands inside holes, is emitted, holes linked iff present); no product of two 64-bit grid coordinates is formed in integer arithmetic; hole attachment uses the lexicographic minimum. Set-theoretic correctness inside Clipper and of the keyhole geometry is not decided. link_holes is additionally interpreted (sa/minieval) on 45 small integer scenes - every start vertex of three contours, one or two holes from every vertex: every vertex is in the linked contour and its signed area is the contour\'s plus the holes\' (sampled scenes, not all polygons); the sort it relies on is decided by R-MODEL.sort (C20).',
    note='Trusted: clang front end, gx, sa rules; external/clipper is out of the analysed set.',
    technique='table extraction + def-use/role rules + shape rules over typed ASTs + type-based integer-product rule + interpretation of link_holes on enumerated integer scenes and of gdstk::sort on all small arrays (sa/minieval; sampled for link_holes)',
    design='§4 C05')
