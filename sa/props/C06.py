"""C06 — flattening and hierarchy queries: copy completeness/depth (R-COPY), the 4+4 hierarchy
collectors as clone families (depth, filter, offsets, transform), attached repetitions transformed,
flatten structure. (DESIGN.md §4 C06)"""
import re
from .. import clone, copyrule, tables
from ..facts import AnalysisBroken
from ..flow import lvalue_key, is_assign, _strip_casts
from ..oasfields import norm

EXPLANATION = ('R-COPY: every field of Polygon/Label/Reference/FlexPath(+Element)/RobustPath(+Element)/Curve/RaithData/Cell/Library '
               'is copied on every path of copy_from, owning fields through their copier; the hand-rolled filter copies in '
               'Cell::get_flexpaths/get_robustpaths assign the same field sets. R-CLONE: Reference::get_{polygons,flexpaths,'
               'robustpaths,labels} are identical up to the element type (same depth passed down, one output per (element, offset), '
               'copy for all but the last offset, transform with the reference placement + offset, attached repetition transformed '
               'by the same linear part); the `apply_repetitions` and `depth != 0` blocks of the four Cell::get_* are identical '
               '(apply only to [start, finish), recurse with depth > 0 ? depth - 1 : -1). Cell::flatten re-examines index i after '
               'remove_unordered, calls all four collectors at depth -1 for ReferenceType::Cell only. Decides these structural '
               'necessary conditions; geometric equality of hierarchical vs flat shapes is not decided.')
ASSUMPTIONS = ['element copy_from/transform/apply_repetition are covered by their own obligations (C10, C11)']
XREF_FILES = ['src/cell.cpp', 'src/reference.cpp']

ELEMS = ['polygons', 'flexpaths', 'robustpaths', 'labels']
TYPE_SUBST = [(r'gdstk::', ''), (r'<IntegralCast:[^>]*>', ''), (r'\b(Polygon|FlexPath|RobustPath|Label)\b', 'ELEM'), (r'get_(polygons|flexpaths|robustpaths|labels)', 'get_ELEMS'),
              (r'\$include_paths, ', ''), (r'(polygon|flexpath|robustpath|label)_array', 'ELEM_array')]

COPY_TARGETS = [
    # (function qn, record type, exempt fields, shallow-ok fields with reason)
    ('gdstk::Polygon::copy_from', 'gdstk::Polygon', ('owner',), ()),
    ('gdstk::Label::copy_from', 'gdstk::Label', ('owner',), ()),
    ('gdstk::Reference::copy_from', 'gdstk::Reference', ('owner',), ('cell', 'rawcell')),  # non-owning pointers to shared cells
    ('gdstk::FlexPath::copy_from', 'gdstk::FlexPath', ('owner',), ()),
    ('gdstk::RobustPath::copy_from', 'gdstk::RobustPath', ('owner',), ()),
    ('gdstk::Curve::copy_from', 'gdstk::Curve', ('owner',), ()),
    ('gdstk::RaithData::copy_from', 'gdstk::RaithData', ('owner',), ()),
    ('gdstk::Cell::copy_from', 'gdstk::Cell', ('owner',), ()),
    ('gdstk::Library::copy_from', 'gdstk::Library', ('owner',), ()),
]


def check_copies(ctx, db):
    n = 0
    for qn, rect, exempt, shallow in COPY_TARGETS:
        f = db.fn(qn)
        ctx.touch(f)
        src = f.params[0]
        n += copyrule.check_copy(ctx, db, 'R-COPY', qn, f.loc(), rect, f.body, 'this', 'v%d:%s' % (src['d'], src['n']), exempt, shallow)
    # element structs: loops copying dst-> from src->
    for qn, rect, dstvars in (('gdstk::FlexPath::copy_from', 'gdstk::FlexPathElement', ('dst',)), ('gdstk::RobustPath::copy_from', 'gdstk::RobustPathElement', ('dst',)),
                              ('gdstk::Cell::get_flexpaths', 'gdstk::FlexPathElement', ('el',)), ('gdstk::Cell::get_robustpaths', 'gdstk::RobustPathElement', ('el',))):
        f = db.fn(qn)
        ctx.touch(f)
        var = next((v for v in f.walk() if v.k == 'VarDecl' and v.n in dstvars and rect.split('::')[-1] in (v.t or '')), None)
        if var is None:
            raise AnalysisBroken('%s: element destination variable not found' % qn)
        body = var.parent.parent  # compound / loop body containing the element stores
        loop = next((a for a in var.ancestors() if a.k == 'ForStmt'), None)
        scope = loop if loop is not None and any(x is var for x in loop.child('body').walk()) else f.body
        if loop is not None and not any(x is var for x in loop.child('body').walk()):
            # declared before the loop (copy_from): element stores are in the following loop
            scope = next((l for l in f.walk() if l.k == 'ForStmt' and l.pos > var.pos), f.body)
        n += copyrule.check_copy(ctx, db, 'R-COPY', '%s[%s]' % (qn, rect.split('::')[-1]), var.loc(), rect, scope.child('body') if scope.k == 'ForStmt' else scope,
                                 'v%d:%s' % (var.d, var.n), None, ('owner',), ())
    # filter-branch path-level copies: same field set as copy_from (minus elements/num_elements built incrementally)
    for qn, rect in (('gdstk::Cell::get_flexpaths', 'gdstk::FlexPath'), ('gdstk::Cell::get_robustpaths', 'gdstk::RobustPath')):
        f = db.fn(qn)
        var = next((v for v in f.walk() if v.k == 'VarDecl' and v.n == 'path' and v.child('init') is not None and v.child('init').is_null_const()), None)
        if var is None:
            raise AnalysisBroken('%s: filter-branch path variable not found' % qn)
        loop = next(a for a in var.ancestors() if a.k == 'ForStmt')
        # the block guarded by `if (!path)` holds the path-level copies; element-level stores follow
        inner = next(l for l in loop.child('body').walk() if l.k == 'ForStmt')
        w = copyrule.field_writes(_flatten_ifs(inner.child('body')), 'v%d:%s' % (var.d, var.n), None)
        want = set(x[0] for x in __import__('sa.facts', fromlist=['flat_fields']).flat_fields(db.record(rect))) - {'owner'}
        missing = sorted(want - set(w))
        n += 1
        ctx.check(not missing, 'R-COPY', '%s/filter-branch-fields' % qn, var.loc(), 'filter-branch field-wise copy writes every field of %s' % rect,
                  'filter-branch field-wise copy of %s omits field(s) %s (copy_from copies them)' % (rect, missing))
        # ... and each plain field copy takes the SAME field of the source path
        dkey = 'v%d:%s' % (var.d, var.n)
        crossed = []
        for x in inner.walk():
            if is_assign(x) and x.op == '=':
                lk = lvalue_key(x.child('lhs'))
                r0 = _strip_casts(x.child('rhs'))
                if lk and lk.startswith(dkey + '->') and r0 is not None and r0.k == 'MemberExpr' and r0.arrow:
                    b0 = _strip_casts(r0.child('base'))
                    if b0.k == 'DeclRefExpr' and rect.split('::')[-1] in (b0.t or '') and lvalue_key(b0) != dkey:
                        fl = lk[len(dkey) + 2:]
                        if fl != r0.n:
                            crossed.append((fl, r0.n, x))
        n += 1
        ctx.check(not crossed, 'R-COPY', '%s/filter-branch-same-field' % qn, (crossed[0][2] if crossed else var).loc(), 'every field of the filtered copy is taken from the same field of the source path',
                  '; '.join('field `%s` of the filtered copy is filled from field `%s` of the source' % (a, b) for a, b, _ in crossed))
    ctx.require('R-COPY fields', n, 80)


class _Flat:
    """view of a statement list where `if (c) {..}` without else is treated as executed (used only to
    collect the field set of the incremental filter copies, where the guard is `if (!path)`)."""
    def __init__(self, stmts):
        self.k = 'CompoundStmt'
        self.c = stmts


def _flatten_ifs(comp):
    out = []
    for s in comp.c:
        if s is not None and s.k == 'IfStmt' and s.child('else') is None and s.child('then') is not None and s.child('then').k == 'CompoundStmt':
            out.extend(s.child('then').c)
        else:
            out.append(s)
    return _Flat(out)


def canon_member(fn, node=None):
    ren = clone.Renamer(fn, params_by_name=True)
    return clone.canon(node or fn.body, fn, subst=TYPE_SUBST, ren=ren)


def _copies_all_but_last(f, call):
    """the call runs in exactly the iterations 0 .. T-2 of its loop (T the trip count): the conditions it is under, as affine forms of the
    iteration number through the loop summary, are evaluated for T = 1..5 and every iteration. `if (n == 1) move else copy` with n
    counting down, `if (k + 1 < count) copy` with k counting up and `if (k != count - 1)` are the same table."""
    from .. import loops as LP
    L = LP.enclosing_loop(call)
    if L is None:
        return False
    lp = LP.Loop(f, L)
    t = lp.trip()
    conds = tables.path_conds(call, stop=L)
    if t is None or not conds:
        return False
    forms = []
    for c, pol in conds:
        c0 = _strip_casts(c)
        while c0 is not None and c0.k == 'ParenExpr':
            c0 = _strip_casts(c0.c[0])
        if c0 is None or c0.k != 'BinaryOperator' or c0.op not in ('==', '!=', '<', '>', '<=', '>='):
            return False
        a, b = lp.lin(c0.child('lhs'), c0), lp.lin(c0.child('rhs'), c0)
        if a is None or b is None:
            return False
        forms.append((a, b, c0.op, pol))
    syms = {k for a, b, _, _ in forms for d in (a, b) for k in d if k not in (1, LP.K)} | {k for k in t if k != 1}
    if len(syms) != 1:
        return False
    sym = next(iter(syms))
    import operator as O
    ops = {'==': O.eq, '!=': O.ne, '<': O.lt, '>': O.gt, '<=': O.le, '>=': O.ge}

    def val(d, n, k):
        return sum(v * (1 if x == 1 else (k if x == LP.K else n)) for x, v in d.items())
    for n in range(1, 8):
        T = val(t, n, 0)
        if T < 1:
            continue
        for k in range(T):
            runs = all(ops[op](val(a, n, k), val(b, n, k)) == pol for a, b, op, pol in forms)
            if runs != (k < T - 1):
                return False
    return True


# the four Reference::get_* are textual siblings; one of them tidied on its own (benign X6-1: cursors replaced by indices in get_labels
# only) differs in spelling. Each member is decided on its own by the absolute obligations below (cell-only, same depth, placement,
# repetition mapped, copy for all but the last offset, one output per element and offset): the comparison of spellings is evidence only.
ADVISORY = [('R-CLONE', r'^Reference::get_\*/'), ('R-CLONE', r'^Cell::get_\*\[apply_repetitions\]/'),
            ('R-CLONE', r'^Cell::get_\{polygons,labels\}\[own\]/'), ('R-SHAPE', r'^Cell::get_\*/apply-range'), ('R-SHAPE', r'^Cell::get_\w+/(start|order)$')]   # all decided by R-MODEL.collect


def check_reference_collectors(ctx, db):
    members = []
    for e in ELEMS:
        f = db.fn('gdstk::Reference::get_' + e)
        ctx.touch(f)
        members.append(('Reference::get_' + e, f.loc(), canon_member(f)))
    clone.check_family(ctx, 'R-CLONE', 'Reference::get_*', members, 4)
    # absolute obligations on the first member (so a consistent-but-wrong edit of all four is still caught)
    for e in ELEMS:
        f = db.fn('gdstk::Reference::get_' + e)
        txt = canon_member(f)
        key = 'Reference::get_%s' % e
        ctx.check('if ((this->type != ReferenceType::Cell))' in txt and 'return ' in txt.split('\n')[1], 'R-SHAPE', key + '/cell-only', f.loc(), 'returns immediately unless the reference designates a Cell')
        rec = next((c for c in f.calls() if (c.callee or '').endswith('Cell::get_' + e)), None)
        ok = rec is not None
        if ok:
            dn = [a for a in rec.args if a.k == 'DeclRefExpr' and a.n == 'depth']
            ok = len(dn) == 1
        ctx.check(ok, 'R-SHAPE', key + '/same-depth', f.loc(), 'the cell is queried with the depth received (the caller already decremented it)')
        tr = [c for c in f.calls() if (c.callee or '').endswith('::transform') and not (c.callee or '').endswith('Repetition::transform')]
        ok = len(tr) == 1 and [a.text() for a in tr[0].args[:3]] == ['this->magnification', 'this->x_reflection', 'this->rotation'] and \
            tr[0].args[3].text().startswith('(this->origin + ')
        ctx.check(ok, 'R-SHAPE', key + '/placement', f.loc(), 'each output is transformed by (magnification, x_reflection, rotation, origin + offset) of the reference')
        rt = [c for c in f.calls() if (c.callee or '') == 'gdstk::Repetition::transform']
        ok = len(rt) == 1 and [a.text() for a in rt[0].args] == ['this->magnification', 'this->x_reflection', 'this->rotation'] and \
            tr and lvalue_key(rt[0].child('obj')) == (lvalue_key(tr[0].child('obj')) or '') + '->repetition'
        ctx.check(ok, 'R-PAIRCALL', key + '/repetition-transformed', f.loc(), 'the repetition still attached to an output (apply_repetitions == false) is mapped by the same linear part',
                  'outputs keep their attached repetition untransformed: with apply_repetitions == false the copies land where the untransformed lattice points (no `dst->repetition.transform(magnification, x_reflection, rotation)`)')
        # one output per (element, offset): copy for all but the last offset
        cp = [c for c in f.calls() if (c.callee or '').endswith('::copy_from')]
        ok = len(cp) == 1 and _copies_all_but_last(f, cp[0])
        ctx.check(ok, 'R-SHAPE', key + '/copy-per-offset', f.loc(), 'a fresh copy is made for every offset except the last, which moves the collected element')
        # every (element, offset) pair gives one output: the outer loop runs over all collected elements, the inner one over all offsets,
        # iteration k places at offsets[k], and the output is appended unconditionally in the inner loop (affine loop summaries)
        from .. import loops as LP
        apps = [c for c in f.calls() if (c.callee or '').split('::')[-1] in ('append', 'append_unsafe') and c.child('obj') is not None and (lvalue_key(_strip_casts(c.child('obj'))) or '').endswith(':result')]
        ok = len(apps) == 1 and len(tr) == 1
        why = 'one append and one placement call expected'
        if ok:
            inner = LP.enclosing_loop(apps[0])
            outer = LP.enclosing_loop(inner) if inner is not None else None
            ok = inner is not None and outer is not None
            if ok:
                li, lo = LP.Loop(f, inner), LP.Loop(f, outer)
                ti, to = li.trip(), lo.trip()
                clean = lambda d_: {k_: v_ for k_, v_ in (d_ or {}).items() if v_ != 0}
                okt = ti is not None and to is not None and len(clean(ti)) == 1 and len(clean(to)) == 1 and list(clean(ti))[0].endswith(':offsets.count') and list(clean(to))[0].endswith(':array.count') \
                    and list(clean(ti).values()) == [1] and list(clean(to).values()) == [1]
                unc = LP.unconditional_in(apps[0], inner) and not tables.path_conds(apps[0], stop=inner)
                # the offset handed to transform: origin + (element k of offsets)
                off = None
                a3 = tr[0].args[3]
                for x in a3.walk():
                    if (x.k == 'UnaryOperator' and x.op == '*') or x.k == 'ArraySubscriptExpr' or (x.k == 'CXXOperatorCallExpr' and x.op == '[]'):
                        ad = li.addr(x)
                        if ad and any(str(k_).endswith(':offsets.items') for k_ in ad):
                            off = ad
                oko = off is not None and off.get(LP.K) == 1 and not {k_: v_ for k_, v_ in off.items() if k_ not in (LP.K,) and not str(k_).endswith(':offsets.items') and v_ != 0}
                ok = okt and unc and oko
                why = 'inner loop trip %s, outer loop trip %s, append unconditional: %s, offset address %s' % (ti, to, unc, off)
        ctx.check(ok, 'R-AGG', key + '/one-output-per-element-and-offset', f.loc(), 'array.count x offsets.count outputs: iteration (i, k) places the element at origin + offsets[k] and appends it', why)


COLLECTOR_ARRAYS = {'polygons': 'polygon_array', 'flexpaths': 'flexpath_array', 'robustpaths': 'robustpath_array', 'labels': 'label_array'}


def _collector_model(db, e, filt, rep, depth):
    """Cell::get_<e> interpreted (sa/minieval) on a cell with three own elements (tags 7, 9, 7) and two references, the output
    array holding two earlier entries. Allocation, element copy, apply_repetition (appends two copies) and the reference's
    collector (appends one element that carries a repetition of its own) are answered by the harness and logged."""
    from .. import minieval as M
    f = db.fn('gdstk::Cell::get_' + e)
    own = [M.Obj(tag=(7 if k % 2 == 0 else 9), ident=('own', k)) for k in range(3)]
    pre = [M.Obj(ident=('pre', k)) for k in range(2)]
    refs = [M.Obj(ident=('ref', k)) for k in range(2)]

    def arr(lst):
        return M.Obj(items=M.Ptr(lst, 0) if lst else 0, count=len(lst), capacity=len(lst))
    this = M.Obj(**{a: arr([]) for a in COLLECTOR_ARRAYS.values()})
    this[COLLECTOR_ARRAYS[e]] = arr(own)
    this['reference_array'] = arr(refs)
    result = arr(list(pre))
    log = []
    ref = [None]
    fresh = [0]

    def push(r, items):
        lst = list(r['items'].arr[r['items'].i:r['items'].i + r['count']]) + items
        r['items'], r['count'], r['capacity'] = M.Ptr(lst, 0), len(lst), len(lst)

    def extra(callee, args, node):
        c = callee or ''
        short = c.split('::')[-1]
        if short == 'allocate_clear':
            fresh[0] += 1
            return (M.Obj(ident=('new', fresh[0])),)
        if short == 'copy_from' and not c.startswith('gdstk::Array<'):
            o = ref[0].call_object()
            o['src'], o['tag'] = args[0].get('ident'), args[0].get('tag')
            return (None,)
        if short == 'apply_repetition':
            o = ref[0].call_object()
            log.append(('rep', o.get('src') or o.get('ident')))
            if args[0] is not result:
                log.append(('rep-elsewhere', o.get('src')))
            push(result, [M.Obj(ident=('copy', o.get('src'), k)) for k in range(2)])
            return (None,)
        if short == 'get_' + e and c.startswith('gdstk::Reference::'):
            o = ref[0].call_object()
            log.append(('ref', o.get('ident'), tuple('result' if a is result else '?' if isinstance(a, M.Obj) else int(a) for a in args)))
            push(result, [M.Obj(ident=('from', o.get('ident')))])
            return (None,)
        if short == 'to_polygons':
            return (0,)
        return None
    mi = M.Mini(db, hook=M.array_hook(ref, extra), budget=100000)
    mi.obj_store = True
    ref[0] = mi
    env = {'this': this}
    for p in f.params:
        env[p['n']] = {'apply_repetitions': rep, 'include_paths': 0, 'depth': depth, 'filter': filt, 'tag': 7, 'result': result}[p['n']]
    try:
        mi.run(f.body, env)
    except M.Return:
        pass
    out = [(x.get('ident'), x.get('src')) for x in result['items'].arr[result['items'].i:result['items'].i + result['count']]]
    return f, out, log


def check_collectors_model(ctx, db):
    """R-MODEL.collect: each Cell::get_<elements> run on the small cell above, for filter off (and on, where the filter is a tag
    comparison), repetitions applied or not, depth 0 / 1 / 3 / -1. Decided from the log and the output array: earlier entries stay,
    the cell's own (selected) elements are copied once each, apply_repetition runs exactly once on each fresh copy and on nothing
    else (not on earlier entries, not on what references or repetitions appended), every reference is descended exactly when
    depth != 0 with depth - 1 (or -1) and the caller's other arguments."""
    from .. import minieval as M
    runs = 0
    for e in ELEMS:
        for filt in ((0, 1) if e in ('polygons', 'labels') else (0,)):
            for rep in (0, 1):
                for depth in (0, 1, 3, -1):
                    runs += 1
                    why = None
                    try:
                        f, out, log = _collector_model(db, e, filt, rep, depth)
                    except M.OutOfBounds as ex:
                        f, out, log, why = db.fn('gdstk::Cell::get_' + e), [], [], str(ex)
                    ctx.touch(f)
                    sel = [('own', k) for k in range(3) if not filt or k % 2 == 0]
                    if why is None:
                        if [i_ for i_, _s in out[:2]] != [('pre', 0), ('pre', 1)]:
                            why = 'the entries already in the output were disturbed: %s' % (out[:2],)
                        elif sorted(s_ for i_, s_ in out if i_[0] == 'new') != sel:
                            why = 'own elements copied: %s, expected one copy of each of %s' % (sorted(s_ for i_, s_ in out if i_[0] == 'new'), sel)
                        elif sorted(x[1] for x in log if x[0] == 'rep') != (sel if rep else []):
                            why = 'apply_repetition ran on %s, expected exactly once on each fresh copy %s' % ([x[1] for x in log if x[0] == 'rep'], sel if rep else [])
                        elif any(x[0] == 'rep-elsewhere' for x in log):
                            why = 'apply_repetition appends to an array other than the output'
                        else:
                            calls = [x for x in log if x[0] == 'ref']
                            want_d = depth - 1 if depth > 0 else -1
                            names = [p['n'] for p in f.params]
                            want = tuple({'apply_repetitions': rep, 'include_paths': 0, 'depth': want_d, 'filter': filt, 'tag': 7, 'result': 'result'}[n_] for n_ in names)
                            if depth == 0 and calls:
                                why = 'references are descended although depth is 0'
                            elif depth != 0 and [x[1] for x in calls] != [('ref', 0), ('ref', 1)]:
                                why = 'references descended: %s, expected each of the two once' % [x[1] for x in calls]
                            elif depth != 0 and any(x[2] != want for x in calls):
                                why = 'a reference is asked with %s = %s, expected %s' % (tuple(names), calls[0][2], want)
                    ctx.check(why is None, 'R-MODEL.collect', 'Cell::get_%s/filter=%d,repetitions=%d,depth=%d' % (e, filt, rep, depth), f.loc(),
                              'own elements copied once, repetitions applied once to exactly the fresh copies, references descended iff depth != 0 with depth - 1', why)
    ctx.explored['valuations'] += runs
    ctx.require('R-MODEL.collect scenarios', runs, 48)


def check_cell_collectors(ctx, db):
    tails_rep, tails_depth, heads = [], [], []
    for e in ELEMS:
        f = db.fn('gdstk::Cell::get_' + e)
        ctx.touch(f)
        ifs = [s for s in f.body.c if s is not None and s.k == 'IfStmt']
        rep = [s for s in ifs if s.child('cond').text() == 'apply_repetitions']
        dep = [s for s in ifs if 'depth' in s.child('cond').text()]
        if len(rep) != 1 or len(dep) != 1:
            raise AnalysisBroken('Cell::get_%s: expected one apply_repetitions block and one depth block at top level' % e)
        tails_rep.append(('Cell::get_%s[apply_repetitions]' % e, rep[0].loc(), canon_member(f, rep[0])))
        tails_depth.append(('Cell::get_%s[depth]' % e, dep[0].loc(), canon_member(f, dep[0])))
        # order: own elements, then repetitions over [start, finish), then recursion
        ctx.check(rep[0].pos < dep[0].pos, 'R-SHAPE', 'Cell::get_%s/order' % e, f.loc(), 'repetitions are applied to the cell\'s own fresh elements before references are descended')
        start = next((v for v in f.body.c[0].c if v is not None and v.k == 'VarDecl'), None) if f.body.c and f.body.c[0].k == 'DeclStmt' else None
        ok = start is not None and start.child('init') is not None and start.child('init').text() == 'result.count'
        ctx.check(ok, 'R-SHAPE', 'Cell::get_%s/start' % e, f.loc(), '`start` is the output count on entry (only freshly appended elements get their repetition applied)')
        if e in ('polygons', 'labels'):
            heads.append(('Cell::get_%s[own]' % e, f.loc(), canon_member(f, next(s for s in ifs if s.child('cond').text() == 'filter'))))
    clone.check_family(ctx, 'R-CLONE', 'Cell::get_*[apply_repetitions]', tails_rep, 4)
    # the recursion into references, decided per collector from what it computes (not by comparing texts): the call runs exactly
    # when depth != 0, once for every entry of reference_array, hands on depth-1 (or -1 for "no limit") and its other parameters unchanged
    from .. import loops as LP, minieval
    for e in ELEMS:
        f = db.fn('gdstk::Cell::get_' + e)
        key = 'Cell::get_%s/recursion' % e
        calls = [c for c in f.walk() if c.k == 'CXXMemberCallExpr' and c.callee == 'gdstk::Reference::get_' + e]
        if len(calls) != 1:
            ctx.violation('R-SHAPE', key, f.loc(), 'expected exactly one recursive call Reference::get_%s, found %d' % (e, len(calls)))
            continue
        c = calls[0]
        L = LP.enclosing_loop(c)
        why = None
        if L is None:
            why = 'the recursive call is not inside a loop over reference_array'
        else:
            lp = LP.Loop(f, L)
            ep = lp.addr(_strip_casts(c.child('obj')), c) if c.child('obj') is not None else None
            if ep is None:
                ep = lp.lin(_strip_casts(c.child('obj')), c) if c.child('obj') is not None else None
            if lp.visits(ep, 'this->reference_array.items', {'this->reference_array.count': 1}) is None or not LP.unconditional_in(c, L):
                why = 'the loop around the recursive call does not visit every entry of reference_array exactly once'
        if why is None:
            conds = [(norm(cnd.text()), pol) for cnd, pol in tables.path_conds(L)]
            want = [('(depth != 0)', True)]
            got = [(('(depth != 0)', not pol) if t == '(depth == 0)' else (t, pol)) for t, pol in conds]
            if got != want:
                why = 'the recursion runs under %s instead of exactly `depth != 0`' % (got or 'no condition')
        callee = next((g for g in db.by_qn.get('gdstk::Reference::get_' + e, []) if len(g.params) == len(c.args)), None)
        if why is None and callee is None:
            raise AnalysisBroken('Reference::get_%s: declaration with %d parameters not found' % (e, len(c.args)))
        if why is None:
            for prm, a in zip(callee.params, c.args):
                a0 = _strip_casts(a)
                if prm['n'] == 'depth':
                    for v, w in ((5, 4), (1, 0), (-1, -1), (-7, -1)):
                        try:
                            r = minieval.value_at(db, a, typed={'int64_t': v})
                        except AnalysisBroken as ex:
                            why = 'the depth handed to references could not be evaluated (%s)' % ex
                            break
                        if r != w:
                            why = 'with depth %d the references are queried at depth %s instead of %d' % (v, r, w)
                            break
                elif not (a0.k == 'DeclRefExpr' and a0.dk == 'param' and a0.n == prm['n']):
                    why = 'argument `%s` is passed for the parameter `%s` of Reference::get_%s' % (norm(a.text()), prm['n'], e)
                if why:
                    break
        ctx.check(why is None, 'R-SHAPE', key, c.loc(), 'references are descended exactly when depth != 0, each once, at depth-1 (or -1 for unlimited), with the other parameters handed on', why)
    clone.check_family(ctx, 'R-CLONE', 'Cell::get_{polygons,labels}[own]', heads, 2)
    # absolute form of the two tails (reference text confirmed by reading)
    ref_rep = ['if ($apply_repetitions)', 'uint64_t v0 = $result.count', 'for (uint64_t v1 = this->start; (v1 < v0); (v1++))', '$result[v1]->apply_repetition($result)']
    got = [l.strip() for l in tails_rep[0][2].splitlines()]
    got = [re.sub(r'v\d+ = v\d+;', 'v1 = this->start;', g) if g.startswith('for') else g for g in got]
    ctx.check(got[0] == ref_rep[0] and got[1] == ref_rep[1] and 'apply_repetition($result)' in got[3] and re.match(r'for \(uint64_t v\d+ = v\d+; \(v\d+ < v\d+\); \(v\d+\+\+\)\)', tails_rep[0][2].splitlines()[2].strip()) is not None,
              'R-SHAPE', 'Cell::get_*/apply-range', tails_rep[0][1], 'apply_repetition runs exactly over the indices [start, finish) captured before the loop')


def check_flatten(ctx, db):
    """Cell::flatten, from path conditions (enclosing ifs, case labels and guard clauses alike): the four collectors and the removal of
    the reference run exactly under `type == Cell`; the index advances exactly on the complementary path (so after remove_unordered(i)
    the same index is examined again); collectors run at unbounded depth into the cell's own arrays."""
    f = db.fn('gdstk::Cell::flatten')
    ctx.touch(f)
    loop = next((l for l in f.walk() if l.k in ('WhileStmt', 'ForStmt')), None)
    if loop is None:
        raise AnalysisBroken('Cell::flatten: loop not found')
    cellv = tables.enum_values(db, 'gdstk::ReferenceType').get('Cell')

    def cell_only(node):
        at = tables.path_atoms_with_guards(node, stop=loop)
        tag = [a for a in at if a[0] == 'eq' and a[1].endswith('->type')]
        # (the loop's own exit test written as a guard clause, `if (i >= reference_array.count) break;`, is not a condition on the reference)
        rest = [a for a in at if not (a[0] == 'eq' and a[1].endswith('->type')) and not (a[0] == 'other' and 'reference_array.count' in a[1])]
        return bool(tag) and all(a[2] == cellv and a[3] is True for a in tag) and not rest
    cols = [c for c in loop.walk() if c.k == 'CXXMemberCallExpr' and (c.callee or '').startswith('gdstk::Reference::get_')]
    rem = [c for c in loop.walk() if c.k == 'CXXMemberCallExpr' and (c.callee or '').endswith('::remove_unordered')]
    ok = bool(cols) and all(cell_only(c) for c in cols) and all(cell_only(c) for c in rem)
    ctx.check(ok, 'R-SHAPE', 'Cell::flatten/cell-only', f.loc(), 'only ReferenceType::Cell references are expanded (and removed)')
    calls = [c.callee.split('::')[-1] for c in cols]
    ctx.check(sorted(calls) == sorted('get_' + e for e in ELEMS), 'R-AGG', 'Cell::flatten/four-kinds', f.loc(), 'all four element kinds are collected from the removed reference',
              'flatten collects %s, not all four element kinds' % calls)
    okd = True
    okdest = True
    for c in cols:
        e = c.callee.split('get_')[-1]
        depth_arg = c.args[2] if e == 'polygons' else c.args[1]
        okd = okd and depth_arg.cv == -1
        okdest = okdest and c.args[-1].text() == 'this->%s_array' % e[:-1]
    ctx.check(okd, 'R-SHAPE', 'Cell::flatten/full-depth', f.loc(), 'collectors are called with depth -1 (unbounded)')
    ctx.check(okdest, 'R-SHAPE', 'Cell::flatten/into-own-arrays', f.loc(), 'each collector appends to the matching element array of the cell itself')
    # index advance: every `++` of an integer local inside the loop runs exactly where the reference is NOT a Cell
    incs = [u for u in loop.walk() if (u.k == 'UnaryOperator' and u.op in ('++', 'post++') and _strip_casts(u.child('sub')).k == 'DeclRefExpr' and '*' not in (_strip_casts(u.child('sub')).t or ''))
            or (u.k == 'CompoundAssignOperator' and u.op == '+=' and _strip_casts(u.child('lhs')).k == 'DeclRefExpr' and '*' not in (_strip_casts(u.child('lhs')).t or '') and _strip_casts(u.child('rhs')).cv == 1)]
    def not_cell(node):
        at = tables.path_atoms_with_guards(node, stop=loop)
        tag = [a for a in at if a[0] == 'eq' and a[1].endswith('->type')]
        return bool(tag) and all(a[2] == cellv and a[3] is False for a in tag)
    ctx.check(len(rem) == 1 and bool(incs) and all(not_cell(u) for u in incs), 'R-SHAPE', 'Cell::flatten/reexamine-index', f.loc(), 'after remove_unordered(i) the same index is examined again; i advances only when nothing was removed')


def run(ctx):
    db = ctx.db
    ctx.attempt(check_copies, ctx, db)
    ctx.attempt(check_reference_collectors, ctx, db)
    from . import C11   # every element a Reference::get_* hands on has its own repetition mapped by the reference, on every path
    ctx.attempt(C11.check_reference_maps_repetitions, ctx, db)
    ctx.attempt(C11.check_apply_repetition, ctx, db)     # flatten / get_*(apply_repetitions) expand through apply_repetition: the copies carry no repetition, the original keeps none
    ctx.attempt(check_cell_collectors, ctx, db)
    ctx.attempt(check_collectors_model, ctx, db)
    ctx.attempt(check_flatten, ctx, db)
    # a repetition kept attached under a reference is mapped by the placement's linear part: exact identities (C11's obligation, shared)
    from . import C11, C10
    ctx.attempt(C11.check_transform_algebra, ctx, db)
    ctx.attempt(C10.check_signs, ctx, db)
    ctx.attempt(C10.check_affine_algebra, ctx, db)# the point maps the collectors apply are exactly the documented affine maps
    ctx.attempt(C10.check_placement, ctx, db)     # references and labels met on the way down compose their placement as T o P (interpreted for the four reflection combinations)
    ctx.attempt(C10.check_element_maps, ctx, db)# element transforms of polygons and paths (points, widths, offsets, lengths) by generic-element execution


MANIFEST = dict(
    text='Decides structural necessary conditions of hierarchy queries on every path: R-COPY (every field of every element/cell/library struct copied by copy_from and by the hand-rolled filter copies, owning fields never aliased), the four Reference::get_* collectors are one clone family (same depth handed down, one output per (element, offset), copy for all but the last offset, placement transform with origin + offset, attached repetition mapped by the same linear part, and Repetition::transform itself is identically m R(rot) diag(1, +-1) on every kind and parameter valuation), the apply_repetitions and depth blocks of the four Cell::get_* are identical and have the confirmed shape ([start, finish) range; depth > 0 ? depth - 1 : -1 under depth != 0), Cell::flatten expands only Cell references, collects all four kinds at depth -1 into its own arrays and re-examines the index after remove_unordered. Geometric equality of hierarchical vs flattened shapes is not decided. The four Cell::get_* collectors are decided by interpretation (R-MODEL.collect, sa/minieval: 48 runs on a cell with three own elements, two references and two earlier outputs): own (selected) elements copied once, apply_repetition exactly once on each fresh copy and on nothing else, references descended iff depth != 0 with depth - 1 and the caller\'s other arguments; their clone families are advisory.',
    note='Trusted: clang front end, gx, sa rules; record layouts come from clang (a new field is picked up automatically). Exemptions: `owner` (belongs to the Python wrapper), Reference.cell/rawcell (non-owning by design).',
    technique='record-layout-driven copy completeness/depth rule + loop summaries, path conditions and argument evaluation for the recursion into references + symbolic affine identities + clone-family comparison over α-normalised typed ASTs for the remaining sibling collectors + interpretation of the Cell::get_* collectors on a small cell (sa/minieval)',
    design='§4 C06')
