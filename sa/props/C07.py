"""C07 — FlexPath: width/offset bookkeeping paired with every spine mutation and removal, PATH
width unit (GDSII full, OASIS half), enum coverage in the outline code, command delegation."""
import re
from .. import clone, tables
from ..facts import AnalysisBroken
from ..flow import lvalue_key, is_assign, _strip_casts

EXPLANATION = ('R-PAIRCALL: the set of Curve methods that can append vertices is computed from curve.cpp (transitive closure over '
               'point_array.append/extend/count stores); every FlexPath method that calls one of them on `spine` is followed on '
               'every path by fill_offsets_and_widths (the four init overloads instead append exactly one point and one entry per '
               'element). fill_offsets_and_widths appends exactly spine.count - elements[0].count entries to every element, halving '
               'the width. remove_overlapping_points removes index i from the spine and from every element in the same branch and '
               'advances only otherwise. R-UNIT: GDSII WIDTH = 2 x half-width, OASIS half-width = the stored half-width, both from '
               'entry 0 and the centre line from element_center. R-EXHAUST: every EndType/JoinType/BendType enumerator is handled in '
               'to_polygons (twice for end and join types: both ends / both sides), BendType also in element_center. Loops that walk '
               'half_width_and_offset are bounded by spine.point_array.count. Outline geometry is not decided.')
ASSUMPTIONS = ['Curve internals are C15\'s subject']
XREF_FILES = ['src/flexpath.cpp']


def norm(t):
    return re.sub(r'<[A-Za-z]+:(?!:)[^>]*>', '', t).replace('gdstk::', '')


def curve_appenders(db):
    """Curve methods that may append vertices (closure)."""
    meths = [f for f in db.functions if f.recqn == 'gdstk::Curve']
    direct = set()
    calls = {}
    for f in meths:
        cs = set()
        for c in f.walk():
            if c.k == 'CXXMemberCallExpr' and c.callee:
                nm = c.callee.split('::')[-1]
                if norm(c.child('obj').text()) == 'this->point_array' and nm in ('append', 'append_unsafe', 'extend', 'ensure_slots', 'insert'):
                    if nm != 'ensure_slots':
                        direct.add(f.name)
                if c.callee.startswith('gdstk::Curve::') and c.child('obj').k == 'CXXThisExpr':
                    cs.add(nm)
            if is_assign(c) and lvalue_key(c.child('lhs')) == 'this->point_array.count':
                direct.add(f.name)
        calls.setdefault(f.name, set()).update(cs)
    changed = True
    while changed:
        changed = False
        for n_, cs in calls.items():
            if n_ not in direct and cs & direct:
                direct.add(n_)
                changed = True
    return direct


def init_obligations(db, f):
    """FlexPath::init, executed once on a generic element (sa/genelem.py): the spine receives exactly the initial position, and
    the loop over the elements (affine summary: every element once) appends one pair whose first component is HALF the width
    parameter (scalar or per-element array). Returns (one point and one entry per element, entry holds half the width)."""
    from .. import genelem as G, symdiff as S, loops as LP
    seen = {'spine': [], 'wo': []}
    g = G.Gen(db, f)

    def hook(c, env):
        if c.k != 'CXXMemberCallExpr' or (c.callee or '').split('::')[-1] not in ('append', 'append_unsafe'):
            return
        o = _strip_casts(c.child('obj'))
        t = norm(o.text())
        try:
            v = g.value(c.args[0], env)
        except S.Unsupported:
            v = None
        if t == 'this->spine':
            seen['spine'].append((c, v))
        elif t.endswith('half_width_and_offset'):
            seen['wo'].append((c, v))
    g.on_call = hook
    env = {}
    for p_ in f.params:
        if '*' in (p_.get('t') or ''):
            env[p_['n']] = ('ptr', p_['n'] + '[]')
    try:
        g.run([s_ for s_ in f.body.c if s_ is not None], env)
    except S.Unsupported as e:
        raise AnalysisBroken('%s is outside the generic-element algebra: %s' % (f.qn, e))
    if len(seen['spine']) != 1 or len(seen['wo']) != 1:
        return False, False
    ip = f.params[0]['n']
    sv = seen['spine'][0][1]
    ok = sv is not None and g.isvec(sv) and g.equal(sv, g.vec(S.atom(ip + '.x'), S.atom(ip + '.y')))
    c, wv = seen['wo'][0]
    L = LP.enclosing_loop(c)
    if L is None:
        return False, False
    lp = LP.Loop(f, L)
    ep = lp.element_ptr(c.child('obj'), c)
    ok = ok and lp.visits(ep, 'this->elements', {'this->num_elements': 1}) is not None and LP.unconditional_in(c, L)
    wp = next((p_ for p_ in f.params if p_['n'] == 'width'), None)
    half = False
    if wv is not None and g.isvec(wv) and wp is not None:
        watom = S.atom('width[]') if '*' in (wp.get('t') or '') else S.atom('width')
        half = g.equal(wv[1], S.mul(S.P(S.Fraction(1, 2)), watom))
    return ok, half


def check_bookkeeping(ctx, db):
    app = curve_appenders(db)
    need = {'horizontal', 'vertical', 'segment', 'cubic', 'cubic_smooth', 'quadratic', 'quadratic_smooth', 'bezier', 'interpolation', 'arc', 'turn', 'parametric', 'commands', 'append'}
    ctx.check(need <= app, 'R-PAIRCALL', 'Curve/appenders', '', 'vertex-appending Curve methods discovered: %s' % sorted(app), 'discovered appenders %s do not include the known %s' % (sorted(app), sorted(need - app)))
    n = 0
    builders = 0
    for f in db.functions:
        if f.recqn != 'gdstk::FlexPath':
            continue
        sp = [c for c in f.walk() if c.k == 'CXXMemberCallExpr' and c.callee and c.callee.startswith('gdstk::Curve::') and c.callee.split('::')[-1] in app and norm(c.child('obj').text()) == 'this->spine']
        if not sp and f.name == 'init' and f.body is not None:
            # an overload that only forwards to a sibling overload is held to that sibling's obligations
            dl = [c for c in f.walk() if c.k == 'CXXMemberCallExpr' and (c.callee or '') == 'gdstk::FlexPath::init' and _strip_casts(c.child('obj')).k == 'CXXThisExpr']
            if len(dl) == 1:
                ctx.touch(f)
                n += 1
                pn = {p_['n'] for p_ in f.params}
                def bare(a):
                    a = _strip_casts(a)
                    while a is not None and a.k in ('CXXConstructExpr', 'MaterializeTemporaryExpr', 'CXXBindTemporaryExpr') and len([x for x in a.c if x is not None]) == 1:
                        a = _strip_casts([x for x in a.c if x is not None][0])
                    return a
                args = [bare(a) for a in dl[0].args]
                okd = all(a.k == 'DeclRefExpr' and a.dk == 'param' for a in args) and {'initial_position', 'width'} <= {a.n for a in args}
                ctx.check(okd, 'R-PAIRCALL', 'FlexPath::init#%d/one-point-one-entry' % len(f.params), f.loc(), 'forwards its own parameters to the sibling init overload, which appends one spine point and one entry per element')
            continue
        if not sp:
            continue
        ctx.touch(f)
        g = f.cfg
        label = 'FlexPath::%s#%d' % (f.name, len(f.params))
        if f.name == 'init':
            n += 1
            ok, half = init_obligations(db, f)
            ctx.check(ok and half, 'R-PAIRCALL', label + '/one-point-one-entry', f.loc(), 'init appends exactly one spine point and one (half width, offset) entry per element',
                      'init does not append one spine point and one half-width entry per element (half=%s)' % half)
            continue
        builders += 1
        fills = [c for c in f.walk() if c.k == 'CXXMemberCallExpr' and (c.callee or '').endswith('::fill_offsets_and_widths')]
        for a in sp:
            n += 1
            wa = g.where_node(a)
            ok = any(fl.pos > a.pos and g.postdominates(g.where_node(fl), wa) for fl in fills)
            ctx.check(ok, 'R-PAIRCALL', label + '/spine.%s->fill' % a.callee.split('::')[-1], a.loc(), 'the spine mutation is followed on every path by fill_offsets_and_widths',
                      'the spine gains points here without fill_offsets_and_widths on every following path: elements no longer have one width/offset entry per spine point')
        if fills and f.name != 'commands':
            args = [norm(x.text()) for x in fills[0].args]
            ctx.check(args == ['width', 'offset'], 'R-SHAPE', label + '/fill-args', fills[0].loc(), 'forwards the caller\'s width and offset arrays in that order', 'forwards %s' % args)
    ctx.require('FlexPath builders', builders, 17)
    ctx.require('R-PAIRCALL obligations', n, 21)
    # fill_offsets_and_widths, interpreted (sa/minieval, exact rationals) on paths of 1 to 3 elements whose spine gained 0, 1, 2 or 4 points,
    # with and without width / offset lists: every element receives exactly the missing entries, interpolated linearly from its last
    # entry to (width / 2, offset) of ITS OWN list position (a missing list keeps the current value)
    from .. import minieval as M
    from fractions import Fraction
    f = db.fn('gdstk::FlexPath::fill_offsets_and_widths')
    ctx.touch(f)
    problems = []
    runs = 0
    for nel in (1, 2, 3):
        for gained in (0, 1, 2, 4):
            for has_w in (0, 1):
                for has_o in (0, 1):
                    runs += 1
                    have = 2
                    els = []
                    for k_ in range(nel):
                        lst = [M.Obj(x=Fraction(1 + k_), y=Fraction(-2 * k_)), M.Obj(x=Fraction(3 + k_, 2), y=Fraction(5 - k_))]
                        els.append(M.Obj(half_width_and_offset=M.Obj(items=M.Ptr(lst, 0), count=have, capacity=have)))
                    this = M.Obj(spine=M.Obj(point_array=M.Obj(count=have + gained, items=0, capacity=0)), elements=M.Ptr(els, 0), num_elements=nel)
                    W, Of = [Fraction(7 + 2 * k_) for k_ in range(nel)], [Fraction(-3 + 5 * k_, 2) for k_ in range(nel)]
                    ref = [None]
                    mi = M.Mini(db, hook=M.array_hook(ref), budget=50000)
                    mi.obj_store = True
                    ref[0] = mi
                    env = {'this': this, f.params[0]['n']: M.Ptr(list(W), 0) if has_w else 0, f.params[1]['n']: M.Ptr(list(Of), 0) if has_o else 0}
                    try:
                        mi.run(f.body, env)
                    except M.Return:
                        pass
                    except M.OutOfBounds as ex:
                        problems.append('%d elements, %d new points: %s' % (nel, gained, ex))
                        continue
                    for k_ in range(nel):
                        arr = els[k_]['half_width_and_offset']
                        it = arr['items']
                        got = [(it.arr[it.i + j_].get('x'), it.arr[it.i + j_].get('y')) for j_ in range(arr.get('count', 0))]
                        i0 = (Fraction(3 + k_, 2), Fraction(5 - k_))
                        dw = (W[k_] / 2 - i0[0]) if has_w else 0
                        do = (Of[k_] - i0[1]) if has_o else 0
                        want = [(Fraction(1 + k_), Fraction(-2 * k_)), i0] + [(i0[0] + dw * Fraction(i_, gained), i0[1] + do * Fraction(i_, gained)) for i_ in range(1, gained + 1)]
                        if got != want and len(problems) < 3:
                            problems.append('element %d of %d, %d new spine points, width list %s, offset list %s: entries %s, expected %s' % (k_, nel, gained, 'given' if has_w else 'NULL', 'given' if has_o else 'NULL', [(str(a_), str(b_)) for a_, b_ in got], [(str(a_), str(b_)) for a_, b_ in want]))
    ctx.explored['valuations'] += runs
    ok = not problems
    ctx.check(ok, 'R-PAIRCALL', 'fill_offsets_and_widths/count', f.loc(), 'every element receives exactly spine.count - elements[0].count new entries, interpolated from its last entry to (width/2, offset)',
              '; '.join(problems[:2]) or
              'fill_offsets_and_widths shape differs from the confirmed one (count / element loop / half width)')
    # remove_overlapping_points
    f = db.fn('gdstk::FlexPath::remove_overlapping_points')
    ctx.touch(f)
    # from path conditions (if/else, guard clause + continue, for or while alike): both removals run under the merge test with
    # the same index, the element removal inside a loop over all elements; the index advances exactly when the test fails
    from .. import loops as LP
    from ..linear import lin_add
    outer = [l for l in f.walk() if l.k in ('ForStmt', 'WhileStmt') and LP.enclosing_loop(l) is None]
    loop = outer[0] if outer else None
    ok = loop is not None
    if ok:
        rems = [c for c in loop.walk() if c.k == 'CXXMemberCallExpr' and (c.callee or '').endswith('::remove')]
        def merge_pol(node):
            pols = [pol for cnd, pol in tables.path_conds(node, stop=loop) if any(x.k == 'CXXMemberCallExpr' and (x.callee or '').endswith('::length_sq') for x in cnd.walk()) or
                    any(x.k == 'DeclRefExpr' and x.dk == 'local' and any(y.k == 'CXXMemberCallExpr' and (y.callee or '').endswith('::length_sq') for v_ in f.walk() if v_.k == 'VarDecl' and v_.d == x.d and v_.child('init') is not None for y in v_.child('init').walk()) for x in cnd.walk())]
            return pols
        ok = len(rems) == 2 and all(merge_pol(c) == [True] for c in rems) and len({norm(c.args[0].text()) for c in rems}) == 1
        inner = [LP.enclosing_loop(c) for c in rems]
        elem = [c for c, l_ in zip(rems, inner) if l_ is not None and l_ is not loop]
        ok = ok and len(elem) == 1
        if ok:
            lp = LP.Loop(f, LP.enclosing_loop(elem[0]))
            t_ = lp.trip()
            ok = t_ is not None and not lin_add(t_, {'this->num_elements': 1}, -1) and _strip_casts(elem[0].child('obj')).k == 'MemberExpr' and _strip_casts(elem[0].child('obj')).n == 'half_width_and_offset'
        idx = _strip_casts(rems[0].args[0]) if rems else None
        incs = [u for u in loop.walk() if u.k == 'UnaryOperator' and u.op in ('++', 'post++') and idx is not None and idx.k == 'DeclRefExpr' and _strip_casts(u.child('sub')).k == 'DeclRefExpr' and _strip_casts(u.child('sub')).d == idx.d]
        ok = ok and len(incs) == 1 and merge_pol(incs[0]) == [False]
    cmpx = [x for x in f.walk() if x.k == 'BinaryOperator' and x.op in ('<', '<=') and 'length_sq' in norm(x.child('lhs').text())]
    ctx.check(len(cmpx) == 1 and cmpx[0].op == '<' and norm(cmpx[0].child('rhs').text()) == 'tol_sq', 'R-TABLE', 'remove_overlapping_points/strictly-closer', f.loc(), 'points are merged only when STRICTLY closer than the tolerance: a loaded path has a tolerance of exactly one grid step, so vertices one step apart survive a re-save',
              'the merge test is `%s`: vertices exactly one tolerance apart (one grid step after loading a file) are merged on the next save' % (norm(cmpx[0].text()) if cmpx else '?'))
    ctx.check(ok, 'R-PAIRCALL', 'remove_overlapping_points/paired-removal', f.loc(), 'a removed spine point takes the same index out of every element; the index advances only when nothing was removed')


def width_field_values(db, fn, members):
    """{scale_width: value} of the integer local that a PATH writer computes with lround / llround from the element's first width
    entry (the WIDTH record of to_gds, the half-width field of to_oas), evaluated by minieval.value_at with the given member values,
    scaling 1024 and width_scale 2 (RobustPath); the first width entry is 1280.5 / 1024."""
    import math
    from .. import minieval as M
    cands = [v for v in fn.walk() if v.k == 'VarDecl' and v.child('init') is not None and any(c.k == 'CallExpr' and (c.callee or '').split('::')[-1] in ('lround', 'llround') for c in v.child('init').walk())
             and any(x.k == 'MemberExpr' and x.n in ('half_width_and_offset', 'width_array') for x in v.child('init').walk())]
    if len(cands) != 1:
        raise AnalysisBroken('%s: the rounded width local was not found (%d candidates)' % (fn.qn, len(cands)))
    wv = cands[0]

    def hook(callee, args, node):
        short = (callee or '').split('::')[-1]
        if short in ('lround', 'llround'):
            v = float(args[0])
            return (int(math.floor(abs(v) + 0.5)) * (1 if v >= 0 else -1),)
        if short == 'interp':
            return (members.get('interp', 1.25048828125),)
        return None
    # the first width entry, however the expression reaches it (the key is the member expression's own text)
    members = dict(members)
    for x in wv.child('init').walk():
        tx = ' '.join(x.text().split())
        if x.k == 'MemberExpr' and x.n in ('u', 'x') and 'half_width_and_offset[' in tx:
            members[tx] = 1.25048828125      # = 1280.5 / 1024: rounding the half-width first and doubling it gives another integer than rounding the full width
        elif x.k == 'MemberExpr' and x.n in ('v', 'y') and 'half_width_and_offset[' in tx:
            members[tx] = 77.0
        elif x.k == 'MemberExpr' and x.n == 'width_array':
            members[tx] = M.Obj(items=M.Ptr([M.Obj(), M.Obj()], 0), count=2, capacity=2)      # (interp is answered by the harness)
    out = {}
    for sw in (1, 0):
        mem = dict(members)
        mem.update({'this->scale_width': sw, 'scale_width': sw, 'state.scaling': 1024.0, 'this->width_scale': 2.0, 'width_scale': 2.0})
        out[sw] = M.value_at(db, wv.child('init'), members=mem, hook=hook, obj_store=True, env0={'scaling': 1024.0})
    return out, wv


def check_units(ctx, db):
    g = db.fn('gdstk::FlexPath::to_gds')
    o = db.fn('gdstk::FlexPath::to_oas')
    ctx.touch(g)
    ctx.touch(o)
    # the value of the WIDTH / half-width field, evaluated (minieval.value_at: the backward slice of the field's local) for a path
    # whose first half-width is 1280.5 / 1024 with scaling 1024, scaling and not scaling its width - whatever expression spells it
    for fn_, key, what, want in ((g, 'FlexPath::to_gds/full-width', 'GDSII WIDTH = lround(2 x half-width x scaling), negative when the width must not scale', {1: 2561, 0: -2561}),
                                 (o, 'FlexPath::to_oas/half-width', 'OASIS half-width = llround(half-width x scaling)', {1: 1281, 0: 1281})):
        got, wv = width_field_values(db, fn_, {})
        ctx.check(got == want, 'R-UNIT', key, wv.loc() if wv is not None else fn_.loc(), what, 'for a first half-width of 1280.5 / 1024 and scaling 1024 the field is %s (scale_width true / false), expected %s' % ([got.get(1), got.get(0)], [want[1], want[0]]))
    for f in (g, o):
        ec = [c for c in f.walk() if c.k == 'CXXMemberCallExpr' and (c.callee or '').endswith('::element_center')]
        ro = [c for c in f.walk() if c.k == 'CXXMemberCallExpr' and (c.callee or '').endswith('::remove_overlapping_points')]
        ctx.check(len(ec) == 1 and len(ro) == 1 and ro[0].pos < ec[0].pos, 'R-SHAPE', '%s/centre-line' % f.qn.replace('gdstk::', ''), f.loc(), 'overlapping points are removed first and the PATH centre line comes from element_center')
    # to_polygons / to_gds entry: too-short paths are rejected, not written
    for f in (g, o, db.fn('gdstk::FlexPath::to_polygons')):
        t = norm(clone.canon(f.body, f))
        ctx.check('if ((this->spine.point_array.count < 2))' in t, 'R-SHAPE', '%s/min-two-points' % f.qn.replace('gdstk::', ''), f.loc(), 'paths with fewer than two spine points are rejected')


def check_enums(ctx, db):
    tp = db.fn('gdstk::FlexPath::to_polygons')
    ec = db.fn('gdstk::FlexPath::element_center')
    ctx.touch(tp)
    ctx.touch(ec)

    def mentions(f):
        out = {}
        for x in f.walk():
            if x.k == 'DeclRefExpr' and x.dk == 'enum' and x.qn:
                parts = x.qn.split('::')
                out[(parts[-2], parts[-1])] = out.get((parts[-2], parts[-1]), 0) + 1
        return out
    mt, me = mentions(tp), mentions(ec)
    for enum, minimum, implicit in (('EndType', 2, ()), ('JoinType', 2, ()), ('BendType', 1, ())):
        for c in db.enum('gdstk::' + enum)['consts']:
            k = (enum, c['n'])
            ctx.check(mt.get(k, 0) >= minimum, 'R-EXHAUST', 'FlexPath::to_polygons/%s::%s' % k, tp.loc(), '%s::%s is handled (%d tests; both ends / both sides)' % (enum, c['n'], mt.get(k, 0)),
                      '%s::%s is tested %d time(s) in to_polygons; it must be handled at both path ends / on both sides (>= %d)' % (enum, c['n'], mt.get(k, 0), minimum))
    for c in db.enum('gdstk::BendType')['consts']:
        k = ('BendType', c['n'])
        ctx.check(me.get(k, 0) >= 1, 'R-EXHAUST', 'FlexPath::element_center/BendType::%s' % c['n'], ec.loc(), 'BendType::%s is handled by the centre-line builder' % c['n'])
    g = db.fn('gdstk::FlexPath::to_gds')
    o = db.fn('gdstk::FlexPath::to_oas')
    tables.check_exhaustive(ctx, db, o, 'gdstk::EndType', frozen_default={('gdstk::FlexPath::to_oas', 0): ['Extended', 'HalfWidth']})
    # PATHTYPE tables (evaluated per enumerator, whatever the form of the mapping): FlexPath, RobustPath and the format agree
    a, b = pathtype_table(db, g), pathtype_table(db, db.fn('gdstk::RobustPath::to_gds'))
    ctx.explored['valuations'] += len(a) + len(b)
    ctx.check(a == PATHTYPE_SPEC, 'R-TABLE', 'EndType->PATHTYPE/FlexPath', g.loc(), 'FlexPath::to_gds writes PATHTYPE %s' % a, 'FlexPath::to_gds writes PATHTYPE %s; the format (and read_gds) expect %s' % (a, PATHTYPE_SPEC))
    ctx.check(a == b, 'R-TABLE', 'EndType->PATHTYPE/FlexPath~RobustPath', g.loc(), 'both path writers map end types to the same PATHTYPE codes %s' % a, 'PATHTYPE tables differ: %s vs %s' % (a, b))


# GDSII PATHTYPE: 0 square ends flush with the end points, 1 round, 2 square extended by half the width, 4 explicit extensions
PATHTYPE_SPEC = {'Flush': 0, 'Round': 1, 'HalfWidth': 2, 'Extended': 4, 'Smooth': 1, 'Function': 0}


def pathtype_table(db, f):
    """EndType enumerator -> the value the writer places after the PATHTYPE header (0x2102), obtained by evaluating the
    writer's computation of that value for every enumerator (sa/minieval.value_at): a switch, an if chain, a conditional
    expression or a helper function give the same table."""
    from .. import minieval
    site = None
    for il in f.walk():
        if il.k == 'InitListExpr':
            cs = [c for c in il.c if c is not None]
            for i, c in enumerate(cs[:-1]):
                if c.cv == 0x2102:
                    site = cs[i + 1]
    if site is None:
        raise AnalysisBroken('%s: no PATHTYPE header (0x2102) in a record buffer' % f.qn)
    return {e['n']: minieval.value_at(db, site, typed={'EndType': e['v']}) for e in db.enum('gdstk::EndType')['consts']}


def check_bounds(ctx, db):
    n = 0
    for name in ('scale', 'mirror', 'transform'):
        f = db.fn('gdstk::FlexPath::' + name)
        ctx.touch(f)
        from ..facts import expr_text
        hook, _drop = clone.temps(f, [f.body])       # `const uint64_t n = spine.point_array.count` reads as its initialiser
        tx = lambda e: norm(expr_text(e, None, hook))
        for l in f.walk():
            if l.k == 'ForStmt' and any(x.k == 'DeclRefExpr' and x.n == 'wo' for x in (l.child('body').walk() if l.child('body') is not None else [])) and not any(v.k == 'VarDecl' and v.n == 'wo' for v in l.walk()):
                iv = next((v for v in (l.child('init').walk() if l.child('init') is not None else []) if v.k == 'VarDecl'), None)
                if iv is None:
                    continue
                n += 1
                c = _strip_casts(l.child('cond')) if l.child('cond') is not None else None
                trips = None
                if c is not None and c.k == 'BinaryOperator' and _strip_casts(c.child('lhs')).k == 'DeclRefExpr' and _strip_casts(c.child('lhs')).n == iv.n:
                    if c.op == '>' and _strip_casts(c.child('rhs')).cv == 0:
                        trips = tx(iv.child('init'))                                  # counts down from N
                    elif c.op == '<' and _strip_casts(iv.child('init')).cv == 0:
                        trips = tx(c.child('rhs'))                                    # counts up to N
                ok = trips == 'this->spine.point_array.count'
                ctx.check(ok, 'R-BOUND', 'FlexPath::%s/wo-loop' % name, l.loc(), 'the loop over half_width_and_offset is bounded by the spine point count (valid given the bookkeeping invariant)')
    ctx.require('R-BOUND wo loops', n, 3)


SHARED = ('spine_normal', 'p2', 'p3', 't2', 'n2', 'p_next', 'len_prev', 'len_next', 'len_factor', 'len_required', 'bend_dir')
SIB_RENAMES = (('path_offsets', 'offsets'), ('path_half_widths', 'half_widths'), ('center_radius', 'radius'))


def shared_defs(f, centre):
    """definitions of the look-ahead / bend-room variables inside the main spine loop, with the guard of compound updates"""
    # the bend-room test: the `if` that compares the length a bend needs with the straight length before the corner (`len_prev`) and after it
    def _is_room(i):
        c = i.child('cond')
        cmps = [x for x in c.walk() if x.k == 'BinaryOperator' and x.op in ('<', '>', '<=', '>=')]
        return len(cmps) >= 2 and any(any(y.k == 'DeclRefExpr' and y.n == 'len_prev' for y in x.walk()) for x in cmps)
    room = next((i for i in f.walk() if i.k == 'IfStmt' and _is_room(i)), None)
    if room is None:
        raise AnalysisBroken('%s: bend-room test not found' % f.qn)
    loop = next((a for a in room.ancestors() if a.k == 'ForStmt'), None)
    if loop is None:
        raise AnalysisBroken('%s: spine loop not found' % f.qn)
    out = []
    SHARED = globals()['SHARED'] + (centre,)

    def ren(t):
        t = norm(t)
        for a, b in SIB_RENAMES:
            t = re.sub(r'\b%s\b' % a, b, t)
        return t
    # single-definition temporaries of the loop are inlined, so hoisting a common sub-expression is not a difference
    assigned = {_strip_casts(x.child('lhs')).n for x in loop.walk() if (is_assign(x) or x.k == 'CompoundAssignOperator') and _strip_casts(x.child('lhs')).k == 'DeclRefExpr'}
    temps = {}
    for v in loop.walk():
        if v.k == 'VarDecl' and v.child('init') is not None and v.n not in SHARED and v.n not in assigned and v.parent is not None and v.parent.k == 'DeclStmt' and loop.child('init') is not v.parent:
            temps[v.n] = ren(v.child('init').text()) if v.n not in temps else None

    def inline(t):
        for _ in range(3):
            for k_, v_ in temps.items():
                if v_ is not None:
                    t = re.sub(r'(?<![\w.>])%s\b' % re.escape(k_), lambda m_: v_ if v_.startswith('(') else '(%s)' % v_, t)
        return t
    for x in loop.walk():
        name = op = rhs = None
        if x.k == 'VarDecl' and x.child('init') is not None and x.n in SHARED:
            name, op, rhs = x.n, '=', x.child('init')
        elif (is_assign(x) or x.k == 'CompoundAssignOperator') and _strip_casts(x.child('lhs')).k == 'DeclRefExpr' and _strip_casts(x.child('lhs')).n in SHARED:
            name, op, rhs = _strip_casts(x.child('lhs')).n, x.op, x.child('rhs')
        if name is None:
            continue
        r0 = _strip_casts(rhs)
        if op == '=' and (r0.cv == 0 or r0.fv == 0) and r0.k != 'DeclRefExpr':
            continue  # zero initialisers; to_polygons also clears bend_dir to skip the bend where element_center appends the corner
        where = ''
        if any(a is room for a in x.ancestors()):
            where = 'room-else' if any(y is x for y in (room.child('else').walk() if room.child('else') is not None else [])) else 'room-then'
        out.append((ren(name), op, inline(ren(rhs.text())), where))
    cond = [ren(c) for c in re.split(r' \|\| ', norm(room.child('cond').text()).strip('()'))][:2]
    return sorted(set(out)), cond, room


def check_siblings(ctx, db):
    """FlexPath::to_polygons (outline) and FlexPath::element_center (centre line of the same element)
    share the look-ahead intersection and the bend-room bookkeeping; the two copies must agree."""
    a = db.fn('gdstk::FlexPath::to_polygons')
    b = db.fn('gdstk::FlexPath::element_center')
    ctx.touch(a)
    ctx.touch(b)
    da, ca, ra = shared_defs(a, 'center_radius')
    dbb, cb, rb = shared_defs(b, 'radius')
    names = sorted({d[0] for d in da} | {d[0] for d in dbb})
    n = 0
    for nm in names:
        xa = [d[1:] for d in da if d[0] == nm]
        xb = [d[1:] for d in dbb if d[0] == nm]
        n += 1
        ctx.check(xa == xb, 'R-CLONE', 'to_polygons~element_center/%s' % nm, ra.loc(), '`%s` is computed identically in both copies (%d definitions)' % (nm, len(xa)),
                  '`%s` differs between the outline and the centre-line copy of the same computation: to_polygons %s vs element_center %s' % (nm, xa, xb))
    ctx.check(ca == cb, 'R-CLONE', 'to_polygons~element_center/room-test', ra.loc(), 'both copies refuse the bend when it needs more than the previous or the next straight length', 'room tests differ: %s vs %s' % (ca, cb))
    ctx.require('R-CLONE shared look-ahead/bend variables', n, 10)
    # the consumed length is deducted exactly in the branch that places the bend
    for f, defs in ((a, da), (b, dbb)):
        upd = [d for d in defs if d[0] == 'len_next' and d[1] == '-=']
        ctx.check(upd == [('len_next', '-=', 'len_required', 'room-else')], 'R-DEP', '%s/bend-consumes-length' % f.qn.replace('gdstk::', ''), f.loc(), 'when a bend is placed the straight length it uses is deducted from what the next corner sees',
                  'the length consumed by a placed bend is not deducted from the following section: %s' % upd)


def check_dimensions(ctx, db):
    """R-DIM: additions, subtractions and comparisons in the outline code combine equal powers of length"""
    from .. import dims
    seeds = {'tolerance': 1, 'tolerance_sq': 2, 'tol_sq': 2, 'spine_points': 1, 'half_widths': 1, 'offsets': 1, 'path_offsets': 1, 'path_half_widths': 1, 'bend_radius': 1, 'radius': 1, 'center_radius': 1, 'half_width_and_offset': 1, 'point_array': 1, 'end_extensions': 1, 'width': 1, 'offset': 1, 'half_width': 1, 'p': 1, 'p0': 1, 'p1': 1, 'p2': 1, 'p3': 1, 'p_next': 1, 'center': 1, 'cap_l': 1, 'cap_r': 1}
    n = 0
    for qn, mins in (('gdstk::FlexPath::to_polygons', 100), ('gdstk::FlexPath::element_center', 30), ('gdstk::FlexPath::remove_overlapping_points', 2)):
        f = db.fn(qn)
        ctx.touch(f)
        n += dims.check(ctx, f, seeds, min_sites=mins)
    ctx.require('R-DIM resolved sites', n, 130)


def check_side_symmetry(ctx, db):
    """R-MIRROR: the two sides of the outline are mirror images about the centre line: inside every block of FlexPath::to_polygons the
    displaced points `P + N * half_widths[I]` (left) and `P - N * half_widths[I]` (right) come in pairs with the same point, the same
    normal and the same width index. (A side written through a shared displacement vector has no such form and is not an instance.)"""
    from collections import Counter
    f = db.fn('gdstk::FlexPath::to_polygons')
    ctx.touch(f)
    per = {}
    for x in f.walk():
        if x.k not in ('CXXOperatorCallExpr', 'BinaryOperator') or x.op not in ('+', '-'):
            continue
        a = x.args if x.k == 'CXXOperatorCallExpr' else [x.child('lhs'), x.child('rhs')]
        if len(a) != 2 or a[0] is None or a[1] is None:
            continue
        r = _strip_casts(a[1])
        if r is None or r.k not in ('CXXOperatorCallExpr', 'BinaryOperator') or r.op != '*' or 'half_widths[' not in r.text() or 'half_widths[' in a[0].text():
            continue
        blk = next((b for b in x.ancestors() if b.k == 'CompoundStmt'), None)
        per.setdefault(blk.id if blk is not None else 0, []).append((x.op, norm(a[0].text()), norm(r.text()), x))
    n = 0
    for bid, forms in per.items():
        plus = Counter((p_, w) for op, p_, w, x in forms if op == '+')
        minus = Counter((p_, w) for op, p_, w, x in forms if op == '-')
        n += len(forms)
        diff = (plus - minus) + (minus - plus)
        first = forms[0][3]
        ctx.check(not diff, 'R-MIRROR', 'FlexPath::to_polygons/sides@%d' % first.l, first.loc(), '%d displaced points in this block pair up: every `P - N*w[I]` has its `P + N*w[I]`' % len(forms),
                  'the left and right sides of this block are not mirror images: unpaired %s' % ['%s +/- %s' % k for k in diff][:3])
    ctx.require('R-MIRROR displaced points', n, 20)


def check_join_mirror(ctx, db):
    """R-MIRROR.joins: apart from the round join (whose arc runs the other way round) the outer-side join of the right side
    and that of the left side are the same computation on that side's points and tangents: for every join type the two
    arms of FlexPath::to_polygons are equal up to a consistent renaming of variables (alpha-equivalence by first occurrence)."""
    f = db.fn('gdstk::FlexPath::to_polygons')
    ctx.touch(f)
    jt = {c['v']: c['n'] for c in db.enum('gdstk::JoinType')['consts']}
    arms = {}
    for i_ in f.walk():
        if i_.k != 'IfStmt':
            continue
        c = _strip_casts(i_.child('cond'))
        if c is None or c.k != 'BinaryOperator' or c.op != '==':
            continue
        l, r = _strip_casts(c.child('lhs')), _strip_casts(c.child('rhs'))
        if r is not None and r.k == 'DeclRefExpr' and r.dk == 'enum' and (r.qn or '').startswith('gdstk::JoinType::') and l is not None and 'join_type' in l.text():
            th = i_.child('then')
            sides = {lvalue_key(x.child('obj')) for x in th.walk() if x.k == 'CXXMemberCallExpr' and x.child('obj') is not None and 'curve' in (x.child('obj').text() or '')}
            if len(sides) == 1:
                arms.setdefault(r.qn.split('::')[-1], []).append((sides.pop(), th))
    n = 0
    for name, lst in sorted(arms.items()):
        if name == 'Round' or len(lst) != 2 or lst[0][0] == lst[1][0]:
            continue
        n += 1
        (sa_, a), (sb_, b) = lst
        ta = norm(clone.canon(a, f, ren=clone.Renamer()))
        tb = norm(clone.canon(b, f, ren=clone.Renamer()))
        d = clone.first_diff(ta, tb)
        ctx.check(d is None, 'R-MIRROR', 'FlexPath::to_polygons/join:%s' % name, a.loc(), 'the %s join is the same computation on both sides (%d canonical lines)' % (name, len(ta.splitlines())),
                  None if d is None else 'the %s join differs between the two sides of the path (%s vs %s) at canonical line %d: `%s`  vs  `%s`' % (name, a.loc(), b.loc(), d[0], d[1][:110], d[2][:110]))
    ctx.require('R-MIRROR join arms', n, 4)


def check_cap_indices(ctx, db):
    """R-INDEX: FlexPath::to_polygons walks the spine once; before that walk (initial cap) every half-width it reads belongs to the
    first or second spine point (entries 0 and 2 of the interleaved width/offset pairs), after it (final cap) to the last or the one
    before (entries 2(n-1) and 2(n-2)), as linear forms through named locals. A final cap sized with the first point's width shows on
    every tapering path."""
    from .. import linear
    f = db.fn('gdstk::FlexPath::to_polygons')
    ctx.touch(f)
    subs = [x for x in f.walk() if x.k == 'ArraySubscriptExpr' and norm(((x.child('base') or x.c[0]).text())) == 'half_widths']
    cands = []
    for l in f.walk():
        if l.k != 'ForStmt' or l.child('init') is None:
            continue
        ivs = {v.d for v in l.child('init').walk() if v.k == 'VarDecl'}
        if any(any(y.k == 'DeclRefExpr' and y.d in ivs for y in (x.child('idx') or x.c[1]).walk()) for x in subs if any(z is x for z in l.walk())):
            cands.append(l)
    if not cands:
        raise AnalysisBroken('FlexPath::to_polygons: spine walk (loop indexing half_widths by its own variable) not found')
    walk = max(cands, key=lambda l: sum(1 for _ in l.walk()))
    lo, hi = walk.pos, max(n.pos for n in walk.walk())
    n = 0
    bad = []
    for x in subs:
        if lo <= x.pos <= hi:
            continue
        n += 1
        li = linear.lin_of(f, x.child('idx') or x.c[1], x)
        clean = {k_: v_ for k_, v_ in (li or {}).items() if v_ != 0}
        syms = [k_ for k_ in clean if k_ != 1]
        if x.pos < lo:
            ok = not syms and clean.get(1, 0) in (0, 2)
            want = 'entry 0 or 2 (first / second spine point)'
        else:
            ok = len(syms) == 1 and str(syms[0]).endswith('.count') and clean[syms[0]] == 2 and clean.get(1, 0) in (-2, -4)
            want = 'entry 2(n-1) or 2(n-2) (last / last but one spine point)'
        if not ok:
            bad.append('%s: `%s` is %s, expected %s' % (x.loc(), norm(x.text())[:50], clean, want))
    ctx.check(not bad, 'R-INDEX', 'FlexPath::to_polygons/cap-widths', f.loc(), 'the %d half-width reads outside the spine walk use the end they belong to' % n, '; '.join(bad[:3]))
    ctx.require('R-INDEX cap width reads', n, 20)


def run(ctx):
    db = ctx.db
    ctx.attempt(check_cap_indices, ctx, db)
    ctx.attempt(check_side_symmetry, ctx, db)
    ctx.attempt(check_join_mirror, ctx, db)
    ctx.attempt(check_bookkeeping, ctx, db)
    ctx.attempt(check_units, ctx, db)
    ctx.attempt(check_enums, ctx, db)
    ctx.attempt(check_bounds, ctx, db)
    ctx.attempt(check_siblings, ctx, db)
    ctx.attempt(check_dimensions, ctx, db)
    from . import C03   # a simple path saved as GDSII PATH records: well-formed records, XY chunks that continue where the previous one ended
    ctx.attempt(C03.check_writers, ctx, db, only={'gdstk::FlexPath::to_gds'})
    from . import C02   # the OASIS PATH extension scheme written for a simple path announces exactly the extensions that follow
    ctx.attempt(C02.check_path_extensions, ctx, db)


MANIFEST = dict(
    text='(R-DIM) A powers-of-length analysis of to_polygons, element_center and remove_overlapping_points finds every addition and comparison dimensionally consistent (lengths with lengths, squared tolerances with squared distances); Decides structural necessary conditions of FlexPath consistency on every path: every call that makes the spine grow (the appending Curve methods are discovered by closure over curve.cpp) is followed by fill_offsets_and_widths, which gives every element exactly the missing number of entries with the width halved; the four init overloads add one point and one entry per element; remove_overlapping_points removes the same index from the spine and from every element and advances only otherwise; GDSII WIDTH is twice and OASIS half-width exactly the stored half-width of entry 0 with the centre line from element_center after overlap removal; all End/Join/Bend enumerators are handled at both ends/sides in to_polygons and the PATHTYPE table equals RobustPath\'s; loops over width/offset entries are bounded by the spine count; the look-ahead intersection and the bend-room bookkeeping (previous/next straight length, required length, deduction when a bend is placed) are identical in to_polygons and element_center. The outline geometry (joins, bends, caps) is not decided. fill_offsets_and_widths is interpreted in exact rationals (1-3 elements x 0/1/2/4 new spine points x lists given or NULL): every element receives exactly the missing entries, interpolated to (width/2, offset) of its own list position; the cap half-widths belong to the first/second resp. last/last-but-one spine point (R-INDEX); the two sides of every non-round join are alpha-equivalent (R-MIRROR).',
    note='Trusted: clang front end, gx, sa rules; Curve internals are C15\'s subject.',
    technique='post-dominance pairing over the CFG with a discovered trigger set + unit/shape rules + enum coverage + sibling tables + sibling-definition comparison of the shared look-ahead/bend computation + interpretation of fill_offsets_and_widths in exact rationals (sa/minieval) + linear index forms (R-INDEX) + alpha-equivalence of the two sides (R-MIRROR)',
    design='§4 C07')
