"""C08 — RobustPath: section bookkeeping paired with every builder, frame discipline (no `trafo`
in builders), sampler/intersection/query clone families, look-ahead iterators, PATH width unit,
enum exhaustiveness, command operand consumption. (DESIGN §4 C08)"""
import re
from .. import clone, tables, consume, parallel
from ..facts import AnalysisBroken
from ..flow import lvalue_key, is_assign, _strip_casts

EXPLANATION = ('R-PAIRCALL: every method that appends a section (subpath_array.append) calls fill_widths_and_offsets afterwards on '
               'every path, and fill_widths_and_offsets appends exactly one width and one offset interpolation to every element on '
               'all four NULL/non-NULL branch combinations; delegating builders reach a direct builder. R-EFFECT: no builder reads '
               '`trafo` (sections and end_point live in the untransformed frame). R-CLONE: {spine,center,left,right}_points and '
               '*_intersection are identical up to the position/gradient callee; position/gradient/width/offset share the index '
               'clamping prologue. R-PARALLEL: look-ahead iterators (sub1, offset1, width1) advance with their loop in to_polygons, '
               'element_center and spine. R-UNIT: the OASIS PATH half-width is 0.5 x interpolated width x width_scale, the GDSII '
               'WIDTH the full width. R-EXHAUST: SubPathType in eval/gradient, InterpolationType in interp, EndType in the writers. '
               'R-CONSUME: operand consumption of RobustPath::commands. Outline accuracy and intersection convergence are not decided.')
# (the four *_intersection searches are textual siblings too: one of them tidied on its own - benign X4-3: step update moved into a
# local lambda - differs in spelling only; what each evaluates is decided by R-SHAPE `own side`, the spelling comparison is evidence)
ADVISORY = [('R-CLONE', r'^RobustPath query prologue'), ('R-SHAPE', r'^RobustPath query prologue/clamp'), ('R-CLONE', r'^RobustPath samplers/'), ('R-CLONE', r'^RobustPath intersections/')]
ASSUMPTIONS = ['SubPath::eval/gradient numerics are not analysed', 'RobustPath transforms are covered by C10']
XREF_FILES = ['src/robustpath.cpp']

DIRECT = ['segment', 'cubic', 'cubic_smooth', 'quadratic', 'quadratic_smooth', 'bezier', 'arc', 'parametric']
DELEGATING = {'horizontal': 'segment', 'vertical': 'segment', 'interpolation': 'cubic', 'turn': 'arc'}


def norm(t):
    return re.sub(r'<[A-Za-z]+:(?!:)[^>]*>', '', t).replace('gdstk::', '')


def check_bookkeeping(ctx, db):
    n = 0
    appenders = []
    for f in db.functions:
        if f.recqn == 'gdstk::RobustPath' and any(c.k == 'CXXMemberCallExpr' and (c.callee or '').endswith('::append') and norm(c.child('obj').text()) == 'this->subpath_array' for c in f.walk()):
            appenders.append(f)
    names = sorted(f.name for f in appenders)
    ctx.check(names == sorted(DIRECT), 'R-PAIRCALL', 'RobustPath/direct-builders', appenders[0].loc() if appenders else '', 'the methods that append sections are exactly %s' % sorted(DIRECT),
              'methods appending to subpath_array are %s; the confirmed set is %s (a new appender must be paired with fill_widths_and_offsets and added to the table)' % (names, sorted(DIRECT)))
    for f in appenders:
        ctx.touch(f)
        g = f.cfg
        aps = [c for c in f.walk() if c.k == 'CXXMemberCallExpr' and (c.callee or '').endswith('::append') and norm(c.child('obj').text()) == 'this->subpath_array']
        fills = [c for c in f.walk() if c.k == 'CXXMemberCallExpr' and (c.callee or '').endswith('::fill_widths_and_offsets')]
        for a in aps:
            n += 1
            wa = g.where_node(a)
            ok = any(g.postdominates(g.where_node(fl), wa) and fl.pos > a.pos for fl in fills)
            ctx.check(ok and len(aps) == len(fills), 'R-PAIRCALL', 'RobustPath::%s/append->fill' % f.name, a.loc(), 'the appended section is followed on every path by exactly one fill_widths_and_offsets',
                      'a section is appended without a fill_widths_and_offsets on every following path: width/offset arrays fall out of step with subpath_array')
            if fills:
                args = [norm(x.text()) for x in fills[0].args]
                ctx.check(args == ['width_', 'offset_'], 'R-SHAPE', 'RobustPath::%s/fill-args' % f.name, fills[0].loc(), 'the caller\'s width and offset interpolations are forwarded in that order', 'forwards %s' % args)
    for name, target in DELEGATING.items():
        f = db.fn('gdstk::RobustPath::' + name)
        ctx.touch(f)
        n += 1
        calls = [c for c in f.walk() if c.k == 'CXXMemberCallExpr' and (c.callee or '') == 'gdstk::RobustPath::' + target]
        ok = bool(calls) and all(norm(c.args[-3 if target != 'arc' else -2].text()) == 'width_' for c in calls)
        ctx.check(ok, 'R-PAIRCALL', 'RobustPath::%s/delegates' % name, f.loc(), 'delegates to %s forwarding the interpolations' % target)
    # fill_widths_and_offsets: for each of the four (width_ given?, offset_ given?) valuations the executed statements
    # append exactly one entry per element: the affine loop summary (sa/loops.py) must show that the element written
    # in iteration k ranges over elements[0..num_elements) once, that the caller's entry used is the one with the same
    # index, and that the end value is refreshed from / copied into that same element. The loop form is irrelevant.
    n += check_fill(ctx, db)
    ctx.require('R-PAIRCALL obligations', n, 16)


def _unwrap_copy(a):
    a = _strip_casts(a)
    while a is not None and a.k in ('CXXConstructExpr', 'MaterializeTemporaryExpr', 'CXXBindTemporaryExpr', 'CXXFunctionalCastExpr') and len([x for x in a.c if x is not None]) == 1:
        a = _strip_casts([x for x in a.c if x is not None][0])
    return a


def check_fill(ctx, db):
    from .. import loops, minieval
    from ..linear import lin_add
    f = db.fn('gdstk::RobustPath::fill_widths_and_offsets')
    ctx.touch(f)
    pw, po = f.params[0]['n'], f.params[1]['n']
    n = 0
    for arr, endf, pname in (('width_array', 'end_width', pw), ('offset_array', 'end_offset', po)):
        for given in (False, True):
            n += 1
            key = 'fill_widths_and_offsets/%s/%s' % (arr, 'given' if given else 'default')
            problems = []
            for other in (False, True):
                env = {pname: 1 if given else 0, (po if pname == pw else pw): 1 if other else 0}

                def ev(cond):
                    try:
                        return bool(minieval.Mini(db).ev(cond, dict(env)))
                    except AnalysisBroken:
                        return None
                unknown = []
                ex = tables.executed([f.body], {}, unknown=unknown, evaluator=ev)
                if unknown:
                    raise AnalysisBroken('fill_widths_and_offsets: branch `%s` does not fold under %s' % (unknown[0].child('cond').text()[:60], env))
                aps = []
                for st, _ in ex:
                    for c in st.walk():
                        if c.k == 'CXXMemberCallExpr' and (c.callee or '').split('::')[-1] in ('append', 'append_unsafe'):
                            o = _strip_casts(c.child('obj'))
                            if o is not None and o.k == 'MemberExpr' and o.n == arr and not any(c is a for a in aps):
                                aps.append(c)
                if len(aps) != 1:
                    problems.append('%d appends to %s are executed when %s (expected exactly one, in a loop over the elements)' % (len(aps), arr, env))
                    continue
                ap = aps[0]
                L = loops.enclosing_loop(ap)
                if L is None or not loops.unconditional_in(ap, L):
                    problems.append('the append to %s is not executed once per iteration of a loop over the elements' % arr)
                    continue
                lp = loops.Loop(f, L)
                ep = lp.element_ptr(ap.child('obj'), ap)
                order = lp.visits(ep, 'this->elements', {'this->num_elements': 1})
                if lp.trip() is None or ep is None:
                    raise AnalysisBroken('fill_widths_and_offsets: loop at %s is not an affine counting loop (trip %s, element %s)' % (L.loc(), lp.trip(), ep))
                if order is None:
                    problems.append('the loop at %s runs %s times and appends to element %s: not one entry for each of elements[0..num_elements)' % (L.loc(), lp.trip(), ep))
                    continue
                idx = lin_add(ep, {'this->elements': 1}, -1)
                arg = _unwrap_copy(ap.args[0])
                body = [x for x in L.child('body').walk()]
                if given:
                    aa = lp.addr(arg, ap)
                    pk = next(('v%d:%s' % (q.d, q.n) for q in f.walk() if q.k == 'DeclRefExpr' and q.dk == 'param' and q.n == pname), None)
                    if aa is None or pk is None:
                        raise AnalysisBroken('fill_widths_and_offsets: appended value `%s` is not an element of the caller array' % arg.text()[:40])
                    if lin_add(lin_add(aa, {pk: 1}, -1), idx, -1):
                        problems.append('element %s receives the caller entry %s (a different index)' % (idx, lin_add(aa, {pk: 1}, -1)))
                    ends = [x for x in body if is_assign(x) and x.op == '=' and _strip_casts(x.child('lhs')).k == 'MemberExpr' and _strip_casts(x.child('lhs')).n == endf]
                    good = False
                    for x in ends:
                        r = _strip_casts(x.child('rhs'))
                        if loops.unconditional_in(x, L) and not lin_add(lp.element_ptr(x.child('lhs'), x) or {1: 99}, ep, -1) and r.k == 'CallExpr' and r.callee == 'gdstk::interp' and len(r.args) == 2:
                            a0 = lp.addr(_unwrap_copy(r.args[0]), x)
                            one = _strip_casts(r.args[1])
                            if a0 is not None and not lin_add(a0, aa, -1) and (one.cv == 1 or one.fv == 1.0):
                                good = True
                    if not good:
                        problems.append('%s of the element is not refreshed with interp(<the appended entry>, 1)' % endf)
                else:
                    if arg.k != 'DeclRefExpr' or arg.dk != 'local':
                        raise AnalysisBroken('fill_widths_and_offsets: default entry `%s` is not a local interpolation' % arg.text()[:40])
                    ak = lvalue_key(arg)
                    decl = next((v for v in f.walk() if v.k == 'VarDecl' and 'v%d:%s' % (v.d, v.n) == ak), None)
                    const = decl is not None and decl.child('init') is not None and any(x.k == 'DeclRefExpr' and x.dk == 'enum' and x.n == 'Constant' for x in decl.child('init').walk())
                    const = const or any(is_assign(x) and lvalue_key(_strip_casts(x.child('lhs'))) == ak + '.type' and 'Constant' in x.child('rhs').text() for x in f.walk())
                    if not const:
                        problems.append('the default entry is not of InterpolationType::Constant')
                    sets = [x for x in body if is_assign(x) and x.op == '=' and x.pos < ap.pos and lvalue_key(_strip_casts(x.child('lhs'))) in (ak + '.value', ak + '.initial_value')]
                    good = False
                    for x in sets:
                        r = _strip_casts(x.child('rhs'))
                        if loops.unconditional_in(x, L) and r.k == 'MemberExpr' and r.n == endf and not lin_add(lp.element_ptr(r, x) or {1: 99}, ep, -1):
                            good = True
                    if not good:
                        problems.append('the default entry is not set to %s of the same element before it is appended' % endf)
            ctx.explored['valuations'] += 2
            ctx.check(not problems, 'R-PAIRCALL', key, f.loc(),
                      'appends exactly one %s entry to every element (%s)' % (arr, 'the caller\'s entry with the same index; end value refreshed' if given else 'constant at the element\'s previous end value'),
                      '; '.join(problems))
    return n


def check_frame(ctx, db):
    n = 0
    # RobustPath members (and file-local helpers) that read the path transform, directly or through what they call
    members = [g for g in db.functions if g.body is not None and g.relfile() == 'src/robustpath.cpp' and ((g.rec or '').endswith('RobustPath') or g.rec is None)]
    reads = {}
    for g in members:
        d = [m for m in g.walk() if m.k == 'MemberExpr' and m.n == 'trafo' and m.rec == 'gdstk::RobustPath']
        if d:
            reads[g.qn] = (d[0], [g.name])
    grew = True
    while grew:
        grew = False
        for g in members:
            if g.qn in reads:
                continue
            for c in g.calls():
                if c.callee in reads and c.callee != g.qn:
                    reads[g.qn] = (c, [g.name] + reads[c.callee][1])
                    grew = True
                    break
    for name in DIRECT + list(DELEGATING) + ['commands', 'fill_widths_and_offsets']:
        f = db.fn('gdstk::RobustPath::' + name)
        uses = [m for m in f.walk() if m.k == 'MemberExpr' and m.n == 'trafo' and m.rec == 'gdstk::RobustPath']
        builders = {'gdstk::RobustPath::' + b for b in DIRECT + list(DELEGATING) + ['commands', 'fill_widths_and_offsets']}
        via = next((c for c in f.calls() if c.callee in reads and c.callee not in builders), None)
        if not uses and via is not None:
            ctx.violation('R-EFFECT', 'RobustPath::%s/no-trafo' % name, via.loc(), 'a builder reads `trafo` through %s: a value in the transformed frame flows into a stored section / end_point, so after any transform of the path new sections no longer join the old ones' % ' -> '.join(reads[via.callee][1]))
            n += 1
            continue
        n += 1
        ctx.check(not uses, 'R-EFFECT', 'RobustPath::%s/no-trafo' % name, uses[0].loc() if uses else f.loc(), 'the builder does not read the path transform (sections and end_point stay in the untransformed frame)',
                  'a builder reads `trafo`: a value in the transformed frame flows into a stored section / end_point, so after any transform of the path new sections no longer join the old ones')
    ctx.require('R-EFFECT builders', n, 14)


def _family_hook(n):
    if n.k == 'CXXMemberCallExpr' and n.callee:
        m = re.match(r'^gdstk::RobustPath::(spine|center|left|right)_(position|gradient)$', n.callee)
        if m:
            a = n.args
            return '%s(%s, %s)' % (m.group(2).upper(), a[0].text(_family_hook.ren, _family_hook), a[-1].text(_family_hook.ren, _family_hook))
    if n.k == 'StringLiteral':
        return '"S"'
    return None


def canon_family(fn):
    ren = clone.Renamer(fn, params_by_name=True)
    _family_hook.ren = ren
    return clone.canon(fn.body, fn, subst=[(r'gdstk::', ''), (r'<[A-Za-z]+:(?!:)[^>]*>', '')], ren=ren, hook=_family_hook)


def check_clones(ctx, db):
    for suffix, label in (('_points', 'samplers'), ('_intersection', 'intersections')):
        mem = []
        for side in ('spine', 'center', 'left', 'right'):
            f = db.fn('gdstk::RobustPath::%s%s' % (side, suffix))
            ctx.touch(f)
            mem.append(('RobustPath::%s%s' % (side, suffix), f.loc(), canon_family(f)))
        clone.check_family(ctx, 'R-CLONE', 'RobustPath ' + label, mem, 4)
        # each member evaluates ITS OWN side's position/gradient only
        for side in ('spine', 'center', 'left', 'right'):
            f = db.fn('gdstk::RobustPath::%s%s' % (side, suffix))
            cs = {c.callee.split('::')[-1] for c in f.walk() if c.k == 'CXXMemberCallExpr' and re.search(r'_(position|gradient)$', c.callee or '')}
            want = {side + '_position'} | ({side + '_gradient'} if suffix == '_intersection' else set())
            ctx.check(cs == want, 'R-CLONE', 'RobustPath::%s%s/own-side' % (side, suffix), f.loc(), 'evaluates only %s' % sorted(want), 'evaluates %s, expected %s' % (sorted(cs), sorted(want)))
    # sampler end clamp: `if (u + du > u1) du = u1 - u` dominates the evaluation of `next` (last vertex is the section end)
    for side in ('spine', 'center', 'left', 'right'):
        f = db.fn('gdstk::RobustPath::%s_points' % side)
        # by structure, not spelling: an `if ((u + du) > u1) du = u1 - u;` (either operand order, either comparison direction) whose
        # position precedes the first evaluation of the side's position at `u + du`
        u1p = next((p_ for p_ in f.params if p_['n'] == 'u1'), None)
        ok = False
        why = 'no clamp of the step to the section end found before the next vertex is evaluated'
        evals = [c for c in f.walk() if c.k == 'CXXMemberCallExpr' and (c.callee or '').endswith('%s_position' % side)]
        for i_ in f.walk():
            if i_.k != 'IfStmt' or u1p is None:
                continue
            c_ = _strip_casts(i_.child('cond'))
            if c_ is None or c_.k != 'BinaryOperator' or c_.op not in ('<', '>', '<=', '>='):
                continue
            big, small = (c_.child('lhs'), c_.child('rhs')) if c_.op in ('>', '>=') else (c_.child('rhs'), c_.child('lhs'))
            big, small = _strip_casts(big), _strip_casts(small)
            if not (small.k == 'DeclRefExpr' and small.dk == 'param' and small.d == u1p['d'] and big.k == 'BinaryOperator' and big.op == '+'):
                continue
            a_, b_ = _strip_casts(big.child('lhs')), _strip_casts(big.child('rhs'))
            if a_.k != 'DeclRefExpr' or b_.k != 'DeclRefExpr':
                continue
            for x in i_.child('then').walk():
                if is_assign(x) and x.op == '=':
                    l_ = _strip_casts(x.child('lhs'))
                    r_ = _strip_casts(x.child('rhs'))
                    if l_.k == 'DeclRefExpr' and l_.d in (a_.d, b_.d) and r_.k == 'BinaryOperator' and r_.op == '-' and _strip_casts(r_.child('lhs')).k == 'DeclRefExpr' and _strip_casts(r_.child('lhs')).d == u1p['d'] \
                            and _strip_casts(r_.child('rhs')).k == 'DeclRefExpr' and _strip_casts(r_.child('rhs')).d == (b_.d if l_.d == a_.d else a_.d):
                        step_d, pos_d = l_.d, (b_.d if l_.d == a_.d else a_.d)
                        # the evaluation of `next`: a position call at (pos + step) after the clamp, and none at (pos + step) before it in the same loop body
                        def at_sum(call):
                            return any(y.k == 'BinaryOperator' and y.op == '+' and {getattr(_strip_casts(y.child('lhs')), 'd', None), getattr(_strip_casts(y.child('rhs')), 'd', None)} == {step_d, pos_d}
                                       and _strip_casts(y.child('lhs')).k == 'DeclRefExpr' and _strip_casts(y.child('rhs')).k == 'DeclRefExpr' for a in call.args for y in [_strip_casts(a)])
                        L_ = next((a for a in i_.ancestors() if a.k in ('ForStmt', 'WhileStmt', 'DoStmt')), None)
                        nexts = [c for c in evals if at_sum(c) and L_ is not None and any(a is L_ for a in c.ancestors())]
                        if nexts and all(c.pos > i_.pos for c in nexts):
                            ok = True
                        else:
                            why = 'the vertex at u + du is evaluated before the step is clamped to the section end'
        ctx.check(ok, 'R-SHAPE', 'RobustPath::%s_points/end-clamp' % side, f.loc(), 'the step is clamped to the section end before the next vertex is evaluated (the last vertex is the end point)', why)
        # refinement: the step is halved while the estimated error exceeds the squared tolerance, and the error is estimated at the
        # midpoint and at one third of the step
        halves = [x for x in f.walk() if x.k == 'CompoundAssignOperator' and x.op == '*=' and _strip_casts(x.child('rhs')).fv == 0.5]
        thirds = [c for c in evals if any(y.k == 'BinaryOperator' and y.op == '/' and _strip_casts(y.child('rhs')).cv == 3 for a in c.args for y in a.walk())]
        tests = [x for x in f.walk() if x.k == 'BinaryOperator' and x.op in ('<', '>', '<=', '>=') and 'tolerance_sq' in norm(x.text()) and 'err' in norm(x.text())]
        # ... and it is re-estimated at both points after every halving (inside the loop that halves)
        def inner_loop(n_):
            return next((a for a in n_.ancestors() if a.k in ('ForStmt', 'WhileStmt', 'DoStmt')), None)
        again = bool(halves) and all(any(inner_loop(c) is inner_loop(h) or any(a is inner_loop(h) for a in c.ancestors()) for c in thirds) for h in halves)
        ctx.check(bool(halves) and bool(thirds) and again and len(tests) >= 2, 'R-SHAPE', 'RobustPath::%s_points/refinement' % side, f.loc(), 'the step is halved under an error test against the squared tolerance; the error is taken at the midpoint and at one third of the step',
                  'halvings %d, third-point evaluations %d, tolerance tests %d' % (len(halves), len(thirds), len(tests)))
    mem = []
    for q in ('position', 'gradient', 'width', 'offset'):
        f = db.fn('gdstk::RobustPath::' + q)
        ctx.touch(f)
        pro = [s for s in f.body.c if s is not None][:4]
        ren = clone.Renamer(f, params_by_name=True)
        mem.append(('RobustPath::' + q, f.loc(), ''.join(clone.canon(s, f, subst=[(r'gdstk::', ''), (r'<[A-Za-z]+:(?!:)[^>]*>', '')], ren=ren) for s in pro)))
    clone.check_family(ctx, 'R-CLONE', 'RobustPath query prologue', mem, 4)
    ref = mem[0][2]
    ok = 'if (($u >= this->subpath_array.count))' in ref and '($u = (double)this->subpath_array.count)' in ref and 'if (($u < 0))' in ref and 'uint64_t v0 = (uint64_t)$u' in ref \
        and 'if ((($from_below && ($u == 0)) && (v0 > 0)))' in ref and 'if ((v0 == this->subpath_array.count))' in ref
    ctx.check(ok, 'R-SHAPE', 'RobustPath query prologue/clamp', db.fn('gdstk::RobustPath::position').loc(), 'u is clamped to [0, count]; the index is stepped back at a joint (from_below) and at the very end')
    # width/offset scale by their own scale factor: value-flow sources of what is stored through the output pointer (sa/deps.py)
    from .. import deps
    for q, sc, arr, other in (('width', 'width_scale', 'width_array', 'offset_scale'), ('offset', 'offset_scale', 'offset_array', 'width_scale')):
        f = db.fn('gdstk::RobustPath::' + q)
        D = deps.Deps(f)
        outp = 'v%d:%s' % (f.params[-1]['d'], f.params[-1]['n'])
        st = []
        for x in f.walk():
            if is_assign(x) and x.op == '=':
                l = _strip_casts(x.child('lhs'))
                ptr = l.child('sub') if (l.k == 'UnaryOperator' and l.op == '*') else (l.child('base') or l.c[0]) if l.k == 'ArraySubscriptExpr' else None
                r = D.root_of_ptr(ptr) if ptr is not None else None
                if r is not None and r[0] == outp:
                    st.append(x)
        if not st:
            raise AnalysisBroken('RobustPath::%s: store through the output pointer not found' % q)
        ok = True
        why = ''
        for x in st:
            src = D.sources(x.child('rhs'))
            arrs = {k_: t for k_, t in src.items() if k_[0].endswith(arr)}
            scs = {k_: t for k_, t in src.items() if k_[0] == 'this->' + sc}
            wrong = [k_ for k_ in src if k_[0] == 'this->' + other or (k_[0].endswith('_array') and not k_[0].endswith(arr))]
            if not arrs or not all('call:interp' in t and 'scale' in t for t in arrs.values()) or not scs or not all(t == frozenset({'scale'}) for t in scs.values()) or wrong:
                ok = False
                why = 'stored value comes from %s' % sorted((k_[0], sorted(t)) for k_, t in src.items())
        ctx.check(ok, 'R-SHAPE', 'RobustPath::%s/scale' % q, f.loc(), '%s queries evaluate %s and scale by %s' % (q, arr, sc), why)
    # left/right positions: centre -/+ half the scaled width along the normal
    for side, sign in (('left', '+'), ('right', '-')):
        f = db.fn('gdstk::RobustPath::%s_position' % side)
        t = norm(clone.canon(f.body, f, ren=clone.Renamer(f, params_by_name=True)))
        ok = re.search(r'\(0\.5 \* v\d+\) \* v\d+', t) is not None and 'this->width_scale' in t and '.ortho()' in t and ((' + ' in t.split('Vec2 v4')[-1]) if side == 'left' else (' - ' in t.split('Vec2 v4')[-1]))
        ctx.check(ok, 'R-UNIT', 'RobustPath::%s_position/half-width' % side, f.loc(), 'the %s edge is the centre displaced by half the scaled width along the spine normal' % side)


def check_units(ctx, db):
    f = db.fn('gdstk::RobustPath::to_oas')
    ctx.touch(f)
    # the value of the field, evaluated (minieval.value_at) for a first width of 1280.5 / 1024 (interp answered by the harness), width_scale 2 and
    # scaling 1024, with and without scale_width - whatever expression spells it
    from .C07 import width_field_values
    got, hw = width_field_values(db, f, {})
    ctx.check(got == {1: 1281, 0: 1281}, 'R-UNIT', 'RobustPath::to_oas/half-width', hw.loc() if hw is not None else f.loc(), 'the OASIS PATH half-width field receives llround(0.5 x width x width_scale x scaling)',
              'for a width of 1280.5 / 1024, width_scale 2 and scaling 1024 the OASIS PATH half-width is %s, expected 1281 (half of the scaled width, rounded)' % [got.get(1), got.get(0)])
    w = next((c for c in f.walk() if c.k == 'CallExpr' and c.callee == 'gdstk::oasis_write_unsigned_integer' and norm(c.args[1].text()) == 'half_width'), None)
    ctx.check(w is not None, 'R-UNIT', 'RobustPath::to_oas/half-width-written', f.loc(), 'that value is what is written after layer and datatype')
    g = db.fn('gdstk::RobustPath::to_gds')
    ctx.touch(g)
    got, wv = width_field_values(db, g, {})
    ctx.check(got == {1: 2561, 0: -2561}, 'R-UNIT', 'RobustPath::to_gds/full-width', wv.loc() if wv is not None else g.loc(), 'the GDSII WIDTH record receives the full width (lround(width x width_scale x scaling)), negative when the width must not scale',
              'for a width of 1280.5 / 1024, width_scale 2 and scaling 1024 the GDSII WIDTH is %s (scale_width true / false), expected [2561, -2561]' % [got.get(1), got.get(0)])
    # both writers take the centre line from element_center
    for fn_ in (f, g):
        ec = [c for c in fn_.walk() if c.k == 'CXXMemberCallExpr' and (c.callee or '').endswith('::element_center')]
        ctx.check(len(ec) == 1, 'R-SHAPE', '%s/centre-line' % fn_.qn.replace('gdstk::', ''), fn_.loc(), 'the PATH centre line comes from element_center')


def check_exhaust(ctx, db):
    n = 0
    for qn, enum, frozen in (('gdstk::SubPath::gradient', 'gdstk::SubPathType', None), ('gdstk::SubPath::eval', 'gdstk::SubPathType', None), ('gdstk::interp', 'gdstk::InterpolationType', None)):
        f = db.fn(qn)
        ctx.touch(f)
        n += tables.check_exhaustive(ctx, db, f, enum, frozen_default={(qn, 0): [c['n'] for c in db.enum(enum)['consts']]})
    f = db.fn('gdstk::RobustPath::to_gds')
    from . import C07
    tb = C07.pathtype_table(db, f)
    ctx.check(tb == C07.PATHTYPE_SPEC, 'R-TABLE', 'EndType->PATHTYPE/RobustPath', f.loc(), 'RobustPath::to_gds writes PATHTYPE %s' % tb, 'RobustPath::to_gds writes PATHTYPE %s; the format (and read_gds) expect %s' % (tb, C07.PATHTYPE_SPEC))
    n += 1
    f = db.fn('gdstk::RobustPath::to_oas')
    n += tables.check_exhaustive(ctx, db, f, 'gdstk::EndType', frozen_default={('gdstk::RobustPath::to_oas', 0): ['Extended', 'HalfWidth']})
    ctx.require('R-EXHAUST switches', n, 5)


def check_gradient(ctx, db):
    """SubPath::gradient is the symbolic derivative of SubPath::eval with respect to u (per section type),
    and both apply the same linear part of the path transform."""
    from .. import symdiff
    ev, gr = db.fn('gdstk::SubPath::eval'), db.fn('gdstk::SubPath::gradient')
    ctx.touch(ev)
    ctx.touch(gr)
    names = {c['v']: c['n'] for c in db.enum('gdstk::SubPathType')['consts']}

    def arms(f):
        sw = next((s_ for s_ in f.walk() if s_.k == 'SwitchStmt' and norm(s_.child('cond').text()).endswith('type')), None)
        if sw is None:
            raise AnalysisBroken('%s: switch over the section type not found' % f.qn)
        out = {}
        for labels, stmts, top in tables.switch_arms(sw):
            for l in labels:
                out[names.get(l, l)] = (stmts, top)
        return out, sw
    ae, swe = arms(ev)
    ag, swg = arms(gr)
    n = 0
    for kind in ('Segment', 'Arc', 'Bezier2', 'Bezier3'):
        A = symdiff.Algebra(db, 'u')
        try:
            p = A.block(ae[kind][0], {}, 'point')
            g = A.block(ag[kind][0], {}, 'grad')
        except (symdiff.Unsupported, KeyError) as e:
            raise AnalysisBroken('SubPath %s arm is outside the algebra: %s' % (kind, e))
        n += 1
        dp = A.d(p)
        ctx.check(p is not None and g is not None and A.equal(dp, g), 'R-DERIV', 'SubPath::gradient/%s' % kind, ag[kind][1].loc(), 'd/du of the %s position is identically the %s gradient (polynomial identity over sin/cos atoms)' % (kind, kind),
                  'the %s gradient is not the derivative of the %s position: d(eval)/du = %s, gradient = %s' % (kind, kind, A.render(dp)[:300], A.render(g)[:300]))
    ctx.require('R-DERIV section kinds', n, 4)
    # Parametric sections without an analytic gradient: a difference quotient (f(b) - f(a)) / d is the slope of the chord only
    # with d = b - a, also where a or b was clamped to the ends of the section
    from .. import linear
    nq = 0
    for x in (y for s_ in ag.get('Parametric', ([], None))[0] for y in s_.walk()):
        if x.k not in ('CXXOperatorCallExpr', 'BinaryOperator') or x.op != '/':
            continue
        ops_ = x.args if x.k == 'CXXOperatorCallExpr' else [x.child('lhs'), x.child('rhs')]
        if len(ops_) != 2:
            continue

        def peel(e):
            e = _strip_casts(e)
            while e is not None and e.k in ('ParenExpr', 'CXXConstructExpr', 'MaterializeTemporaryExpr', 'CXXBindTemporaryExpr', 'ExprWithCleanups') and len([c for c in e.c if c is not None]) == 1:
                e = _strip_casts([c for c in e.c if c is not None][0])
            if e is not None and e.k == 'DeclRefExpr' and e.dk == 'local':
                rd = linear.reaching_def(gr, lvalue_key(e), x)
                if rd is not None and rd[1] is not None:
                    return peel(rd[1])
            return e
        num = peel(ops_[0])
        if num is None or num.k not in ('CXXOperatorCallExpr', 'BinaryOperator') or num.op != '-':
            continue
        terms = [peel(t) for t in (num.args if num.k == 'CXXOperatorCallExpr' else [num.child('lhs'), num.child('rhs')])]
        if len(terms) != 2 or any(t is None or t.k != 'CallExpr' or 'path_function' not in t.text() or not t.args for t in terms):
            continue
        nq += 1
        want = linear.lin_sub(linear.lin_of(gr, terms[0].args[0], x), linear.lin_of(gr, terms[1].args[0], x))
        got = linear.lin_of(gr, ops_[1], x)
        clean = lambda d_: {k_: v_ for k_, v_ in (d_ or {}).items() if v_ != 0}
        ctx.check(got is not None and clean(got) == clean(want), 'R-DERIV', 'SubPath::gradient/Parametric-difference-quotient', x.loc(),
                  'the numerical gradient divides f(b) - f(a) by b - a (the evaluation points themselves, also when clamped to the section)',
                  'the numerical gradient divides f(%s) - f(%s) by `%s`, which is not their distance: where an evaluation point is clamped to the end of the section the quotient is not the slope of the chord'
                  % (norm(terms[0].args[0].text()), norm(terms[1].args[0].text()), norm(ops_[1].text())[:60]))
    ctx.require('R-DERIV difference quotients', nq, 1)
    # transform: eval applies the affine map, gradient its linear part
    def tail(f, sw, var):
        body = [s_ for s_ in f.body.c if s_ is not None]
        A = symdiff.Algebra(db, 'u')
        env = {var: A.vec(symdiff.atom('X'), symdiff.atom('Y'))}
        return A, A.block(body[body.index(sw) + 1:], env, 'return')
    try:
        A1, r1 = tail(ev, swe, 'point')
        A2, r2 = tail(gr, swg, 'grad')
        lin = A1.vadd(r1, A1.vec(symdiff.atom('trafo[2]'), symdiff.atom('trafo[5]')), -1)
        ok = A1.equal(lin, r2)
    except symdiff.Unsupported as e:
        raise AnalysisBroken('SubPath transform tail is outside the algebra: %s' % e)
    ctx.check(ok, 'R-DERIV', 'SubPath::gradient/transform-linear-part', gr.loc(), 'the gradient is mapped by the linear part of the transform that eval applies (trafo[0,1,3,4]; no translation)')
    # extrapolation outside [0, 1] is linear along the end gradients
    pre = [i for i in ev.body.c if i is not None and i.k == 'IfStmt']
    t = [norm(clone.canon(i, ev)) for i in pre[:2]]
    ok = len(t) == 2 and 'this->eval(0, p1)' in t[0] and 'this->gradient(0, p1)' in t[0] and '(v0 + (v1 * p0))' in t[0] and 'this->eval(1, p1)' in t[1] and '(v0 + (v1 * (p0 - 1)))' in t[1] and 'this->gradient(1, p1)' in t[1]
    ctx.check(ok, 'R-SHAPE', 'SubPath::eval/linear-extrapolation', ev.loc(), 'below 0 and above 1 the position continues along the end gradient', 'extrapolation blocks: %s' % t)


def check_trafo_algebra(ctx, db):
    """The 2x3 path transform (trafo) methods as polynomial identities: after each method the stored matrix maps a
    generic section point q to Op(old matrix applied to q), where Op is the documented map of the method; and
    RobustPath::transform composes to  origin + R(rotation) diag(1, +-1) (magnification x)."""
    from .. import symdiff as S

    class TA(S.Algebra):
        pass

    def run_method(alg, qn, env, args, depth=0):
        f = db.fn(qn)
        if depth > 4:
            raise S.Unsupported('call depth')
        loc = dict(env_shared=env)
        local = {}
        for p_, a in zip(f.params, args):
            local[p_['n']] = a

        def lookup(e):
            merged = dict(env)
            merged.update(local)
            return alg.value(e, merged)

        def do(stmts):
            for s_ in stmts:
                if s_ is None:
                    continue
                if s_.k == 'CompoundStmt':
                    do(s_.c)
                elif s_.k == 'DeclStmt':
                    for v in s_.c:
                        if v is not None and v.k == 'VarDecl' and v.child('init') is not None:
                            local[v.n] = lookup(v.child('init'))
                elif s_.k == 'IfStmt':
                    touches = any((x.k == 'ArraySubscriptExpr' and 'trafo' in x.text()) or x.k == 'CXXMemberCallExpr' for b_ in (s_.child('then'), s_.child('else')) if b_ is not None for x in b_.walk())
                    if not touches:
                        continue   # width/offset bookkeeping only: not part of the matrix
                    c = lookup(s_.child('cond'))
                    if alg.isvec(c) or not S.is_const(c):
                        raise S.Unsupported('symbolic branch in %s' % qn)
                    br = s_.child('then') if c else s_.child('else')
                    if br is not None:
                        do([br])
                elif s_.k == 'CXXMemberCallExpr':
                    ob = _strip_casts(s_.child('obj')) if s_.child('obj') is not None else None
                    if ob is not None and ob.k != 'CXXThisExpr':
                        raise S.Unsupported('call on another object in %s' % qn)
                    run_method(alg, s_.callee, env, [lookup(a) for a in s_.args], depth + 1)
                elif s_.k == 'ForStmt':
                    continue   # per-element loops (end extensions): not part of the matrix
                elif (is_assign(s_) or s_.k == 'CompoundAssignOperator'):
                    l = _strip_casts(s_.child('lhs'))
                    if l.k == 'ArraySubscriptExpr':
                        base = _strip_casts(l.child('base') or l.c[0])
                        idx = _strip_casts(l.child('idx') or l.c[1])
                        key = '%s[%d]' % (base.n, idx.cv)
                    elif l.k == 'MemberExpr' and l.n in ('offset_scale', 'width_scale'):
                        continue
                    else:
                        raise S.Unsupported('store to %s in %s' % (l.text()[:30], qn))
                    val = lookup(s_.child('rhs'))
                    cur = env[key]
                    if s_.op == '=':
                        env[key] = val
                    elif s_.op == '*=':
                        env[key] = S.mul(cur, val)
                    elif s_.op == '+=':
                        env[key] = S.add(cur, val)
                    elif s_.op == '-=':
                        env[key] = S.add(cur, val, -1)
                    else:
                        raise S.Unsupported('operator %s' % s_.op)
                else:
                    raise S.Unsupported('statement %s in %s' % (s_.k, qn))
        do(f.body.c)

    def apply(alg, env, q):
        x = S.add(S.add(S.mul(env['trafo[0]'], q[1]), S.mul(env['trafo[1]'], q[2])), env['trafo[2]'])
        y = S.add(S.add(S.mul(env['trafo[3]'], q[1]), S.mul(env['trafo[4]'], q[2])), env['trafo[5]'])
        return alg.vec(x, y)

    def fresh(alg):
        return {'trafo[%d]' % i: S.atom('t%d' % i) for i in range(6)}
    q = None
    cases = []
    # (method, argument values builder, expected map on a point r = old(q))
    def rot(alg, r, ang):
        C_, Sn = alg.fatom('cos', ang), alg.fatom('sin', ang)
        return alg.vec(S.add(S.mul(C_, r[1]), S.mul(Sn, r[2]), -1), S.add(S.mul(Sn, r[1]), S.mul(C_, r[2])))
    n = 0
    specs = [
        ('gdstk::RobustPath::translate', lambda alg: [alg.vec(S.atom('vx'), S.atom('vy'))], lambda alg, r: alg.vadd(r, alg.vec(S.atom('vx'), S.atom('vy'))), 'r + v', {}),
        ('gdstk::RobustPath::simple_scale', lambda alg: [S.atom('k')], lambda alg, r: alg.vmul(r, S.atom('k')), 'k r', {}),
        ('gdstk::RobustPath::scale', lambda alg: [S.atom('k'), alg.vec(S.atom('cx'), S.atom('cy'))], lambda alg, r: alg.vadd(alg.vmul(alg.vadd(r, alg.vec(S.atom('cx'), S.atom('cy')), -1), S.atom('k')), alg.vec(S.atom('cx'), S.atom('cy'))), 'c + k (r - c)', {}),
        ('gdstk::RobustPath::simple_rotate', lambda alg: [S.atom('angle')], lambda alg, r: rot(alg, r, S.atom('angle')), 'R(angle) r', {}),
        ('gdstk::RobustPath::rotate', lambda alg: [S.atom('angle'), alg.vec(S.atom('cx'), S.atom('cy'))], lambda alg, r: alg.vadd(rot(alg, alg.vadd(r, alg.vec(S.atom('cx'), S.atom('cy')), -1), S.atom('angle')), alg.vec(S.atom('cx'), S.atom('cy'))), 'c + R(angle) (r - c)', {}),
        ('gdstk::RobustPath::x_reflection', lambda alg: [], lambda alg, r: alg.vec(r[1], S.mul(r[2], S.P(-1))), '(x, -y)', {}),
    ]
    for g in (0, 1):
        specs.append(('gdstk::RobustPath::transform', (lambda g_: lambda alg: [S.atom('M'), S.P(g_), S.atom('b'), alg.vec(S.atom('ox'), S.atom('oy'))])(g),
                      (lambda g_: lambda alg, r: alg.vadd(rot(alg, alg.vec(S.mul(S.atom('M'), r[1]), S.mul(S.mul(S.atom('M'), r[2]), S.P(-1 if g_ else 1))), S.atom('b')), alg.vec(S.atom('ox'), S.atom('oy'))))(g),
                      'origin + R(rotation) diag(1, %s1) magnification r' % ('-' if g else '+'), {'g': g}))
    for qn, mkargs, expect, what, tag in specs:
        f = db.fn(qn)
        ctx.touch(f)
        alg = TA(db, None)
        env = fresh(alg)
        qv = alg.vec(S.atom('qx'), S.atom('qy'))
        old = apply(alg, env, qv)
        try:
            run_method(alg, qn, env, mkargs(alg))
        except S.Unsupported as e:
            raise AnalysisBroken('%s is outside the algebra: %s' % (qn, e))
        got = apply(alg, env, qv)
        want = expect(alg, old)
        n += 1
        ctx.check(alg.equal(got, want), 'R-ALGEBRA', '%s/matrix%s' % (qn.replace('gdstk::', ''), ('|x_refl=%d' % tag['g']) if tag else ''), f.loc(), 'the updated matrix maps every section point to %s of its previous image (r)' % what,
                  'after %s the matrix maps q to %s, the documented map gives %s' % (qn.replace('gdstk::', ''), alg.render(got)[:260], alg.render(want)[:260]))
    ctx.require('R-ALGEBRA trafo methods', n, 8)


def check_builders_algebra(ctx, db):
    """The polynomial section builders store exactly the documented control points (relative operands are offsets from
    the current end point), move the end point to the section's last point, and the smooth variants are C1: the
    gradient of the new section at u = 0 (taken from SubPath::gradient's own arm) is identically the gradient of the
    previous section at u = 1."""
    from .. import symdiff as S
    names = {c['v']: c['n'] for c in db.enum('gdstk::SubPathType')['consts']}
    gr = db.fn('gdstk::SubPath::gradient')
    gsw = next(s_ for s_ in gr.walk() if s_.k == 'SwitchStmt' and norm(s_.child('cond').text()).endswith('type'))
    garms = {}
    for labels, stmts, top in tables.switch_arms(gsw):
        for l in labels:
            garms[names.get(l, l)] = stmts
    ev = db.fn('gdstk::SubPath::eval')
    esw = next(s_ for s_ in ev.walk() if s_.k == 'SwitchStmt' and norm(s_.child('cond').text()).endswith('type'))
    earms = {}
    for labels, stmts, top in tables.switch_arms(esw):
        for l in labels:
            earms[names.get(l, l)] = stmts
    spec = {
        'segment': ('Segment', ['begin', 'end'], lambda E, b, P, G: {'begin': E, 'end': b(P['end_pt'])}, 'end', None),
        'cubic': ('Bezier3', ['p0', 'p1', 'p2', 'p3'], lambda E, b, P, G: {'p0': E, 'p1': b(P['point1']), 'p2': b(P['point2']), 'p3': b(P['point3'])}, 'p3', None),
        'cubic_smooth': ('Bezier3', ['p0', 'p1', 'p2', 'p3'], lambda E, b, P, G: {'p0': E, 'p1': None, 'p2': b(P['point2']), 'p3': b(P['point3'])}, 'p3', 3),
        'quadratic': ('Bezier2', ['p0', 'p1', 'p2'], lambda E, b, P, G: {'p0': E, 'p1': b(P['point1']), 'p2': b(P['point2'])}, 'p2', None),
        'quadratic_smooth': ('Bezier2', ['p0', 'p1', 'p2'], lambda E, b, P, G: {'p0': E, 'p1': None, 'p2': b(P['point2'])}, 'p2', 2),
        'arc': ('Arc', ['radius_x', 'radius_y', 'angle_i', 'angle_f', 'cos_rot', 'sin_rot', 'center'], lambda E, b, P, G: {}, None, None),
    }
    n = 0
    for name, (kind, fields, expect, last, smooth) in spec.items():
        f = db.fn('gdstk::RobustPath::' + name)
        ctx.touch(f)
        has_rel = any(p_['n'] == 'relative' for p_ in f.params)
        for relative in ((True, False) if has_rel else (False,)):
            class BA(S.Algebra):
                def value(self, e, env):
                    e0 = _strip_casts(e)
                    if e0 is not None and e0.k == 'CXXMemberCallExpr' and (e0.callee or '').endswith('SubPath::gradient'):
                        return self.vec(S.atom('G.x'), S.atom('G.y'))
                    if e0 is not None and e0.k == 'MemberExpr' and e0.n in fields:
                        b_ = _strip_casts(e0.child('base')) if e0.child('base') is not None else None
                        while b_ is not None and b_.k == 'MemberExpr' and not b_.n:
                            b_ = _strip_casts(b_.child('base')) if b_.child('base') is not None else None
                        if b_ is not None and b_.k == 'DeclRefExpr' and b_.n == 'sub':
                            return env['sub.' + e0.n]
                    return S.Algebra.value(self, e, env)
            alg = BA(db, None)
            E = alg.vec(S.atom('E.x'), S.atom('E.y'))
            env = {'end_point': E, 'relative': S.P(1 if relative else 0)}
            P = {}
            for p_ in f.params:
                if 'Vec2' in (p_.get('t') or ''):
                    P[p_['n']] = alg.vec(S.atom(p_['n'] + '.x'), S.atom(p_['n'] + '.y'))
                    env[p_['n']] = P[p_['n']]

            def do(stmts):
                for s_ in stmts:
                    if s_ is None:
                        continue
                    if s_.k == 'DeclStmt':
                        for v in s_.c:
                            if v is not None and v.k == 'VarDecl' and v.child('init') is not None and re.fullmatch(r'(const )?double', v.t or ''):
                                env[v.n] = alg.value(v.child('init'), env)
                        continue
                    if s_.k == 'CompoundStmt':
                        do(s_.c)
                    elif s_.k == 'IfStmt':
                        ct = norm(s_.child('cond').text())
                        if ct == 'relative':
                            take = relative
                        elif ct == '(this->subpath_array.count > 0)':
                            take = True      # a previous section exists (otherwise there is nothing to be smooth with)
                        else:
                            raise S.Unsupported('condition %s' % ct)
                        br = s_.child('then') if take else s_.child('else')
                        if br is not None:
                            do([br])
                    elif s_.k in ('CXXOperatorCallExpr', 'BinaryOperator', 'CompoundAssignOperator') and getattr(s_, 'op', None) in ('=', '+='):
                        lhs = s_.args[0] if s_.k == 'CXXOperatorCallExpr' else s_.child('lhs')
                        rhs = s_.args[1] if s_.k == 'CXXOperatorCallExpr' else s_.child('rhs')
                        l = _strip_casts(lhs)
                        if l.k == 'MemberExpr' and l.n in fields:
                            key = 'sub.' + l.n
                        elif l.k == 'MemberExpr' and l.n == 'end_point':
                            key = 'end_point'
                        elif l.k == 'DeclRefExpr' and l.dk == 'local' and l.n in env:
                            key = l.n
                        else:
                            raise S.Unsupported('store to %s' % lhs.text()[:30])
                        v = alg.value(rhs, env)
                        env[key] = alg.vadd(env[key], v) if s_.op == '+=' else v
                    elif s_.k in ('CXXMemberCallExpr', 'CallExpr'):
                        continue
                    else:
                        raise S.Unsupported('statement %s' % s_.k)
            try:
                do(f.body.c)
            except (S.Unsupported, KeyError) as e:
                raise AnalysisBroken('RobustPath::%s is outside the algebra: %s' % (name, e))
            base = (lambda v: alg.vadd(v, E)) if relative else (lambda v: v)
            want = expect(E, base, P, None)
            bad = [k for k, v in want.items() if v is not None and not alg.equal(env.get('sub.' + k, alg.vec(S.P(0), S.P(0))), v)]
            okend = last is None or alg.equal(env['end_point'], env['sub.' + last])
            n += 1
            ctx.check(not bad and okend, 'R-ALGEBRA', 'RobustPath::%s/%s' % (name, 'relative' if relative else 'absolute'), f.loc(), 'stores %s with %s and moves the end point to the last of them' % (', '.join(fields), 'operands offset by the current end point' if relative else 'the operands as given'),
                      'fields %s differ from the documented control points (%s); end point %s' % (bad, {k: alg.render(env.get('sub.' + k)) for k in bad}, alg.render(env['end_point'])))
            # the stored section starts where the path ended and the new end point is where the section ends (SubPath::eval's own arm)
            try:
                pts = []
                for uval in (0, 1):
                    eenv = {k: env['sub.' + k] for k in fields if ('sub.' + k) in env}
                    eenv['u'] = S.P(uval)
                    ea = S.Algebra(db, None)
                    ea.funcs, ea.canon = alg.funcs, alg.canon
                    pts.append(ea.block(earms[kind], eenv, 'point'))
            except (S.Unsupported, KeyError) as e:
                raise AnalysisBroken('SubPath::eval %s arm is outside the algebra for the fields stored by %s: %s' % (kind, name, e))
            n += 1
            ok0 = pts[0] is not None and alg.equal(alg.expand(pts[0]), alg.expand(E))
            ok1 = pts[1] is not None and alg.equal(alg.expand(pts[1]), alg.expand(env['end_point']))
            ctx.check(ok0 and ok1, 'R-ALGEBRA', 'RobustPath::%s/%s/joins' % (name, 'relative' if relative else 'absolute'), f.loc(), 'the section evaluates to the previous end point at u = 0 and to the new end point at u = 1 (adjacent sections meet)',
                      'section start %s vs previous end point (E.x, E.y); section end %s vs stored end point %s' % (alg.render(pts[0])[:160] if pts[0] is not None else 'unset', alg.render(pts[1])[:160] if pts[1] is not None else 'unset', alg.render(env['end_point'])[:160]))
            if smooth:
                genv = {k: env['sub.' + k] for k in fields}
                genv['u'] = S.P(0)
                ga = S.Algebra(db, None)
                ga.funcs, ga.canon = alg.funcs, alg.canon
                g0 = ga.block(garms[kind], genv, 'grad')
                n += 1
                ctx.check(g0 is not None and alg.equal(g0, alg.vec(S.atom('G.x'), S.atom('G.y'))), 'R-ALGEBRA', 'RobustPath::%s/%s/C1' % (name, 'relative' if relative else 'absolute'), f.loc(),
                          'the gradient of the new section at u = 0 (SubPath::gradient, %s arm) equals the previous section\'s end gradient: first control point = end point + gradient / %d' % (kind, smooth),
                          'the smooth section starts with gradient %s instead of the previous end gradient (G.x, G.y)' % (alg.render(g0) if g0 is not None else 'unset'))
    ctx.require('R-ALGEBRA builder identities', n, 24)


def check_dimensions(ctx, db):
    """R-DIM: additions, subtractions and comparisons in the outline code combine equal powers of length"""
    from .. import dims
    seeds = {'tolerance': 1, 'tolerance_sq': 2, 'tol_sq': 2, 'spine_points': 1, 'half_widths': 1, 'offsets': 1, 'path_offsets': 1, 'path_half_widths': 1, 'bend_radius': 1, 'radius': 1, 'center_radius': 1, 'half_width_and_offset': 1, 'point_array': 1, 'end_extensions': 1, 'width': 1, 'offset': 1, 'half_width': 1, 'p': 1, 'p0': 1, 'p1': 1, 'p2': 1, 'p3': 1, 'p_next': 1, 'center': 1, 'cap_l': 1, 'cap_r': 1}
    n = 0
    for qn, mins in (('gdstk::RobustPath::to_polygons', 20), ('gdstk::RobustPath::left_intersection', 4), ('gdstk::RobustPath::right_intersection', 4)):
        f = db.fn(qn)
        ctx.touch(f)
        n += dims.check(ctx, f, seeds, min_sites=mins)
    ctx.require('R-DIM resolved sites', n, 28)


def check_unscaled_bookkeeping(ctx, db):
    """R-EFFECT (who may read): `end_width` / `end_offset` of an element are the builders' memory of the last *unscaled* width and
    offset (the start value of the next interpolation). Geometry, queries and file records take widths and offsets from the
    interpolation arrays times width_scale / offset_scale. So these two fields are read only (a) by fill_widths_and_offsets and its
    file-local helpers and (b) to copy them into the same field of another element."""
    allowed = {g.key for g, _ in db.with_helpers([db.fn('gdstk::RobustPath::fill_widths_and_offsets')])}
    n = 0
    for f in db.functions:
        if f.body is None or not f.relfile().startswith(('src/', 'include/gdstk/')):
            continue
        for x in f.walk():
            if x.k != 'MemberExpr' or x.n not in ('end_width', 'end_offset') or 'RobustPathElement' not in ((x.child('base').t or '') + (x.child('base').ct or '') if x.child('base') is not None else ''):
                continue
            p_ = x.parent
            while p_ is not None and p_.k in ('ImplicitCastExpr', 'ParenExpr'):
                p_ = p_.parent
            if p_ is not None and is_assign(p_) and _strip_casts(p_.child('lhs')) is x:
                continue            # a write
            n += 1
            copy = p_ is not None and is_assign(p_) and _strip_casts(p_.child('lhs')).k == 'MemberExpr' and _strip_casts(p_.child('lhs')).n == x.n
            ok = copy or f.key in allowed or f.name == 'print'
            ctx.check(ok, 'R-EFFECT', 'RobustPathElement::%s/read@%s' % (x.n, x.loc()), x.loc(), '%s is read by the builder bookkeeping / copied field to field' % x.n,
                      '%s reads %s, the unscaled value remembered for the next builder call: it ignores %s accumulated by scale()/transform(), so the result differs once the path was scaled' % (f.qn.replace('gdstk::', ''), x.n, 'width_scale' if x.n == 'end_width' else 'offset_scale'))
    ctx.require('R-EFFECT end_width/end_offset reads', n, 4)


def run(ctx):
    db = ctx.db
    ctx.attempt(check_unscaled_bookkeeping, ctx, db)
    ctx.attempt(check_bookkeeping, ctx, db)
    ctx.attempt(check_frame, ctx, db)
    ctx.attempt(check_clones, ctx, db)
    np_ = 0
    for name in ('to_polygons', 'element_center', 'spine'):
        f = db.fn('gdstk::RobustPath::' + name)
        ctx.touch(f)
        np_ += parallel.check_function(ctx, f)
    ctx.require('R-PARALLEL look-ahead iterators', np_, 9)
    ns_ = 0
    for name in ('to_polygons', 'element_center', 'spine'):
        ns_ += parallel.check_steps(ctx, db.fn('gdstk::RobustPath::' + name))
    ctx.require('R-PARALLEL joint cursor jumps', ns_, 2)
    ctx.attempt(check_units, ctx, db)
    ctx.attempt(check_exhaust, ctx, db)
    ctx.attempt(check_gradient, ctx, db)
    ctx.attempt(check_trafo_algebra, ctx, db)
    ctx.attempt(check_builders_algebra, ctx, db)
    f = db.fn('gdstk::RobustPath::commands')
    ctx.touch(f)
    n, table = consume.check_commands(ctx, f)
    ctx.require('R-CONSUME arms', n, 10)
    ctx.extra['command_table'] = table
    ctx.attempt(check_dimensions, ctx, db)
    from . import C03   # a simple robust path saved as GDSII PATH records: well-formed records, XY chunks that continue where the previous one ended
    ctx.attempt(C03.check_writers, ctx, db, only={'gdstk::RobustPath::to_gds'})
    from . import C02   # a simple robust path saved as an OASIS PATH: the extension scheme announces exactly the extensions that follow
    ctx.attempt(C02.check_path_extensions, ctx, db)
    from . import C10  # the outline sits on the side offset_scale says: scaling keeps its sign, a reflection flips it, width_scale stays positive
    ctx.attempt(C10.check_signs, ctx, db)


MANIFEST = dict(
    text='(R-DIM) A powers-of-length analysis of to_polygons and the intersection searches finds every addition and comparison dimensionally consistent; Decides structural necessary conditions of RobustPath consistency on every path: each section append is followed by exactly one fill_widths_and_offsets, which gives every element one width and one offset entry on all four branch combinations; no builder reads the path transform (frame discipline); the four point samplers, the four intersection searches and the four parameter-query prologues are clone families evaluating only their own side, with the sampler step clamped to the section end; look-ahead iterators advance with their loops in to_polygons/element_center/spine and the trailing cursors of the parallel section/offset/width arrays jump together; the OASIS PATH half-width is half and the GDSII WIDTH the full interpolated width; the unscaled builder memory end_width/end_offset is read only by the builder bookkeeping and field-to-field copies (never by outline, query or writer code); SubPathType/InterpolationType/EndType switches are exhaustive (defaults frozen); RobustPath::commands consumes exactly the operands its guard and advance constants state; SubPath::gradient is, symbolically, the derivative of SubPath::eval for segment, arc, quadratic and cubic sections, under the same linear transform; the builders segment/cubic/cubic_smooth/quadratic/quadratic_smooth store exactly the documented control points in relative and absolute mode, every builder including arc produces a section that evaluates (through SubPath::eval) to the previous end point at u = 0 and to the stored new end point at u = 1, and the smooth variants are C1 (the gradient of the new section at 0, taken from the matching arm of SubPath::gradient, equals the previous end gradient); the path-matrix methods translate, simple_scale, scale, simple_rotate, rotate, x_reflection and transform (both reflection states) update the 2x3 matrix so that, identically, every section point is mapped to the documented image of its previous image. Sampling accuracy, intersection convergence and cap geometry are not decided.',
    note='Trusted: clang front end, gx, sa rules. The direct-builder set is discovered (methods appending to subpath_array) and compared with the confirmed list, so a new builder is reported until it is paired and listed.',
    technique='post-dominance pairing over the CFG + who-may-read effect rule + clone families with callee abstraction + look-ahead iterator rule + operand-consumption tables',
    design='§4 C08')
