"""C09 — bounding boxes and convex hulls: aggregate completeness, running-extremum idiom, cache
coherence (valid flags), extrema shortcut never feeds a hull, empty objects. (DESIGN §4 C09)"""
import re
from .. import minmax, clone, tables
from ..facts import AnalysisBroken
from ..flow import lvalue_key, is_assign, _strip_casts, pretty_key

EXPLANATION = ('R-AGG: Cell::bounding_box(cache) and Cell::convex_hull(cache) visit all five element arrays; the hull uses every '
               'repetition offset (get_offsets) of polygons, labels and path polygons. R-MINMAX: every running-extremum update in '
               'the box routines compares and assigns the same component, each accumulator keeps one role, each loop updates all '
               'four of min.x/min.y/max.x/max.y, min accumulators are fed from the callee\'s first (min) out-parameter and max '
               'from the second. R-FLAG: every read of GeometryInfo::{convex_hull, bounding_box_min/max} is guarded by the '
               'matching *_valid flag of that same object or follows its recomputation by the matching function; each cache.set '
               'stores under the cell\'s own name after setting exactly the flag of what was computed. R-EFFECT: offsets obtained '
               'from Repetition::get_extrema never feed gdstk::convex_hull for the Explicit kind (per-axis extremes span the box, '
               'not the hull). R-INIT: every box routine initialises the inverted box before any return. Hull correctness '
               '(qhull) and numeric extremes are not decided.')
ASSUMPTIONS = ['Repetition::get_extrema returns lattice corners / axis extremes (C11)']
XREF_FILES = ['src/cell.cpp', 'src/reference.cpp', 'src/polygon.cpp', 'src/label.cpp']
ARRAYS = ['polygon_array', 'label_array', 'reference_array', 'flexpath_array', 'robustpath_array']


def norm(t):
    return re.sub(r'<[A-Za-z]+:(?!:)[^>]*>', '', t).replace('gdstk::', '')


def cached_fn(db, qn, ret_geometry):
    for f in db.fn(qn, all=True):
        if ret_geometry and f.ret.endswith('GeometryInfo'):
            return f
        if not ret_geometry and not f.ret.endswith('GeometryInfo') and any('Map<' in p['t'] for p in f.params):
            return f
    raise AnalysisBroken('cached overload of %s not found' % qn)


def check_aggregates(ctx, db):
    bb = cached_fn(db, 'gdstk::Cell::bounding_box', True)
    ch = cached_fn(db, 'gdstk::Cell::convex_hull', True)
    for f, label in ((bb, 'Cell::bounding_box'), (ch, 'Cell::convex_hull')):
        ctx.touch(f)
        loops = [l for l in f.walk() if l.k == 'ForStmt']
        seen = set()
        for l in loops:
            m = re.search(r'this->(\w+_array)\.count', norm(l.child('cond').text()))
            if m:
                seen.add(m.group(1))
        ctx.check(seen == set(ARRAYS), 'R-AGG', label + '/five-arrays', f.loc(), 'all five element arrays are aggregated', 'aggregates only %s of %s' % (sorted(seen), ARRAYS))
    # hull: repetitions through get_offsets, never get_extrema
    ge = [c for c in ch.walk() if c.k == 'CXXMemberCallExpr' and (c.callee or '').endswith('Repetition::get_extrema')]
    go = [c for c in ch.walk() if c.k == 'CXXMemberCallExpr' and (c.callee or '').endswith('Repetition::get_offsets')]
    ctx.check(not ge and len(go) == 4, 'R-EFFECT', 'Cell::convex_hull/all-offsets', ch.loc(), 'polygons, labels and both kinds of path polygons contribute every repetition offset (4 get_offsets sites, no get_extrema)',
              'hull uses %d get_offsets and %d get_extrema sites (expected 4 and 0)' % (len(go), len(ge)))
    # each get_offsets site adds count*offsets points: nested loops over offsets.count and point count
    for c in go:
        blk = c.parent
        txt = norm(clone.canon(blk, ch))
        ok = re.search(r'for \(uint64_t v\d+ = 0; \(v\d+ < v\d+\.count\); \(v\d+\+\+\)\)', txt) is not None
        ctx.check(ok, 'R-AGG', 'Cell::convex_hull/offset-loop@%d' % c.id, c.loc(), 'every offset of the repetition is visited (0 <= k < offsets.count)')
    # box: references use the cache-aware overload with the same cache
    rc = [c for c in bb.walk() if c.k == 'CXXMemberCallExpr' and (c.callee or '') == 'gdstk::Reference::bounding_box']
    ok = len(rc) == 1 and len(rc[0].args) == 3 and norm(rc[0].args[2].text()) == 'cache'
    ctx.check(ok, 'R-SHAPE', 'Cell::bounding_box/shared-cache', bb.loc(), 'references are measured through the same cache')
    rc = [c for c in ch.walk() if c.k == 'CXXMemberCallExpr' and (c.callee or '') == 'gdstk::Reference::convex_hull']
    ok = len(rc) == 1 and len(rc[0].args) == 2 and norm(rc[0].args[1].text()) == 'cache'
    ctx.check(ok, 'R-SHAPE', 'Cell::convex_hull/shared-cache', ch.loc(), 'references contribute their hull through the same cache')


BOX_FUNCS = [('gdstk::Cell::bounding_box', True), ('gdstk::Reference::bounding_box', False), ('gdstk::Polygon::bounding_box', None), ('gdstk::Label::bounding_box', None)]


def check_minmax(ctx, db):
    total = 0
    fns = []
    for qn, _ in BOX_FUNCS:
        fns += db.fn(qn, all=True)
    fns.append(db.fn('gdstk::convex_hull'))
    fns += db.fn('gdstk::bounding_box', required=False, all=True)
    # file-local helpers called from these functions are part of them (an update moved into `expand_box(min, max, ...)`
    # is still an update of the caller's accumulators); counts are weighted by the number of call sites
    for f, weight in db.with_helpers(fns):
        ups = minmax.find_updates(f)
        if not ups:
            continue
        ctx.touch(f)
        label = f.qn.replace('gdstk::', '') + ('#%d' % len(f.params))
        n, roles = minmax.check_minmax(ctx, f, label=label)
        total += n * weight
        # group by enclosing loop: all four accumulators present with the right roles
        groups = {}
        for u in ups:
            loop = next((a for a in u['node'].ancestors() if a.k in ('ForStmt', 'WhileStmt')), None)
            groups.setdefault(loop.id if loop is not None else 0, []).append(u)
        for gid, us in groups.items():
            have = sorted((pretty_key(u['acc']).split('.')[-1].split('->')[-1], u['acc_comp'], u['role']) for u in us)
            names = {(a, c): r for a, c, r in have}
            accs = sorted({a for a, c, r in have})
            if len(us) < 4 or len(accs) != 2:
                continue
            ok = len(have) == 4 and sorted(c for a, c, r in have) == ['x', 'x', 'y', 'y']
            mins = {a for a, c, r in have if r == 'min'}
            maxs = {a for a, c, r in have if r == 'max'}
            ok = ok and len(mins) == 1 and len(maxs) == 1 and mins != maxs
            ctx.check(ok, 'R-MINMAX', '%s/group@%d' % (label, gid), us[0]['node'].loc(), 'loop updates min.x, min.y (running minima) and max.x, max.y (running maxima) of one accumulator pair',
                      'running-extremum group is incomplete or mixes roles: %s' % have)
            # sources: min accumulators fed from the first out-argument, max from the second, of the bounding_box call in the loop
            loop = next((a for a in us[0]['node'].ancestors() if a.k in ('ForStmt', 'WhileStmt')), None)
            call = next((c for c in (loop.walk() if loop is not None else []) if c.k == 'CXXMemberCallExpr' and (c.callee or '').endswith('::bounding_box') and len(c.args) >= 2), None)
            if call is not None:
                a0, a1 = lvalue_key(call.args[0]), lvalue_key(call.args[1])
                ok = all((u['src'] == a0) if u['role'] == 'min' else (u['src'] == a1) for u in us)
                ctx.check(ok, 'R-MINMAX', '%s/sources@%d' % (label, gid), call.loc(), 'minima are fed from the element\'s min out-parameter and maxima from its max out-parameter',
                          'a running minimum is fed from the max corner (or vice versa): %s' % [(u['role'], pretty_key(u['src'])) for u in us])
    ctx.require('R-MINMAX updates', total, 40)


FLAG_OF = {'convex_hull': ('convex_hull_valid', 'convex_hull'), 'bounding_box_min': ('bounding_box_valid', 'bounding_box'), 'bounding_box_max': ('bounding_box_valid', 'bounding_box')}


def check_cache_coherence(ctx, db):
    n = 0
    targets = db.fn('gdstk::Cell::bounding_box', all=True) + db.fn('gdstk::Cell::convex_hull', all=True) + db.fn('gdstk::Reference::bounding_box', all=True) + db.fn('gdstk::Reference::convex_hull', all=True)
    for f in targets:
        ctx.touch(f)
        g = f.cfg
        for m in f.walk():
            if m.k != 'MemberExpr' or m.rec != 'gdstk::GeometryInfo' or m.n not in FLAG_OF:
                continue
            # reads only (skip stores into the field and the hull output argument of gdstk::convex_hull)
            p = m.parent
            if p is not None and is_assign(p) and p.child('lhs') is m:
                continue
            if p is not None and p.k == 'CallExpr' and p.callee == 'gdstk::convex_hull' and p.args[-1] is m:
                continue
            base = lvalue_key(m.child('base'))
            flag, fnname = FLAG_OF[m.n]
            n += 1
            key = '%s#%d/read:%s.%s@%d' % (f.qn.replace('gdstk::', ''), len(f.params), pretty_key(base), m.n, m.id)
            ok = False
            why = 'no guard found'
            # (a) inside then-branch of if (info.flag)
            cur = m
            for a in m.ancestors():
                if a.k == 'IfStmt':
                    c = _strip_casts(a.child('cond'))
                    if c.k == 'MemberExpr' and c.n == flag and lvalue_key(c.child('base')) == base and a.child('then') is cur:
                        ok = True
                        why = 'inside `if (%s.%s)`' % (pretty_key(base), flag)
                cur = a
            # (b) preceded by `if (!info.flag) info = X->fn(cache)` or by `info = fn(cache)` / declaration from fn(cache)
            if not ok:
                for s in f.walk():
                    if s.pos >= m.pos:
                        continue
                    asg = None
                    if s.k == 'IfStmt':
                        c = _strip_casts(s.child('cond'))
                        if c.k == 'UnaryOperator' and c.op == '!' and _strip_casts(c.child('sub')).k == 'MemberExpr' and _strip_casts(c.child('sub')).n in ('convex_hull_valid', 'bounding_box_valid') \
                                and lvalue_key(_strip_casts(c.child('sub')).child('base')) == base and s.child('else') is None:
                            gflag = _strip_casts(c.child('sub')).n
                            th = s.child('then')
                            a0 = th if is_assign(th) else next((x for x in th.walk() if is_assign(x)), None)
                            if a0 is not None and lvalue_key(a0.child('lhs')) == base:
                                callee = next((x.callee for x in a0.child('rhs').walk() if x.k == 'CXXMemberCallExpr'), '') or ''
                                if g.node_dominates(s.child('cond'), m):
                                    if gflag == flag and callee.endswith('::' + fnname):
                                        ok = True
                                        why = 'guarded by `if (!%s) recompute by %s`' % (flag, fnname)
                                    else:
                                        why = 'nearest guard tests `%s` and recomputes with `%s`, but the value read is `%s` (needs `%s` / %s)' % (gflag, callee.split('::')[-1], m.n, flag, fnname)
                    if s.k == 'VarDecl' and 'v%d:%s' % (s.d, s.n) == base and s.child('init') is not None:
                        callee = next((x.callee for x in s.child('init').walk() if x.k == 'CXXMemberCallExpr'), '') or ''
                        if callee.endswith('::' + fnname) and 'Cell' in callee:
                            ok = True
                            why = 'initialised from %s' % callee
            ctx.check(ok, 'R-FLAG', key, m.loc(), 'read of cached `%s` is valid: %s' % (m.n, why),
                      'cached field `%s` is read without its `%s` flag being established for that object: %s' % (m.n, flag, why))
    ctx.require('R-FLAG cached reads', n, 8)
    # cache.set: own name, flag of what was computed
    for f, flag, other in ((cached_fn(db, 'gdstk::Cell::bounding_box', True), 'bounding_box_valid', 'convex_hull_valid'), (cached_fn(db, 'gdstk::Cell::convex_hull', True), 'convex_hull_valid', 'bounding_box_valid')):
        sets = [c for c in f.walk() if c.k == 'CXXMemberCallExpr' and (c.callee or '').endswith('::set')]
        gets = [c for c in f.walk() if c.k == 'CXXMemberCallExpr' and (c.callee or '').endswith('::get')]
        st = [x for x in f.walk() if is_assign(x) and x.child('lhs').k == 'MemberExpr' and x.child('lhs').n.endswith('_valid')]
        ok = len(sets) == 1 and norm(sets[0].args[0].text()) == 'this->name' and len(gets) == 1 and norm(gets[0].args[0].text()) == 'this->name'
        ok = ok and len(st) == 1 and st[0].child('lhs').n == flag and st[0].child('rhs').text() == 'true' and lvalue_key(st[0].child('lhs').child('base')) == lvalue_key(sets[0].args[1].args[0] if sets[0].args[1].k == 'CXXConstructExpr' else sets[0].args[1]) and st[0].pos < sets[0].pos
        ctx.check(ok, 'R-FLAG', '%s/cache-set' % f.qn.replace('gdstk::', ''), f.loc(), 'the result is stored under the cell\'s own name after setting exactly `%s` on the entry fetched for that name' % flag)
    # wrappers without a cache: build a local cache, delegate, clear every entry
    ws = [f for qn in ('gdstk::Cell::bounding_box', 'gdstk::Cell::convex_hull', 'gdstk::Reference::bounding_box', 'gdstk::Reference::convex_hull') for f in db.fn(qn, all=True) if not any('Map<' in p['t'] for p in f.params)]
    for f in ws:
        t = norm(clone.canon(f.body, f, ren=clone.Renamer(f, params_by_name=True)))
        ok = re.search(r'Map<GeometryInfo> v0\b', t) is not None and re.search(r'for \(MapItem<GeometryInfo> \* v\d+ = v0\.next\(NULL\)', t) is not None and '->value.clear()' in t and 'v0.clear()' in t
        ok = ok and re.search(r'(this->(bounding_box|convex_hull)\((\$\w+, )*v0\))', t) is not None
        ctx.check(ok, 'R-CLONE', '%s#%d/local-cache-wrapper' % (f.qn.replace('gdstk::', ''), len(f.params)), f.loc(), 'the cache-less overload delegates to the cached one with a local cache and clears it')


def check_extrema_effect(ctx, db):
    """get_extrema offsets may not reach gdstk::convex_hull for the Explicit kind."""
    rt = db.fn('gdstk::Reference::repeat_and_transform')
    rh = cached_fn(db, 'gdstk::Reference::convex_hull', False)
    ctx.touch(rt)
    hull_calls = [c for c in rh.walk() if c.k == 'CallExpr' and c.callee == 'gdstk::convex_hull']
    feeds = any(c.k == 'CXXMemberCallExpr' and (c.callee or '').endswith('repeat_and_transform') for c in rh.walk()) and bool(hull_calls)
    ctx.check(feeds, 'R-EFFECT', 'Reference::convex_hull/feeds-hull', rh.loc(), 'Reference::convex_hull passes repeat_and_transform\'s points to gdstk::convex_hull (instance confirmed)')
    ge = [c for c in rt.walk() if c.k == 'CXXMemberCallExpr' and (c.callee or '').endswith('Repetition::get_extrema')]
    if not ge:
        ctx.ok('R-EFFECT', 'repeat_and_transform/extrema-not-explicit', rt.loc(), 'no per-axis extrema are used')
        return
    for c in ge:
        ok = False
        cur = c
        for a in c.ancestors():
            if a.k == 'IfStmt':
                cd = _strip_casts(a.child('cond'))
                if cd.k == 'BinaryOperator' and cd.op in ('==', '!=') and norm(cd.child('lhs').text()) == 'this->repetition.type' and norm(cd.child('rhs').text()) == 'RepetitionType::Explicit':
                    in_then = a.child('then') is cur or any(x is c for x in a.child('then').walk())
                    ok = (cd.op == '==' and not in_then) or (cd.op == '!=' and in_then)
            cur = a
        ctx.check(ok, 'R-EFFECT', 'repeat_and_transform/extrema-not-explicit@%d' % c.id, c.loc(), 'per-axis extreme offsets are used only for kinds whose extremes span the hull (not Explicit)',
                  'points built from Repetition::get_extrema flow into gdstk::convex_hull for Explicit repetitions: per-axis extreme offsets span the offsets\' box but not their hull')


def check_init(ctx, db):
    for qn in ('gdstk::Polygon::bounding_box', 'gdstk::Label::bounding_box', 'gdstk::Reference::bounding_box', 'gdstk::Cell::bounding_box'):
        for f in db.fn(qn, all=True):
            if not any('Map<' in p['t'] for p in f.params) and 'Cell' in qn or (qn.endswith('Reference::bounding_box') and len(f.params) == 2):
                continue
            ctx.touch(f)
            rets = [r for r in f.walk() if r.k == 'ReturnStmt']
            first_ret = min([r.pos for r in rets] + [10 ** 9])
            asg = [x for x in f.walk() if is_assign(x) and x.pos < first_ret]
            t = ' '.join(norm(x.text()) for x in asg[:4])
            if qn.endswith('Label::bounding_box'):
                ok = '(min = this->origin)' in t.replace('$', '') and '(max = this->origin)' in t.replace('$', '')
                what = 'a label\'s box starts as its origin'
            else:
                ok = 'DBL_MAX' in t or '1.7976931348623157e+308' in t
                ok = ok and re.search(r'min\.x = \(min\.y = 1\.7976931348623157e\+308\)', t) is not None and re.search(r'max\.x = \(max\.y = \(-1\.7976931348623157e\+308\)\)', t) is not None
                what = 'the inverted box (min = +DBL_MAX, max = -DBL_MAX) is established before any return'
            ctx.check(ok, 'R-INIT', '%s#%d/inverted-box' % (qn.replace('gdstk::', ''), len(f.params)), f.loc(), what, 'box not initialised to the inverted/neutral value before the first return: %s' % t[:160])


def check_extrema_consumers(ctx, db):
    """every consumer of Repetition::get_extrema walks the complete list (for explicit repetitions the
    first entry is the minimum offset, not the zero offset)"""
    n = 0
    for f in db.functions:
        if f.body is None or not f.relfile().startswith('src/'):
            continue
        for c in f.walk():
            if c.k != 'CXXMemberCallExpr' or not (c.callee or '').endswith('Repetition::get_extrema'):
                continue
            arr = _strip_casts(c.args[0])
            if arr.k != 'DeclRefExpr':
                raise AnalysisBroken('%s: get_extrema result is not a local array' % f.qn)
            a = arr.n
            n += 1
            ctx.touch(f)
            ptrs = [v for v in f.walk() if v.k == 'VarDecl' and v.child('init') is not None and v.pos > c.pos and re.search(r'\b%s\.items\b' % a, norm(v.child('init').text()))]
            loops = [l for l in f.walk() if l.k == 'ForStmt' and l.pos > c.pos and l.child('init') is not None and re.search(r'\b%s\.count\b' % a, norm(l.child('init').text()) + ' ' + norm(l.child('cond').text() if l.child('cond') is not None else ''))]
            bad = []
            for v in ptrs:
                if norm(v.child('init').text()) != '%s.items' % a:
                    bad.append('cursor `%s` starts at `%s`' % (v.n, norm(v.child('init').text())))
            for l in loops:
                iv = next((v for v in l.child('init').walk() if v.k == 'VarDecl'), None)
                t0, tc = norm(iv.child('init').text()) if iv is not None else '', norm(l.child('cond').text())
                if not ((t0 == '%s.count' % a and tc == '(%s > 0)' % iv.n) or (t0 == '0' and tc == '(%s < %s.count)' % (iv.n, a))):
                    bad.append('loop runs `%s = %s; %s`' % (iv.n if iv is not None else '?', t0, tc))
            if not ptrs and not loops:
                raise AnalysisBroken('%s: consumer of the get_extrema list not recognised' % f.qn)
            ctx.check(not bad, 'R-AGG', '%s/all-extrema@%d' % (f.qn.replace('gdstk::', ''), c.l), c.loc(), 'the list returned by get_extrema is walked from its first entry for all `count` entries', '; '.join(bad) + ': an extreme offset is skipped (for explicit repetitions the first entry is the minimum offset)')
    ctx.require('R-AGG get_extrema consumers', n, 3)
    f = db.fn('gdstk::is_multiple_of_pi_over_2')
    cmpx = [x for x in f.walk() if x.k == 'BinaryOperator' and x.op == '<' and 'fabs' in norm(x.child('lhs').text())]
    tol = _strip_casts(cmpx[0].child('rhs')).fv if len(cmpx) == 1 else None
    ctx.check(tol is not None and 0 < tol <= 2e-15, 'R-CONST', 'is_multiple_of_pi_over_2/exact', f.loc(), 'the residual allowed for "multiple of 90 degrees" (%s) is below the spacing of doubles near 2 pi: only exact multiples take the corner-transform shortcut of Reference::bounding_box' % tol,
              'angles within %s rad of a multiple of 90 degrees are treated as axis-aligned: the bounding-box shortcut then rotates the corners of the child box by an oblique angle and reports a box that is too large' % tol)


def check_dimensions(ctx, db):
    """R-DIM: the box routines only combine coordinates with coordinates (sentinels 0 / +-DBL_MAX are polymorphic)"""
    from .. import dims
    seeds = {'min': 1, 'max': 1, 'point': 1, 'points': 1, 'origin': 1, 'pmin': 1, 'pmax': 1, 'lmin': 1, 'lmax': 1, 'rmin': 1, 'rmax': 1, 'a': 1, 'b': 1, 'min0': 1, 'max0': 1, 'offsets': 1, 'point_array': 1}
    n = 0
    for qn, mins in (('gdstk::Cell::bounding_box', 40), ('gdstk::Label::bounding_box', 8), ('gdstk::Polygon::bounding_box', 8)):
        for f in db.fn(qn, all=True):
            if f.body is None or not any(x.k in ('ForStmt', 'WhileStmt') for x in f.walk()):
                continue
            ctx.touch(f)
            n += dims.check(ctx, f, seeds, min_sites=0)
    ctx.require('R-DIM resolved sites', n, 56)


def check_hull_corners(ctx, db):
    """gdstk::convex_hull only ever reports input points: every value appended to the result is an element of the
    input array (through a pointer into it, or the whole array) - never a point assembled component by component
    from different inputs (e.g. the corners of the bounding box)."""
    f = db.fn('gdstk::convex_hull')
    ctx.touch(f)
    src = f.params[0]['n']
    from .. import deps
    D = deps.Deps(f)
    n = 0
    for c in f.walk():
        if c.k != 'CXXMemberCallExpr' or (c.callee or '').split('::')[-1] not in ('append', 'extend', 'append_unsafe') or norm(c.child('obj').text()) != f.params[1]['n']:
            continue
        n += 1
        a = _strip_casts(c.args[0])
        while a is not None and a.k in ('CXXConstructExpr', 'MaterializeTemporaryExpr', 'CXXBindTemporaryExpr', 'CXXFunctionalCastExpr', 'InitListExpr') and len([x for x in a.c if x is not None]) == 1:
            a = _strip_casts([x for x in a.c if x is not None][0])
        why = norm(c.args[0].text())
        # the reported value must be ONE element of the input array, however it is addressed: `*p` / `p[i]` with p a pointer
        # into the input, `points[i]`, `points.items[i]`, or the whole array (extend)
        src_key = next(('v%d:%s' % (q.d, q.n) for q in f.walk() if q.k == 'DeclRefExpr' and q.dk == 'param' and q.n == src), None)
        ok = False
        if a.k == 'DeclRefExpr' and a.n == src:
            ok = True
        elif a.k == 'CXXOperatorCallExpr' and a.op == '[]' and lvalue_key(_strip_casts(a.args[0])) == src_key:
            ok = True
        else:
            ptr = a.child('sub') if (a.k == 'UnaryOperator' and a.op == '*') else (a.child('base') or a.c[0]) if a.k == 'ArraySubscriptExpr' else None
            r = D.root_of_ptr(ptr) if ptr is not None else None
            ok = r is not None and r[0] == src_key
        ctx.check(ok, 'R-EFFECT', 'convex_hull/corner@%s' % c.loc(), c.loc(), 'the reported corner is an element of the input array',
                  'convex_hull reports `%s`, which is not an element of the input (a point assembled from separate coordinate extrema lies outside the input when the points are on a descending line)' % why)
    ctx.require('R-EFFECT hull corner sources', n, 2)
    # the qhull branch copies both coordinates of ONE vertex
    reads = []
    for x in f.walk():
        if x.k != 'ArraySubscriptExpr':
            continue
        b = _strip_casts(x.child('base') or x.c[0])
        if b is None or b.k != 'MemberExpr' or b.n != 'point' or not b.arrow:
            continue
        idx = _strip_casts(x.child('idx') or x.c[1]).cv
        vk = lvalue_key(_strip_casts(b.child('base')))
        # where does the value go: `.x = ` / `.y = ` or the first / second slot of a Vec2 initialiser
        slot = None
        y, prev = x.parent, x
        while y is not None and y.k in ('ImplicitCastExpr', 'CStyleCastExpr', 'ParenExpr', 'CXXStaticCastExpr'):
            prev, y = y, y.parent
        if y is not None and is_assign(y) and y.child('rhs') is prev and _strip_casts(y.child('lhs')).k == 'MemberExpr':
            slot = {'x': 'x', 'y': 'y'}.get(_strip_casts(y.child('lhs')).n)
        elif y is not None and y.k in ('InitListExpr', 'CXXConstructExpr', 'CXXTemporaryObjectExpr') and 'Vec2' in (y.t or ''):
            cs = [c_ for c_ in y.c if c_ is not None]
            pos = next((i_ for i_, c_ in enumerate(cs) if c_ is prev), None)
            slot = {0: 'x', 1: 'y'}.get(pos)
        reads.append((x, idx, vk, slot))
    if len(reads) < 2:
        raise AnalysisBroken('convex_hull: reads of the qhull vertex coordinates not found')
    ok = sorted((i_, s_) for _, i_, _, s_ in reads) == [(0, 'x'), (1, 'y')] and len({vk for _, _, vk, _ in reads}) == 1
    if ok:
        lo, hi = sorted(r[0].pos for r in reads)
        vk = reads[0][2]
        # the vertex pointer is not advanced between the two reads
        ok = not any(c.k == 'CallExpr' and lo < c.pos < hi and any(_strip_casts(a_).k == 'UnaryOperator' and _strip_casts(a_).op == '&' and lvalue_key(_strip_casts(_strip_casts(a_).child('sub'))) == vk for a_ in c.args) for c in f.walk())
    ctx.check(ok, 'R-EFFECT', 'convex_hull/qhull-vertex', f.loc(), 'each reported vertex takes x from point[0] and y from point[1] of the same qhull vertex (an input point)',
              'the qhull branch stores %s' % sorted((i_, s_) for _, i_, _, s_ in reads))


def check_empty_box_tests(ctx, db):
    """R-BOUND.empty: a box is empty exactly when min > max on an axis; a box of zero extent (one point, one label, a vertical or
    horizontal line) is not empty. Every comparison of a minimum corner with a maximum corner on the same axis therefore has
    the inclusive form (`min <= max` for "has content", `min > max` for "empty"), whichever way round it is written."""
    n = 0
    for f in db.functions:
        if f.body is None or not f.relfile().startswith(('src/', 'include/gdstk/')):
            continue
        for x in f.walk():
            if x.k != 'BinaryOperator' or x.op not in ('<', '<=', '>', '>='):
                continue
            l, r = _strip_casts(x.child('lhs')), _strip_casts(x.child('rhs'))
            if l is None or r is None or l.k != 'MemberExpr' or r.k != 'MemberExpr' or l.n != r.n or l.n not in ('x', 'y'):
                continue
            lt, rt = norm(l.child('base').text()) if l.child('base') is not None else '', norm(r.child('base').text()) if r.child('base') is not None else ''
            lmin, lmax, rmin, rmax = 'min' in lt.lower(), 'max' in lt.lower(), 'min' in rt.lower(), 'max' in rt.lower()
            if lmin and rmax and not lmax and not rmin and lt.lower().replace('min', '') == rt.lower().replace('max', ''):
                op = x.op
            elif lmax and rmin and not lmin and not rmax and lt.lower().replace('max', '') == rt.lower().replace('min', ''):
                op = {'<': '>', '<=': '>=', '>': '<', '>=': '<='}[x.op]          # read as min OP max
            else:
                continue
            n += 1
            ctx.touch(f)
            ctx.check(op in ('<=', '>'), 'R-BOUND.empty', '%s/min-vs-max@%s' % (f.qn.replace('gdstk::', ''), x.loc()), x.loc(), 'emptiness test in inclusive form (`%s`): a box of zero extent counts as content' % norm(x.text()),
                      '`%s` treats a box of zero extent on this axis (a single label or point, a vertical line) as empty: its contents drop out of the bounding box' % norm(x.text()))
    ctx.require('R-BOUND.empty min-vs-max comparisons', n, 2)


def check_hull_scans(ctx, db):
    """R-AGG: where gdstk::convex_hull falls back to its own scan of the input (collinear points), the scan looks at every input
    point: a loop that reads elements of the input array through a cursor or an index covers the indices lo .. lo + trip - 1
    (affine loop summary of the element address), and lo + trip must be points.count, with lo = 0 - or lo = 1 when the running
    extremes start from element 0. File-local helpers called from convex_hull are part of it."""
    from .. import loops as LP
    from ..linear import lin_add
    root = db.fn('gdstk::convex_hull')
    n = 0
    for f, _w in db.with_helpers([root]):
        ctx.touch(f)
        arrays = ['v%d:%s' % (p_['d'], p_['n']) for p_ in f.params if 'Array<gdstk::Vec2>' in (p_.get('t') or '').replace('Array<Vec2>', 'Array<gdstk::Vec2>') and ('const' in (p_.get('t') or '') or '&' not in (p_.get('t') or ''))]
        if not arrays:
            continue
        for l in LP.loops_of(f):
            L = LP.Loop(f, l)
            body = l.child('body')
            for ak in arrays:
                base = ak + '.items'
                offs = set()
                for x in (body.walk() if body is not None else []):
                    if (x.k == 'MemberExpr' and x.n in ('x', 'y')) or (x.k == 'UnaryOperator' and x.op == '*') or x.k == 'ArraySubscriptExpr' or (x.k == 'CXXOperatorCallExpr' and x.op == '[]'):
                        ep = L.element_ptr(x) if x.k == 'MemberExpr' else L.addr(x)
                        if ep and ep.get(base) == 1 and ep.get(LP.K) == 1 and set(ep) <= {base, LP.K, 1}:
                            offs.add(ep.get(1, 0))
                if not offs:
                    continue
                n += 1
                t = L.trip()
                lo = min(offs)
                hi = lin_add(t, {1: max(offs)}) if t is not None else None
                clean = lambda d_: {k_: v_ for k_, v_ in (d_ or {}).items() if v_ != 0}
                seeded0 = any(v.k == 'VarDecl' and '*' in (v.t or '') and v.child('init') is not None and v.pos < l.pos and ' '.join(v.child('init').text().split()).replace('(', '').replace(')', '') in (ak.split(':', 1)[1] + '.items',) for v in f.walk())
                ok = hi is not None and clean(hi) == {ak + '.count': 1} and (lo == 0 or (lo == 1 and seeded0))
                ctx.check(ok, 'R-AGG', 'convex_hull/scan-visits-every-point@%s:%d' % (f.name, l.l), l.loc(), 'the scan of the input points covers elements %d .. points.count - 1%s' % (lo, ' (element 0 is the initial extreme)' if lo else ''),
                          'the scan of the input points covers elements %d .. %s - 1, not all of 0 .. points.count - 1: some point is never looked at and can lie outside the hull that is returned' % (lo, hi if hi is not None else 'an undetermined bound'))
    ctx.require('R-AGG convex_hull scans', n, 1)


def run(ctx):
    db = ctx.db
    ctx.attempt(check_hull_scans, ctx, db)
    from . import C11   # the box of a repeated element is taken from the extreme offsets: they must span all displacements (interpreted on small repetitions)
    ctx.attempt(C11.check_extrema_model, ctx, db)
    ctx.attempt(check_empty_box_tests, ctx, db)
    ctx.attempt(check_aggregates, ctx, db)
    ctx.attempt(check_minmax, ctx, db)
    ctx.attempt(check_cache_coherence, ctx, db)
    ctx.attempt(check_extrema_effect, ctx, db)
    ctx.attempt(check_init, ctx, db)
    ctx.attempt(check_extrema_consumers, ctx, db)
    ctx.attempt(check_dimensions, ctx, db)
    ctx.attempt(check_hull_corners, ctx, db)
    from .. import fresh
    nf = 0
    for f in db.fn('gdstk::Cell::convex_hull', all=True):
        if f.body is not None:
            nf += fresh.check_function(ctx, f)
    ctx.require('R-FRESH scratch arrays in Cell::convex_hull', nf, 4)


MANIFEST = dict(
    text='Decides structural necessary conditions of exact boxes/hulls for every hierarchy: both cell aggregators visit all five element arrays and the hull takes every repetition offset; every running-extremum update compares and assigns matching components, keeps one role per accumulator, covers min.x/min.y/max.x/max.y in each loop and feeds minima from min corners and maxima from max corners; every read of a cached hull/box is guarded by the matching valid flag of the same entry or follows recomputation by the matching function, and cache entries are stored under the cell\'s own name with exactly the computed flag; per-axis extreme offsets never feed a convex hull for Explicit repetitions; gdstk::convex_hull reports only elements of its input (no corner assembled from separate coordinate extrema, also in the collinear fallback); every box routine establishes the inverted box before any return; cache-less overloads are thin wrappers; the scratch array of repetition offsets is emptied after every repeated element of Cell::convex_hull; the box routines are dimensionally consistent (coordinates only meet coordinates); every consumer of Repetition::get_extrema walks the whole list; the axis-aligned shortcut of Reference::bounding_box is taken only for exact multiples of 90 degrees; every emptiness test comparing a minimum with a maximum corner is inclusive (a box of zero extent is content). Hull correctness (qhull) and numeric extremes are not decided.',
    note='Trusted: clang front end, gx, sa rules; Repetition::get_extrema semantics are C11\'s obligations.',
    technique='aggregate-completeness and flag-guard dominance rules over typed AST/CFG + running-extremum idiom algebra + who-may-flow effect rule',
    design='§4 C09')
