"""C10 — element transforms: point-map clone families, placement composition, handedness and width
policy by sign-domain abstract interpretation, Repetition::transform (shared with C11)."""
import re
from .. import clone, signs, tables
from ..facts import AnalysisBroken
from ..flow import lvalue_key, is_assign, _strip_casts
from . import C11

EXPLANATION = ('R-ALGEBRA (generic-element execution, sa/genelem.py + sa/symdiff.py): every transforming method of Polygon and FlexPath is '
               'executed once on a symbolic generic element of each member array, for every valuation of x_reflection / scale_width; '
               'the polynomial stored into the vertices / spine points, the (half width, offset) pairs, the end extensions and the bend '
               'radius must be identically the documented map (t + m R(a) diag(1, +-1) p; p + v; c + s(p - c); c + R(angle)(p - c); the '
               'reflection across p0p1; (w * (scale_width ? |m| : 1), d * +-|m|); lengths * |m|) and nothing else is written. The loop form '
               'is irrelevant. Reference::repeat_and_transform and the placement composition of Reference::transform / Label::transform '
               '(T o P for all four reflection combinations) are polynomial identities with trigonometric expansion. R-SIGN (sign-domain '
               'abstract interpretation over all sign/boolean valuations): RobustPath::simple_scale/mirror/x_reflection keep / flip the '
               'sign of offset_scale and keep width_scale positive. RobustPath::transform call structure. Repetition::transform '
               'obligations are shared with C11. Numerical agreement with the 2x3 matrix is not decided.')
ASSUMPTIONS = ['Vec2 operators are component-wise (vec.hpp)', 'fabs/cos/sin are the libm functions']
XREF_FILES = ['src/polygon.cpp', 'src/flexpath.cpp', 'src/robustpath.cpp', 'src/reference.cpp', 'src/label.cpp']

SUBST = [(r'gdstk::', ''), (r'<IntegralCast:[^>]*>', ''), (r'this->spine\.point_array', 'this->point_array'), (r'scael_factor', 'scale_factor')]


def canon(fn, node=None, by_name=True):
    return clone.canon(node or fn.body, fn, subst=SUBST, ren=clone.Renamer(fn, params_by_name=by_name))


def point_loop(fn):
    """the loop that maps points: first ForStmt whose body assigns p->x and p->y"""
    best = None
    for l in fn.walk():
        if l.k == 'ForStmt':
            ws = {x.child('lhs').text() for x in l.walk() if is_assign(x)}
            if any(w.endswith('->x') for w in ws) and any(w.endswith('->y') for w in ws):
                best = l  # innermost (walk is pre-order: later matches are nested deeper or later)
    return best


# the three point maps are decided as polynomial identities (check_affine_algebra, check_element_maps); comparing their spelling is evidence only
ADVISORY = [('R-CLONE', r'^point-map/')]


def check_point_maps(ctx, db):
    pt, ft, rt = db.fn('gdstk::Polygon::transform'), db.fn('gdstk::FlexPath::transform'), db.fn('gdstk::Reference::repeat_and_transform')
    for f in (pt, ft, rt):
        ctx.touch(f)
    mem = []
    for lab, f in (('Polygon::transform', pt), ('FlexPath::transform', ft), ('Reference::repeat_and_transform', rt)):
        l = point_loop(f)
        if l is None:
            raise AnalysisBroken('%s: point-mapping loop not found' % lab)
        ren = clone.Renamer(f, params_by_name=True)
        # number locals by first use inside the loop body only, so the three bodies are comparable
        ren.map = {k: v for k, v in ren.map.items()}
        txt = clone.canon(l.child('body'), f, subst=SUBST + [(r'this->(magnification|x_reflection|rotation|origin)', r'$\1')], ren=ren)
        lines = []
        for ln in txt.splitlines():
            m = re.match(r'^(\s*\(v\d+->[xy] = )\((.*) \+ v\d+->[xy]\)\)$', ln)
            if m:
                ln = m.group(1) + m.group(2) + ')'
            lines.append(ln)
        txt = '\n'.join(lines)
        # renumber v-variables by first occurrence in this text
        order = []
        for m in re.finditer(r'\bv\d+\b', txt):
            if m.group(0) not in order:
                order.append(m.group(0))
        txt = re.sub(r'\bv\d+\b', lambda m: 'w%d' % order.index(m.group(0)), txt)
        mem.append((lab, l.loc(), txt))
    clone.check_family(ctx, 'R-CLONE', 'point-map', mem, 3)
    # the shared trig prologue: ca = cos(rotation), sa = sin(rotation) and the rotation formula signs
    for lab, f in (('Polygon::transform', pt), ('FlexPath::transform', ft), ('Reference::repeat_and_transform', rt), ('Polygon::rotate', db.fn('gdstk::Polygon::rotate')), ('FlexPath::rotate', db.fn('gdstk::FlexPath::rotate'))):
        l = point_loop(f)
        asg = {x.child('lhs').text()[-3:]: x.child('rhs').text(clone.Renamer(f, params_by_name=True)) for x in l.walk() if is_assign(x) and x.child('lhs').text()[-3:] in ('->x', '->y')}
        decls = {v.n: v.child('init').text() for v in f.walk() if v.k == 'VarDecl' and v.child('init') is not None and v.child('init').k == 'CallExpr' and v.child('init').callee in ('cos', 'sin')}
        cosv = next((n for n, t in decls.items() if t.startswith('cos(')), None)
        sinv = next((n for n, t in decls.items() if t.startswith('sin(')), None)
        okx = cosv and sinv and re.search(r'\.x \* v\d+\) - \(v\d+\.y \* v\d+\)', asg.get('->x', '')) is not None
        oky = cosv and sinv and re.search(r'\.x \* v\d+\) \+ \(v\d+\.y \* v\d+\)', asg.get('->y', '')) is not None
        # which local multiplies q.x in the x row must be the cosine
        ren = clone.Renamer(f, params_by_name=True)
        names = {}
        for v in f.walk():
            if v.k == 'VarDecl' and v.n in (cosv, sinv):
                names[v.n] = 'v%d:%s' % (v.d, v.n)
        xrow = next((x for x in l.walk() if is_assign(x) and x.child('lhs').text().endswith('->x')), None)
        yrow = next((x for x in l.walk() if is_assign(x) and x.child('lhs').text().endswith('->y')), None)

        def factor_of(row, comp):
            for m in row.child('rhs').walk():
                if m.k == 'BinaryOperator' and m.op == '*':
                    l_, r_ = _strip_casts(m.child('lhs')), _strip_casts(m.child('rhs'))
                    if l_.k == 'MemberExpr' and l_.n == comp and r_.k == 'DeclRefExpr':
                        return r_.n
            return None
        okr = xrow is not None and yrow is not None and factor_of(xrow, 'x') == cosv and factor_of(xrow, 'y') == sinv and factor_of(yrow, 'x') == sinv and factor_of(yrow, 'y') == cosv
        ctx.check(bool(okx and oky and okr), 'R-SHAPE', lab + '/rotation-rows', l.loc(), "rows are x' = x cos - y sin, y' = x sin + y cos with cos/sin of the rotation argument",
                  'rotation rows differ from x cos - y sin / x sin + y cos: x: %s ; y: %s' % (asg.get('->x'), asg.get('->y')))


def check_spine_twins(ctx, db):
    for name in ('translate', 'scale', 'mirror', 'rotate'):
        pf, ff = db.fn('gdstk::Polygon::' + name), db.fn('gdstk::FlexPath::' + name)
        ctx.touch(pf)
        ctx.touch(ff)
        a = canon(pf, by_name=False).splitlines()
        b = canon(ff, by_name=False).splitlines()
        a = [re.sub(r'\bVec2\b|const Vec2\b', 'Vec2', x) for x in a]
        pre = b[:len(a)]
        # Polygon::scale takes a Vec2 factor, FlexPath::scale a double: compare modulo parameter type only
        d = clone.first_diff('\n'.join(a), '\n'.join(pre))
        ctx.check(d is None, 'R-CLONE', 'spine-twin/%s' % name, ff.loc(), 'FlexPath::%s maps the spine exactly as Polygon::%s maps its vertices' % (name, name),
                  None if d is None else 'FlexPath::%s spine part differs from Polygon::%s at line %d: `%s` vs `%s`' % (name, name, d[0], d[2][:100], d[1][:100]))


def check_placement(ctx, db):
    """Reference::transform and Label::transform, interpreted (sa/minieval; cos / sin answered in floating point) for the four
    combinations of the incoming reflection and the element's own, on an element with origin (3, -4), rotation 0.3 and
    magnification 1.5 placed by (mag 2, rot 0.7, orig (10, 20)): the stored placement must be T o P - origin' = orig + mag R(rot)
    (x, r y), rotation' = r rotation + rot with r = -1 under an incoming reflection, magnification' = magnification mag,
    x_reflection' = x_reflection xor x_refl. A sign taken from the element's flag after it was updated, an origin component read
    after the other was overwritten, a rotation that is not negated - all show as a wrong number; the statement form does not enter."""
    import math
    from .. import minieval as M
    for lab, qn in (('Reference::transform', 'gdstk::Reference::transform'), ('Label::transform', 'gdstk::Label::transform')):
        f = db.fn(qn)
        ctx.touch(f)
        bad = []
        for x_refl in (0, 1):
            for own in (0, 1):
                this = M.Obj(origin=M.Obj(x=3.0, y=-4.0), rotation=0.3, magnification=1.5, x_reflection=own)

                def hook(callee, args, node):
                    if callee in ('cos', 'sin'):
                        return (getattr(math, callee)(float(args[0])),)
                    return None
                mi = M.Mini(db, hook=hook, budget=5000)
                mi.obj_store = True
                env = {'this': this}
                vals = {'mag': 2.0, 'x_refl': x_refl, 'rot': 0.7, 'orig': M.Obj(x=10.0, y=20.0)}
                for p_, key in zip(f.params, ('mag', 'x_refl', 'rot', 'orig')):
                    env[p_['n']] = vals[key]
                try:
                    mi.run(f.body, env)
                except M.Return:
                    pass
                r = -1.0 if x_refl else 1.0
                want = (10.0 + 2.0 * (3.0 * math.cos(0.7) - r * -4.0 * math.sin(0.7)), 20.0 + 2.0 * (3.0 * math.sin(0.7) + r * -4.0 * math.cos(0.7)), r * 0.3 + 0.7, 3.0, own ^ x_refl)
                got = (float(this['origin']['x']), float(this['origin']['y']), float(this['rotation']), float(this['magnification']), int(bool(this['x_reflection'])))
                if any(abs(a - b) > 1e-9 for a, b in zip(got, want)):
                    bad.append('incoming reflection %d on an element with x_reflection %d: (origin.x, origin.y, rotation, magnification, x_reflection) = %s, T o P gives %s' % (x_refl, own, tuple(round(v, 6) for v in got), tuple(round(v, 6) for v in want)))
        ctx.explored['valuations'] += 4
        ctx.check(not bad, 'R-SHAPE', lab + '/composition', f.loc(), "the four reflection combinations store T o P: origin' = orig + mag R(rot)(x, r y), rotation' = r rotation + rot, magnification' = magnification mag, x_reflection' = x_reflection xor x_refl",
                  'placement composition is wrong: ' + '; '.join(bad[:2]))


def factor_at(fn, use_stmt_pred, env, params_env):
    """Run the sign interpreter over the top-level statements of fn up to the first statement
    satisfying use_stmt_pred; return the interpreter."""
    it = signs.Interp(params_env)
    for s in fn.body.c:
        if s is None:
            continue
        if use_stmt_pred(s):
            break
        it.run([s])
    return it


def check_signs(ctx, db):
    n = 0
    # --- FlexPath scale / transform / mirror factors: decided algebraically in check_element_maps
    # --- RobustPath
    f = db.fn('gdstk::RobustPath::simple_scale')
    ctx.touch(f)
    p = f.params[0]
    for ms in ('+', '-'):
        for old in ('+', '-'):
            for sw in (False, True):
                env = {'v%d:%s' % (p['d'], p['n']): ms, 'this->offset_scale': old, 'this->width_scale': '+', 'this->scale_width': sw}
                it = signs.Interp(env)
                it.run(f.body.c)
                ctx.explored['valuations'] += 1
                n += 1
                os_, ws_ = it.env.get('this->offset_scale'), it.env.get('this->width_scale')
                ctx.check(os_ == old and ws_ == '+', 'R-SIGN', 'RobustPath::simple_scale|factor%s,offset_scale%s,scale_width=%d' % (ms, old, sw), f.loc(),
                          'offset_scale keeps its sign (%s) and width_scale stays positive' % old,
                          'with scale factor %s0 and offset_scale %s0 the new signs are offset_scale %s, width_scale %s: a scale (handedness preserving) must keep the sign of offset_scale and a positive width_scale' % (
                              '>' if ms == '+' else '<', '>' if old == '+' else '<', os_, ws_))
    ws = [x for x in f.walk() if is_assign(x) and x.child('lhs').text() == 'this->width_scale']
    osx = [x for x in f.walk() if is_assign(x) and x.child('lhs').text() == 'this->offset_scale']
    ok = len(ws) == 1 and any(a.k == 'IfStmt' and a.child('cond').text() == 'this->scale_width' for a in ws[0].ancestors()) and len(osx) == 1 and not any(a.k == 'IfStmt' for a in osx[0].ancestors())
    n += 1
    ctx.check(ok, 'R-DEP', 'RobustPath::simple_scale/width-policy', f.loc(), 'width_scale changes only under scale_width; offset_scale changes unconditionally')
    for name in ('mirror', 'x_reflection'):
        f = db.fn('gdstk::RobustPath::' + name)
        ctx.touch(f)
        for old in ('+', '-'):
            it = signs.Interp({'this->offset_scale': old})
            it.run([s for s in f.body.c if s is not None and is_assign(s) and 'offset_scale' in s.child('lhs').text()])
            n += 1
            ctx.check(it.env.get('this->offset_scale') == signs.NEG[old], 'R-SIGN', 'RobustPath::%s|offset_scale%s' % (name, old), f.loc(), 'a reflection flips the sign of offset_scale',
                      'a reflection (orientation reversing) must flip the sign of offset_scale; got %s from %s' % (it.env.get('this->offset_scale'), old))
    # call structure of the composite maps
    f = db.fn('gdstk::RobustPath::transform')
    ctx.touch(f)
    seq = []
    for s in f.body.c:
        if s is None:
            continue
        if s.k == 'CXXMemberCallExpr':
            seq.append(s.callee.split('::')[-1] + '(' + ','.join(re.sub(r'^gdstk::Vec2\{(.*)\}$', r'\1', a.text(clone.Renamer(f, params_by_name=True))) for a in s.args) + ')')
        elif s.k == 'IfStmt':
            t = s.child('then')
            c = t if t.k == 'CXXMemberCallExpr' else next((x for x in t.walk() if x.k == 'CXXMemberCallExpr'), None)
            seq.append('if(%s)%s' % (s.child('cond').text(clone.Renamer(f, params_by_name=True)), c.callee.split('::')[-1] if c is not None else '?'))
    n += 1
    ctx.check(seq == ['simple_scale($magnification)', 'if($x_refl)x_reflection', 'simple_rotate($rotation)', 'translate($origin)'], 'R-SHAPE', 'RobustPath::transform/sequence', f.loc(),
              'magnify, then reflect across x iff requested, then rotate, then translate', 'RobustPath::transform is not magnify; reflect-if; rotate; translate: %s' % seq)
    ctx.require('R-SIGN/R-DEP obligations', n, 14)


def check_length_fields(ctx, db):
    """Every floating-point (length-valued) field of a path element is rescaled by the path's scale/transform, and
    along-path lengths (end extensions, bend radius) by the ABSOLUTE factor: a negative scale is a point reflection,
    lengths stay positive. Field list comes from the record layout (a new double/Vec2 field is picked up)."""
    from ..facts import flat_fields
    n = 0
    for rect, fns, handled_elsewhere in (('gdstk::FlexPathElement', ('gdstk::FlexPath::scale', 'gdstk::FlexPath::transform'), ()),
                                         ('gdstk::RobustPathElement', ('gdstk::RobustPath::simple_scale',), ('width_array', 'offset_array', 'end_width', 'end_offset'))):  # stored in the untransformed frame, scaled at use by width_scale / offset_scale (C08 frame discipline)
        rec = db.record(rect)
        lengths = [name for name, t, grp in flat_fields(rec) if re.search(r'\bdouble\b|Vec2', t or '') and '(*)' not in (t or '') and not (t or '').rstrip().endswith(')') and 'void' not in (t or '')]
        lengths = [x for x in lengths if x not in handled_elsewhere and not x.endswith('_data')]
        if len(lengths) < 1:
            raise AnalysisBroken('%s: no length-valued fields found in the record layout' % rect)
        for qn in fns:
            f = db.fn(qn)
            ctx.touch(f)
            if rect == 'gdstk::FlexPathElement':
                # which element fields the method rewrites: generic-element execution (any loop form); their values are
                # decided in check_element_maps (lengths along the path scale by |factor|)
                from .. import symdiff as S
                from .. import genelem as G
                g = G.Gen(db, f)
                try:
                    g.run([s_ for s_ in f.body.c if s_ is not None], {'x_reflection': S.P(0), 'scale_width': S.P(1)})
                except S.Unsupported as e:
                    raise AnalysisBroken('%s is outside the generic-element algebra: %s' % (qn, e))
                for fld in lengths:
                    n += 1
                    hit = [k_ for k_ in g.written if k_ in ('this->elements[].' + fld, 'this->elements[].' + fld + '[]')]
                    same = bool(hit) and g.equal(g.loc[hit[0]], g.initial(hit[0], g.isvec(g.loc[hit[0]])))
                    ctx.check(bool(hit) and not same, 'R-AGG', '%s/scales:%s' % (qn.replace('gdstk::', ''), fld), f.loc(), 'length field `%s` of %s is rescaled' % (fld, rect.split('::')[-1]),
                              'length field `%s` of %s is not rescaled by %s: the transformed path is not the image of the original (e.g. bends keep their old radius)' % (fld, rect.split('::')[-1], qn.replace('gdstk::', '')))
                continue
            pmag = f.params[0]['n']
            upd = {}
            for x in f.walk():
                if (x.k == 'CompoundAssignOperator' or x.k == 'CXXOperatorCallExpr' or is_assign(x)) and getattr(x, 'op', None) == '*=':
                    lhs = x.args[0] if x.k == 'CXXOperatorCallExpr' else x.child('lhs')
                    rhs = x.args[1] if x.k == 'CXXOperatorCallExpr' else x.child('rhs')
                    for m in lhs.walk():
                        if m.k == 'MemberExpr' and m.n in lengths:
                            upd.setdefault(m.n, []).append(rhs)
            # the width/offset array is scaled through a cursor into half_width_and_offset.items
            for v in f.walk():
                if v.k == 'VarDecl' and v.child('init') is not None:
                    for m in v.child('init').walk():
                        if m.k == 'MemberExpr' and m.n in lengths and any(y.k == 'MemberExpr' and y.n == 'items' for y in v.child('init').walk()):
                            key = 'v%d:%s' % (v.d, v.n)
                            if any((x.k in ('CompoundAssignOperator', 'CXXOperatorCallExpr')) and getattr(x, 'op', None) == '*=' and any(lvalue_key(d_) == key for d_ in (x.args[0] if x.k == 'CXXOperatorCallExpr' else x.child('lhs')).walk() if d_.k == 'DeclRefExpr') for x in f.walk()):
                                upd.setdefault(m.n, []).append(None)
            for fld in lengths:
                n += 1
                ctx.check(fld in upd, 'R-AGG', '%s/scales:%s' % (qn.replace('gdstk::', ''), fld), f.loc(), 'length field `%s` of %s is rescaled' % (fld, rect.split('::')[-1]),
                          'length field `%s` of %s is not rescaled by %s: the transformed path is not the image of the original (e.g. bends keep their old radius)' % (fld, rect.split('::')[-1], qn.replace('gdstk::', '')))
                for rhs in upd.get(fld, []):
                    if rhs is None or fld == 'half_width_and_offset':
                        continue
                    r0 = _strip_casts(rhs)
                    nonneg = r0.k == 'CallExpr' and (r0.callee or '') in ('fabs', 'std::fabs', 'std::abs', 'abs')
                    if not nonneg and r0.k == 'MemberExpr':
                        # component of the (width, offset) factor that is fabs(...) and never negated in this function
                        base = _strip_casts(r0.child('base'))
                        while base is not None and base.k == 'MemberExpr' and not base.n:
                            base = _strip_casts(base.child('base'))
                        nonneg = False
                    n += 1
                    ctx.check(nonneg, 'R-SIGN', '%s/abs-factor:%s' % (qn.replace('gdstk::', ''), fld), rhs.loc(), '`%s` is scaled by the absolute value of the factor' % fld,
                              '`%s` is multiplied by the signed factor `%s`: under a negative scale (a point reflection) the length becomes negative' % (fld, rhs.text()[:40]))
    ctx.require('R-AGG/R-SIGN element length fields', n, 7)


def norm(t):
    return re.sub(r'<[A-Za-z]+:(?!:)[^>]*>', '', t).replace('gdstk::', '')


def check_element_maps(ctx, db):
    """R-ALGEBRA (sa/genelem.py): each transforming method of Polygon and FlexPath is executed once on a generic element of
    every member array, for every valuation of its boolean inputs (x_reflection, scale_width); the value stored into each
    location must be identically the documented map, and no other location may be written:
      vertices / spine points   transform: o + m R(a) diag(1, +-1) p;  translate: p + v;  scale: c + s (p - c);
                                rotate: c + R(angle)(p - c);  mirror: reflection across the line p0 p1
      (half width, offset)      transform / scale: (w * (scale_width ? |m| : 1),  d * +-|m|)  (- iff reflected);  mirror: (w, -d)
      end extensions, bend radius   transform / scale: * |m|  (lengths along the path scale by the absolute factor)
    The loop form (pointer walking, counting down, indexing) does not matter to the result."""
    from .. import symdiff as S
    from .. import genelem as G
    n = 0

    def spec_point(alg, name, p, cls, refl):
        c = alg.vec(S.atom('center.x'), S.atom('center.y'))
        sub = lambda a, b: alg.vadd(a, b, -1)
        if name == 'transform':
            g = -1 if refl else 1
            C_, Sn, M = alg.fatom('cos', S.atom('rotation')), alg.fatom('sin', S.atom('rotation')), S.atom('magnification')
            x, y = p[1], S.mul(p[2], S.P(g))
            return alg.vec(S.add(S.atom('origin.x'), S.mul(M, S.add(S.mul(C_, x), S.mul(Sn, y), -1))), S.add(S.atom('origin.y'), S.mul(M, S.add(S.mul(Sn, x), S.mul(C_, y)))))
        if name == 'translate':
            return alg.vadd(p, alg.vec(S.atom('v.x'), S.atom('v.y')))
        if name == 'scale':
            d = sub(p, c)
            if cls == 'FlexPath':
                return alg.vadd(alg.vmul(d, S.atom(SCALE_PARAM['FlexPath'])), c)
            return alg.vadd(alg.vec(S.mul(d[1], S.atom('scale_factor.x')), S.mul(d[2], S.atom('scale_factor.y'))), c)
        if name == 'rotate':
            d = sub(p, c)
            C_, Sn = alg.fatom('cos', S.atom('angle')), alg.fatom('sin', S.atom('angle'))
            return alg.vadd(alg.vec(S.add(S.mul(C_, d[1]), S.mul(Sn, d[2]), -1), S.add(S.mul(Sn, d[1]), S.mul(C_, d[2]))), c)
        if name == 'mirror':
            p0, p1 = alg.vec(S.atom('p0.x'), S.atom('p0.y')), alg.vec(S.atom('p1.x'), S.atom('p1.y'))
            v = sub(p1, p0)
            vv = S.add(S.mul(v[1], v[1]), S.mul(v[2], v[2]))
            d = sub(p, p0)
            k = S.mul(S.mul(S.P(2), S.add(S.mul(v[1], d[1]), S.mul(v[2], d[2]))), alg.fatom('inv', vv))
            return alg.vadd(alg.vadd(alg.vmul(v, k), d, -1), p0)
    SCALE_PARAM = {'FlexPath': db.fn('gdstk::FlexPath::scale').params[0]['n']}
    PT = {'Polygon': 'this->point_array[]', 'FlexPath': 'this->spine.point_array[]'}
    WO, EE, BR = 'this->elements[].half_width_and_offset[]', 'this->elements[].end_extensions', 'this->elements[].bend_radius'
    for cls in ('Polygon', 'FlexPath'):
        for name in ('transform', 'translate', 'scale', 'rotate', 'mirror'):
            f = db.fn('gdstk::%s::%s' % (cls, name))
            ctx.touch(f)
            has_refl = any(p_['n'] == 'x_reflection' for p_ in f.params)
            has_sw = cls == 'FlexPath' and name in ('transform', 'scale')
            for refl in ((False, True) if has_refl else (False,)):
                for sw in ((False, True) if has_sw else (False,)):
                    g = G.Gen(db, f)
                    env = {'x_reflection': S.P(int(refl)), 'scale_width': S.P(int(sw))}
                    try:
                        g.run([s_ for s_ in f.body.c if s_ is not None], env)
                    except S.Unsupported as e:
                        raise AnalysisBroken('%s::%s is outside the generic-element algebra: %s' % (cls, name, e))
                    ctx.explored['valuations'] += 1
                    want = {}
                    key = PT[cls]
                    want[key] = spec_point(g, name, g.initial(key, True), cls, refl)
                    if cls == 'FlexPath' and name in ('transform', 'scale'):
                        F = g.fatom('fabs', S.atom('magnification' if name == 'transform' else SCALE_PARAM['FlexPath']))
                        wo, ee, br = g.initial(WO, True), g.initial(EE, True), g.initial(BR, False)
                        want[WO] = g.vec(S.mul(wo[1], F) if sw else wo[1], S.mul(S.mul(wo[2], F), S.P(-1 if refl else 1)))
                        want[EE] = g.vmul(ee, F)
                        want[BR] = S.mul(br, F)
                    if cls == 'FlexPath' and name == 'mirror':
                        wo = g.initial(WO, True)
                        want[WO] = g.vec(wo[1], S.mul(wo[2], S.P(-1)))
                    tag = '%s::%s%s' % (cls, name, ('|reflection=%d' % refl if has_refl else '') + (',scale_width=%d' % sw if has_sw else ''))
                    for k_, w_ in want.items():
                        got = g.loc.get(k_) if k_ in g.written else None
                        n += 1
                        what = {'[]': 'every point', WO: 'every (half width, offset) pair', EE: 'the end extensions', BR: 'the bend radius'}.get(k_ if k_ in (WO, EE, BR) else '[]')
                        ctx.check(got is not None and g.equal(got, w_), 'R-ALGEBRA', '%s/%s' % (tag, k_.replace('this->', '')), f.loc(), '%s is mapped by the documented map' % what,
                                  '%s: stored value is %s; the documented map gives %s' % (k_, g.render(got)[:300] if got is not None else 'never written', g.render(w_)[:300]))
                    extra = [k_ for k_ in g.written if k_ not in want]
                    ctx.check(not extra, 'R-ALGEBRA', '%s/nothing-else-written' % tag, f.loc(), 'no other member is modified', 'also writes %s' % extra)
                    # what the method delegates instead of computing (e.g. the repetition): named, not interpreted
    ctx.require('R-ALGEBRA element maps', n, 30)


def check_affine_algebra(ctx, db):
    """Polynomial identities (sa/symdiff.py, trigonometric expansion) against the DEFINITION of the maps
       T(q)   = t + M R(b) diag(1, g) q           (magnify, reflect across x, rotate, translate)
       P(p)   = o + m R(a) diag(1, f) p           (a reference / label placement)
    1. the point maps of Polygon::transform, FlexPath::transform (spine) and Reference::repeat_and_transform are T;
    2. Reference::transform and Label::transform update (origin, rotation, magnification, x_reflection) so that the
       new placement is T o P for every combination of the two reflection flags."""
    from .. import symdiff as S

    def T(alg, q, M, g, C, Sn, t):
        x, y = q[1], S.mul(q[2], S.P(g))
        return alg.vec(S.add(t[1], S.mul(M, S.add(S.mul(C, x), S.mul(Sn, y), -1))), S.add(t[2], S.mul(M, S.add(S.mul(Sn, x), S.mul(C, y)))))
    n = 0
    # ---- 1. point maps of Polygon / FlexPath: check_element_maps (generic-element execution); here the reference expansion
    f = db.fn('gdstk::Reference::repeat_and_transform')
    ctx.touch(f)
    inner = next((l for l in f.walk() if l.k == 'ForStmt' and any(v.k == 'VarDecl' and v.n == 'q' for v in l.walk()) and not any(x.k == 'ForStmt' and x is not l for x in l.child('body').walk())), None)
    if inner is None:
        raise AnalysisBroken('Reference::repeat_and_transform: per-point loop not found')
    top_ = inner
    while top_.parent is not None and top_.parent is not f.body:
        top_ = top_.parent
    before = f.body.c[:f.body.c.index(top_)] if top_ in f.body.c else []          # (by position: code put back from a helper has no source order ids)
    pre = [s_ for s_ in before if s_ is not None and s_.k == 'DeclStmt' and all(v is None or (re.search(r'double', v.t or '') and '*' not in (v.t or '')) for v in s_.c)]
    for g in (1, -1):
        alg = S.Algebra(db, None)
        env = {'x_reflection': S.P(1 if g == -1 else 0)}
        px, py = S.atom('px'), S.atom('py')
        try:
            alg.block(pre, env, None)
            # the cursor over the points: the pointer the loop body stores through (whatever it is called)
            pv = next((_strip_casts(_strip_casts(x.child('lhs')).child('base')).n for x in inner.child('body').walk() if is_assign(x) and _strip_casts(x.child('lhs')).k == 'MemberExpr' and _strip_casts(x.child('lhs')).arrow
                       and _strip_casts(_strip_casts(x.child('lhs')).child('base')).k == 'DeclRefExpr'), 'p')
            env['*' + pv] = alg.vec(px, py)
            env['*off'] = env['*offsets'] = alg.vec(S.atom('offx'), S.atom('offy'))     # the offset of this copy: through a cursor or by index
            out = run_point_block(alg, [s_ for s_ in inner.child('body').c if s_ is not None], env, pv)
        except S.Unsupported as e:
            raise AnalysisBroken('Reference::repeat_and_transform point map is outside the algebra: %s' % e)
        C_, Sn = alg.fatom('cos', S.atom('rotation')), alg.fatom('sin', S.atom('rotation'))
        want = T(alg, alg.vec(px, py), S.atom('magnification'), g, C_, Sn, alg.vec(S.add(S.atom('origin.x'), S.atom('offx')), S.add(S.atom('origin.y'), S.atom('offy'))))
        n += 1
        ctx.check(out is not None and alg.equal(out, want), 'R-ALGEBRA', 'Reference::repeat_and_transform/point-map|reflection=%s' % (g == -1), inner.loc(), 'every point of the referenced geometry is mapped by origin + offset + m R(rotation) diag(1, %+d) p' % g,
                  'the point map is %s, the documented map gives %s' % (alg.render(out) if out is not None else 'unset', alg.render(want)))
    # ---- 2. placement composition
    symbolic_gap = set()
    for qn in ('gdstk::Reference::transform', 'gdstk::Label::transform'):
        f = db.fn(qn)
        ctx.touch(f)
        for g in (1, -1):
            for fl in (1, -1):
                alg = S.Algebra(db, None)
                env = {'x_refl': S.P(1 if g == -1 else 0), 'x_reflection': S.P(1 if fl == -1 else 0), 'origin': alg.vec(S.atom('ox'), S.atom('oy')), 'rotation': S.atom('a'), 'magnification': S.atom('m'),
                       'orig': alg.vec(S.atom('tx'), S.atom('ty')), 'rot': S.atom('b'), 'mag': S.atom('M')}
                try:
                    for s_ in f.body.c:
                        if s_ is None:
                            continue
                        if s_.k == 'CompoundAssignOperator' and s_.op == '^=':
                            l = _strip_casts(s_.child('lhs'))
                            a_, b_ = env[l.n], alg.value(s_.child('rhs'), env)
                            if not (S.is_const(a_) and S.is_const(b_)):
                                raise S.Unsupported('xor of symbolic values')
                            env[l.n] = S.P(1 if bool(a_) != bool(b_) else 0)
                            continue
                        if s_.k == 'CompoundAssignOperator' and s_.op == '*=':
                            l = _strip_casts(s_.child('lhs'))
                            env[l.n] = alg.vmul(env[l.n], alg.value(s_.child('rhs'), env))
                            continue
                        if is_assign(s_) and _strip_casts(s_.child('lhs')).k == 'MemberExpr' and _strip_casts(s_.child('lhs')).n in ('x', 'y'):
                            l = _strip_casts(s_.child('lhs'))
                            cur = env['origin']
                            val = alg.value(s_.child('rhs'), env)
                            env['origin'] = alg.vec(val, cur[2]) if l.n == 'x' else alg.vec(cur[1], val)
                            continue
                        alg.block([s_], env, None)
                except S.Unsupported as e:
                    # a statement form the polynomial algebra does not read (a branch, a component store on a local): the same four
                    # compositions are decided numerically by check_placement (interpretation); nothing is claimed symbolically here
                    symbolic_gap.add(qn)
                    ctx.ok('R-ALGEBRA', '%s/composition|x_refl=%s,x_reflection=%s' % (qn.replace('gdstk::', ''), g == -1, fl == -1), f.loc(), 'not in symbolic form (%s): decided numerically by %s/composition' % (e, qn.replace('gdstk::', '')))
                    n += 1
                    continue
                px, py = S.atom('px'), S.atom('py')
                p = alg.vec(px, py)
                zero = alg.vec(S.P(0), S.P(0))
                # definition side: T(P_old(p))
                Pold = T(alg, p, S.atom('m'), fl, alg.fatom('cos', S.atom('a')), alg.fatom('sin', S.atom('a')), alg.vec(S.atom('ox'), S.atom('oy')))
                want = T(alg, Pold, S.atom('M'), g, alg.fatom('cos', S.atom('b')), alg.fatom('sin', S.atom('b')), alg.vec(S.atom('tx'), S.atom('ty')))
                # code side: P_new(p) from the fields the function stored
                a2 = env['rotation']
                f2 = -1 if env['x_reflection'] else 1
                got = T(alg, p, env['magnification'], f2, alg.fatom('cos', a2), alg.fatom('sin', a2), env['origin'])
                n += 1
                ok = alg.equal(alg.expand(got), alg.expand(want))
                ctx.check(ok, 'R-ALGEBRA', '%s/composition|x_refl=%s,x_reflection=%s' % (qn.replace('gdstk::', ''), g == -1, fl == -1), f.loc(), 'the updated placement equals T o P identically (origin, rotation %s, magnification product, reflection xor)' % ('-a + b' if g == -1 else 'a + b'),
                          'the updated placement maps p to %s, but T(P(p)) = %s' % (alg.render(alg.expand(got))[:260], alg.render(alg.expand(want))[:260]))
        flip = [x for x in f.walk() if x.k == 'CompoundAssignOperator' and x.op == '^=' and norm(x.child('lhs').text()).endswith('x_reflection') and norm(x.child('rhs').text()) == 'x_refl']
        if qn not in symbolic_gap:
            ctx.check(len(flip) == 1, 'R-ALGEBRA', '%s/reflection-xor' % qn.replace('gdstk::', ''), f.loc(), 'x_reflection ^= x_refl')
    ctx.require('R-ALGEBRA affine identities', n, 10)


def run_point_block(alg, body, env, pvar):
    """statements of a per-point loop body: locals, component stores through the cursor; returns the final element value"""
    from .. import symdiff as S
    key = '*' + pvar

    class Shim:
        pass
    for s_ in body:
        if s_.k == 'DeclStmt':
            for v in s_.c:
                if v is not None and v.k == 'VarDecl' and v.child('init') is not None:
                    env[v.n] = val_with_cursor(alg, v.child('init'), env, pvar)
        elif s_.k == 'IfStmt':
            c = val_with_cursor(alg, s_.child('cond'), env, pvar)
            if alg.isvec(c) or not S.is_const(c):
                raise S.Unsupported('symbolic branch')
            br = s_.child('then') if c else s_.child('else')
            if br is not None:
                run_point_block(alg, [br] if br.k != 'CompoundStmt' else [x for x in br.c if x is not None], env, pvar)
        elif (is_assign(s_) or s_.k in ('CompoundAssignOperator', 'CXXOperatorCallExpr')) and getattr(s_, 'op', None) in ('=', '+=', '-=', '*=') and _is_cursor_deref(s_.args[0] if s_.k == 'CXXOperatorCallExpr' else s_.child('lhs'), pvar):
            rhs = s_.args[1] if s_.k == 'CXXOperatorCallExpr' else s_.child('rhs')
            val = val_with_cursor(alg, rhs, env, pvar)
            cur = env.get(key + '#new') or env[key]
            if s_.op == '+=':
                val = alg.vadd(cur, val)
            elif s_.op == '-=':
                val = alg.vadd(cur, val, -1)
            elif s_.op == '*=':
                val = alg.vmul(cur, val) if not (alg.isvec(cur) and alg.isvec(val)) else alg.vec(S.mul(cur[1], val[1]), S.mul(cur[2], val[2]))
            env[key + '#new'] = val
        elif is_assign(s_) and s_.op == '=':
            l = _strip_casts(s_.child('lhs'))
            val = val_with_cursor(alg, s_.child('rhs'), env, pvar)
            if l.k == 'MemberExpr' and l.n in ('x', 'y'):
                b = _strip_casts(l.child('base'))
                arrow = bool(l.arrow)
                while b is not None and b.k == 'MemberExpr' and not b.n:
                    arrow = arrow or bool(b.arrow)
                    b = _strip_casts(b.child('base'))
                tgt = (key if arrow else b.n) if b is not None and b.k == 'DeclRefExpr' else None
                if tgt is None:
                    raise S.Unsupported('store target')
                cur = env.get(tgt + '#new') if tgt == key else env.get(tgt)
                if tgt == key:
                    cur = env.get(key + '#new') or alg.vec(S.P(0), S.P(0))
                    env[key + '#new'] = alg.vec(val, cur[2]) if l.n == 'x' else alg.vec(cur[1], val)
                else:
                    env[tgt] = alg.vec(val, cur[2]) if l.n == 'x' else alg.vec(cur[1], val)
            else:
                raise S.Unsupported('assignment `%s`' % s_.text()[:40])
        else:
            raise S.Unsupported('statement %s' % s_.k)
    return env.get(key + '#new')


def _is_cursor_deref(l, pvar):
    l = _strip_casts(l)
    if l is None or l.k != 'UnaryOperator' or l.op != '*':
        return False
    sub = _strip_casts(l.child('sub'))
    while sub.k == 'UnaryOperator' and sub.op in ('post++', '++'):
        sub = _strip_casts(sub.child('sub'))
    return sub.k == 'DeclRefExpr' and sub.n == pvar


def val_with_cursor(alg, e, env, pvar):
    """Algebra.value with `*c` / `c->x` resolved, for every cursor c that has an element value `*c` in env, to that
    element (its ORIGINAL value: stores through the main cursor go to a shadow copy)."""
    from .. import symdiff as S
    orig_value = alg.value

    def sub_key(x0):
        """`arr[i]`, `arr.items[i]`, `ptr[i]` -> '*arr' / '*ptr' (the generic element of that list)"""
        if x0 is None:
            return None
        b_ = None
        if x0.k == 'ArraySubscriptExpr':
            b_ = _strip_casts(x0.child('base') or x0.c[0])
        elif x0.k == 'CXXOperatorCallExpr' and x0.op == '[]' and x0.args:
            b_ = _strip_casts(x0.args[0])
        if b_ is None:
            return None
        if b_.k == 'MemberExpr' and b_.n == 'items' and b_.child('base') is not None:
            b_ = _strip_casts(b_.child('base'))
        if b_.k in ('DeclRefExpr', 'MemberExpr') and b_.n:
            return '*' + b_.n
        return None

    def value(x, en):
        x0 = _strip_casts(x)
        sk = sub_key(x0)
        if sk is not None and sk in en:
            return en[sk]
        if x0 is not None and x0.k == 'MemberExpr' and x0.n in ('x', 'y') and not x0.arrow:
            sk = sub_key(_strip_casts(x0.child('base')) if x0.child('base') is not None else None)
            if sk is not None and sk in en:
                return en[sk][1] if x0.n == 'x' else en[sk][2]
        if x0 is not None and x0.k == 'UnaryOperator' and x0.op == '*':
            sub = _strip_casts(x0.child('sub'))
            while sub.k == 'UnaryOperator' and sub.op in ('post++', '++'):
                sub = _strip_casts(sub.child('sub'))
            if sub.k == 'DeclRefExpr' and ('*' + sub.n) in en:
                return en['*' + sub.n]
        if x0 is not None and x0.k == 'MemberExpr' and x0.n in ('x', 'y'):
            arrow = bool(x0.arrow)
            b_ = _strip_casts(x0.child('base')) if x0.child('base') is not None else None
            while b_ is not None and b_.k == 'MemberExpr' and not b_.n:
                arrow = arrow or bool(b_.arrow)
                b_ = _strip_casts(b_.child('base')) if b_.child('base') is not None else None
            if arrow and b_ is not None and b_.k == 'DeclRefExpr' and ('*' + b_.n) in en:
                v_ = en['*' + b_.n]
                return v_[1] if x0.n == 'x' else v_[2]
        return orig_value(x, en)
    alg.value = value
    try:
        return value(e, env)
    finally:
        alg.value = orig_value


def run(ctx):
    db = ctx.db
    ctx.attempt(check_element_maps, ctx, db)
    ctx.attempt(check_placement, ctx, db)
    ctx.attempt(check_signs, ctx, db)
    ctx.attempt(check_length_fields, ctx, db)
    ctx.attempt(check_affine_algebra, ctx, db)
    # the generic-element execution above reads a cursor, an index and a count-down loop alike as "the element": that the cursor of an
    # element loop really moves from element to element is R-PARALLEL (an element cursor set to the start of an array and dereferenced in a
    # loop is advanced in that loop), over every function of the element sources
    from .. import parallel
    nc = 0
    for f_ in db.functions:
        if f_.body is not None and f_.relfile() in ('src/flexpath.cpp', 'src/robustpath.cpp', 'src/polygon.cpp', 'src/reference.cpp', 'src/label.cpp'):
            k_ = parallel.check_cursors(ctx, f_)
            if k_:
                ctx.touch(f_)
            nc += k_
    ctx.require('R-PARALLEL element cursors', nc, 30)
    from . import C08   # RobustPath keeps its transform as a matrix: the matrix methods are C08's obligations, shared
    ctx.attempt(C08.check_trafo_algebra, ctx, db)
    ctx.attempt(C08.check_unscaled_bookkeeping, ctx, db)   # a scaled robust path must be outlined with scaled widths: the unscaled builder memory is not read
    # Repetition::transform (C10.5) — same obligations as C11
    ctx.attempt(C11.check_transform, ctx, db)
    ctx.attempt(C11.check_transform_algebra, ctx, db)
    f = db.fn('gdstk::Repetition::transform')
    ctx.attempt(tables.check_exhaustive, ctx, db, f, C11.RT, frozen_default={('gdstk::Repetition::transform', 0): ['Rectangular', 'Regular', 'Explicit', 'ExplicitX', 'ExplicitY']})


MANIFEST = dict(
    text='Decides, as polynomial identities, that the element transforms are the documented affine maps: every transforming method of Polygon and FlexPath (transform, translate, scale, rotate, mirror) is executed once on a symbolic generic element of each member array (sa/genelem.py: cursors, indices and count-down loops all denote the same generic element), for every valuation of x_reflection and scale_width; the value stored into vertices / spine points is exactly t + m R(rotation) diag(1, +-1) p, p + v, c + s(p - c), c + R(angle)(p - c) or the reflection across p0p1, the (half width, offset) pairs become (w * (scale_width ? |m| : 1), d * +-|m|) (sign flips exactly under reflection; mirror gives (w, -d)), end extensions and bend radius scale by |m|, every length-valued field of the element record (from the record layout) is rewritten and no other member is written; the per-point map of Reference::repeat_and_transform is t + offset + m R diag(1, +-1) p; Reference::transform / Label::transform store fields whose placement is exactly T o P for all four reflection combinations, are clones of each other and capture the old origin before overwriting it; by abstract interpretation over the sign domain for every sign/boolean valuation RobustPath::simple_scale/mirror/x_reflection keep or flip the sign of offset_scale as required and keep width_scale positive; RobustPath::transform is scale; reflect-if; rotate; translate and its matrix methods compose exactly; Repetition::transform depends on every non-neutral parameter for every kind and valuation and is, as a polynomial identity on all 40 (kind, valuation) paths, m R(rotation) diag(1, +-1). Numerical agreement of outlines is not decided. Reference::transform and Label::transform are interpreted for the four reflection combinations at one generic point: the stored placement is T o P. The spelling comparison of the three point maps is advisory (they are decided as polynomial identities).',
    note='Trusted: clang front end, gx, sa rules (sa/signs.py interprets literals, unary minus, fabs, products, ternaries, Vec2 initialisers and component stores; anything else evaluates to unknown and fails the obligation). Reference strings for the origin map were confirmed by reading.',
    technique='generic-element symbolic execution of the transforming methods into polynomial identities with trigonometric expansion (sa/genelem.py, sa/symdiff.py) + clone family for the two placement transforms + sign-domain abstract interpretation with exhaustive parameter-sign enumeration + predicate-atom path enumeration + interpretation of the placement transforms per reflection combination (sa/minieval)',
    design='§4 C10')
